"""C02, content part: symbolic evaluation of the user actions of the grammar from their MIR (`rules::aidl::__actionN`).

For one production the evaluator (lib/acteval.py, engine A) has already resolved the generated wrapper glue: it yields the user
action that builds the node and, for each of its parameters, the triple (start, value, end) it receives - value being a grammar
symbol of the production, the result of an inner (macro-generated) action, or a captured position.  Here the MIR of that user action
is executed on symbolic inputs:
    terminal            -> ('tok', i)      the text of token i (an unconstrained string; its kind is fixed by the production)
    nonterminal         -> ('nt', i)       the value the child production built (an opaque node); Vec / Option-typed children are
                                            kept abstract: ('nt', i) stands for the whole list / the optional value
    positions           -> ('pos', term)   z3 integer terms over the token spans
and the result is a term: structs, tuples, options, vectors (literal / push / flatten), strings (verbatim / join / format /
rsplit), ranges ('range', a, b) and documentation look-ups ('doc', p).  Std operations outside the supported list raise
Unsupported (-> inconclusive), they are never guessed."""
import re

import z3

import mir
from mir import Unsupported


class V:
    """helpers over value terms"""

    @staticmethod
    def walk(t, f, path=()):
        f(t, path)
        if isinstance(t, tuple):
            if t and t[0] == 'struct':
                for k, v in t[2]:
                    V.walk(v, f, path + (k,))
            elif t and t[0] in ('range', 'doc', 'pos'):
                return
            else:
                for i, x in enumerate(t[1:]):
                    if isinstance(x, (tuple, list)):
                        V.walk(tuple(x) if isinstance(x, list) else x, f, path + (i,))


class ActionEval:
    def __init__(self, prog):
        self.prog = prog
        self.byname = {}
        for f in prog.fns:
            m = re.search(r'__action(\d+)$', f.name)
            if m:
                self.byname[int(m.group(1))] = f
        self.used_models = set()
        self.panics = []

    # ---- places ------------------------------------------------------------------------------------------------------------
    def place(self, txt, env):
        txt = txt.strip()
        m = re.match(r'^(?:move |copy |no_retag copy )(.*)$', txt)
        if m:
            txt = m.group(1).strip()
        if re.match(r'^_\d+$', txt):
            if txt not in env:
                raise Unsupported('read of unset local ' + txt)
            return env[txt]
        m = re.match(r'^\(\*(_\d+)\)$', txt)
        if m:
            return self.deref(env[m.group(1)], env)
        m = re.match(r'^\((.*)\.(\d+): .*\)$', txt, re.S)
        if m:
            base_txt, idx = m.group(1).strip(), int(m.group(2))
            mm = re.match(r'^\((.*) as (\w+)\)$', base_txt)
            if mm:
                base = self.place(mm.group(1), env)
                return self.downcast(base, mm.group(2), idx)
            return self.project(self.place(base_txt, env), idx)
        m = re.match(r'^const (.*)$', txt, re.S)
        if m:
            return self.const(m.group(1))
        if re.match(r'^<.* as \w+>::\w+$', txt) or re.match(r'^(\w+::)+\w+$', txt):
            return ('fnitem', txt)
        raise Unsupported('place ' + txt[:80])

    def const(self, c):
        c = c.strip()
        if c in ('true', 'false'):
            return ('bool', c == 'true')
        m = re.match(r'^"(.*)"$', c, re.S)
        if m:
            return ('lit', m.group(1))
        m = re.match(r"^'(.)'$", c)
        if m:
            return ('char', m.group(1))
        m = re.match(r'^(-?\d+)_\w+$', c)
        if m:
            return ('int', int(m.group(1)))
        if c.startswith('ZeroSized'):
            mm = re.search(r'\{closure@([^}]*)\}', c)
            if mm:
                return ('closure', mm.group(1), ())
            return ('zst', c)
        if c == '()':
            return ('unit',)
        return ('const', c)

    def deref(self, t, env):
        if isinstance(t, tuple) and t[0] == 'ref':
            return t[1]
        if isinstance(t, tuple) and t[0] == 'mref':
            return env[t[1]]
        return t

    def project(self, base, idx):
        base = base[1] if isinstance(base, tuple) and base[0] == 'ref' else base
        if isinstance(base, tuple):
            if base[0] == 'tuple':
                return base[1][idx]
            if base[0] == 'struct':
                return base[2][idx][1]
            if base[0] == 'closure':
                return base[2][idx]
            if base[0] == 'triple':
                return base[1][idx]
        return ('proj', base, idx)

    def downcast(self, base, variant, idx):
        base = base[1] if isinstance(base, tuple) and base[0] == 'ref' else base
        if isinstance(base, tuple) and base[0] == 'some' and variant == 'Some':
            return base[1]
        if isinstance(base, tuple) and base[0] == 'optsym' and variant == 'Some':
            return ('unwrap', base[1])
        if isinstance(base, tuple) and base[0] == 'enumv' and base[2] == variant:
            return base[3][idx]
        return ('downcast', base, variant, idx)

    # ---- rvalues -----------------------------------------------------------------------------------------------------------
    def rvalue(self, txt, env, fn):
        txt = txt.strip()
        m = re.match(r'^&mut (_\d+)$', txt)
        if m:
            return ('mref', m.group(1))
        m = re.match(r'^&(?:mut )?(?:raw (?:const|mut) )?(.*)$', txt)
        if m:
            return ('ref', self.place(m.group(1), env))
        m = re.match(r'^discriminant\((.*)\)$', txt)
        if m:
            return ('disc', self.place(m.group(1), env))
        m = re.match(r'^\[(.*)\]$', txt, re.S)
        if m:
            return ('array', tuple(self.place(x, env) for x in mir._split_top(m.group(1))))
        m = re.match(r'^(.*) as .* \((Transmute|PtrToPtr|PointerCoercion.*|IntToInt)\)$', txt)
        if m:
            return self.place(m.group(1), env) if re.match(r'^(move |copy )?[_(]', m.group(1).strip()) else ('cast', m.group(1))
        m = re.match(r'^\{closure@([^}]*)\}(?: \{ (.*) \})?$', txt, re.S)
        if m:
            caps = []
            if m.group(2):
                for f in mir._split_top(m.group(2)):
                    caps.append(self.place(f.split(':', 1)[1], env))
            return ('closure', m.group(1), tuple(caps))
        m = re.match(r'^((?:[\w]+::)*[A-Z]\w*)(?:::<.*>)? \{ (.*) \}$', txt, re.S)
        if m:
            fields = []
            for f in mir._split_top(m.group(2)):
                k, v = f.split(':', 1)
                fields.append((k.strip(), self.place(v, env)))
            return ('struct', m.group(1).split('::')[-1], tuple(fields))
        m = re.match(r'^(?:std::option::|core::option::)?Option::<.*>::Some\((.*)\)$', txt, re.S)
        if m:
            return ('some', self.place(m.group(1), env))
        if re.match(r'^(?:std::option::|core::option::)?Option::<.*>::None$', txt):
            return ('none',)
        m = re.match(r'^(?:std::result::|core::result::)?Result::<.*>::Ok\((.*)\)$', txt, re.S)
        if m:
            return ('ok', self.place(m.group(1), env))
        m = re.match(r'^((?:\w+::)+)([A-Z]\w*)\((.*)\)$', txt, re.S)
        if m:
            return ('enumv', m.group(1).rstrip(':').split('::')[-1], m.group(2), tuple(self.place(x, env) for x in mir._split_top(m.group(3))))
        m = re.match(r'^((?:\w+::)+)([A-Z]\w*)$', txt)
        if m:
            return ('enumv', m.group(1).rstrip(':').split('::')[-1], m.group(2), ())
        m = re.match(r'^\((.*)\)$', txt, re.S)
        if m and re.search(r'\b(move|copy|const)\b', txt):
            return ('tuple', tuple(self.place(x, env) for x in mir._split_top(m.group(1))))
        if re.match(r'^(move |copy |no_retag copy |const |\(|_\d+$)', txt):
            return self.place(txt, env)
        m = re.match(r'^(Eq|Ne|Lt|Le|Gt|Ge|Add|Sub)\((.*)\)$', txt, re.S)
        if m:
            a, b = [self.place(x, env) for x in mir._split_top(m.group(2))]
            return ('binop', m.group(1), a, b)
        m = re.match(r'^Not\((.*)\)$', txt)
        if m:
            return ('not', self.place(m.group(1), env))
        raise Unsupported('rvalue ' + txt[:100])

    # ---- execution ---------------------------------------------------------------------------------------------------------
    def run(self, fn, args, pending=None):
        """-> [(conds, return value)]"""
        if len(args) != len(fn.params):
            raise Unsupported('arity of %s' % fn.name)
        env0 = {p: a for (p, _t), a in zip(fn.params, args)}
        out = []
        work = [('bb0', env0, [], frozenset(), None)]
        while work:
            bb, env, pc, seen, parr = work.pop()
            if bb in seen:
                raise Unsupported('loop in %s' % fn.name)
            seen = seen | {bb}
            if len(out) + len(work) > 2000:
                raise Unsupported('path explosion in ' + fn.name)
            env = dict(env)
            for st in fn.blocks[bb]:
                st = st.rstrip(';')
                if st == 'return':
                    out.append((pc, env.get('_0', ('unit',)))); break
                if st in ('unreachable', 'resume') or st.startswith('unwind'):
                    break
                if st.startswith(('StorageLive', 'StorageDead', 'nop', 'FakeRead', 'PlaceMention', 'Retag', 'ConstEvalCounter', 'Coverage')):
                    continue
                m = re.match(r'^goto -> (bb\d+)$', st)
                if m:
                    work.append((m.group(1), env, pc, seen, parr)); break
                m = re.match(r'^drop\(.*\) -> \[return: (bb\d+)', st)
                if m:
                    work.append((m.group(1), env, pc, seen, parr)); break
                m = re.match(r'^assert\(.*\) -> \[success: (bb\d+)', st, re.S)
                if m:
                    work.append((m.group(1), env, pc, seen, parr)); break
                m = re.match(r'^switchInt\((.*)\) -> \[(.*)\]$', st)
                if m:
                    v = self.place(m.group(1), env)
                    arms = [(int(c), t) for c, t in re.findall(r'(-?\d+): (bb\d+)', m.group(2))]
                    other = re.search(r'otherwise: (bb\d+)', m.group(2)).group(1)
                    c = self.concrete_switch(v)
                    if c is not None:
                        work.append((dict(arms).get(c, other), env, pc, seen, parr)); break
                    neg = []
                    for cval, t in arms:
                        work.append((t, env, pc + [('eq', v, cval)], seen, parr)); neg.append(('ne', v, cval))
                    if 'unreachable' not in ' '.join(fn.blocks[other]):
                        work.append((other, env, pc + neg, seen, parr))
                    break
                if re.match(r'^(?:_\d+ = )?(?:[\w:<>\' ,&\[\]]+::)?(panic|panic_fmt|unreachable_display|panic_display|unwrap_failed|expect_failed)(::<.*>)?\(.*\) -> (unwind|\[unwind)', st, re.S):
                    self.panics.append((pc, st[:80])); break
                sc = mir.split_call(st)
                if sc:
                    dest, callee, atxt, nxt = sc
                    raw = [self.place(x, env) for x in mir._split_top(atxt)] if atxt.strip() else []
                    for (c2, r2, upd) in self.call(callee, raw, env, parr):
                        e2 = dict(env); e2[dest] = r2
                        for k, v in upd.items():
                            e2[k] = v
                        work.append((nxt, e2, pc + c2, seen, None if 'box_assume_init' in callee else parr))
                    break
                m = re.match(r'^(_\d+) = (.*)$', st, re.S)
                if m:
                    env[m.group(1)] = self.rvalue(m.group(2), env, fn)
                    continue
                m = re.match(r'^\(+\*_\d+\).* = (\[.*\])$', st, re.S)
                if m:
                    parr = self.rvalue(m.group(1), env, fn)      # array literal written into a fresh box (vec![..])
                    continue
                m = re.match(r'^\((_\d+)\.(\d+): .*\) = (.*)$', st, re.S)
                if m and m.group(1) in env and isinstance(env[m.group(1)], tuple) and env[m.group(1)][0] == 'tuple':
                    t = list(env[m.group(1)][1]); t[int(m.group(2))] = self.rvalue(m.group(3), env, fn)
                    env[m.group(1)] = ('tuple', tuple(t)); continue
                raise Unsupported('statement ' + st[:100])
        return out

    def concrete_switch(self, v):
        if v[0] == 'bool':
            return 1 if v[1] else 0
        if v[0] == 'int':
            return v[1]
        if v[0] == 'disc':
            x = v[1]
            if isinstance(x, tuple):
                if x[0] == 'some':
                    return 1
                if x[0] == 'none':
                    return 0
                if x[0] == 'ok':
                    return 0
        return None

    def fnname(self, callee):
        return re.sub(r'::<.*?>(?=::|$)', '', callee)

    def call(self, callee, a, env, parr):
        """-> [(conds, result, {local: new value})]"""
        n = callee
        short = self.fnname(callee)
        last = short.split('::')[-1]
        vals = [env[x[1]] if isinstance(x, tuple) and x[0] == 'mref' else x for x in a]
        vals = [v[1] if isinstance(v, tuple) and v[0] == 'ref' else v for v in vals]

        def ret(v, upd=None):
            return [([], v, upd or {})]
        if re.search(r'<(str|String|&str|&String) as (ToOwned|ToString|Clone)>::|<&?str as Into<String>>::into$|<String as From<&str>>::from$|<String as Deref>::deref$|<Vec<.*> as Deref>::deref$|String::as_str$|must_use::<String>$|<.* as Clone>::clone$', n):
            self.used_models.add('to_owned / to_string / into / clone / deref = identity')
            return ret(vals[0])
        if re.search(r'<str as Index<.*Range.*<usize>>>::index$|<String as Index<.*Range.*<usize>>>::index$', n):
            # a slice of some text by offsets: its value depends on positions (explicit node; M5 rejects it in tree content)
            return ret(('slice', vals[0], vals[1]))
        if re.search(r'<\w+ as Into<String>>::into$|<\w+ as Into<std::string::String>>::into$', n):
            return ret(vals[0])
        if re.search(r'<Vec<.*> as From<\[.*; \d+\]>>::from$', n):
            v = vals[0]
            if not (isinstance(v, tuple) and v[0] == 'array'):
                raise Unsupported('Vec::from of a non-literal array')
            self.used_models.add('Vec::from([..]) keeps the array order')
            return ret(('vec', tuple(v[1])))
        if re.search(r'(^|::)Range::new$', short):
            return ret(('range', vals[1], vals[2]))
        if re.search(r'javadoc::get_javadoc$', short):
            return ret(('doc', tuple(vals[1:])))
        if re.search(r'Vec::<.*>::new$', n) or short.endswith('Vec::new'):
            return ret(('vec', ()))
        if short.endswith('String::new'):
            return ret(('lit', ''))
        if re.search(r'(^|::)Diagnostic::\w+$', short) or re.search(r'diagnostic::<impl at [^>]*>::\w+$', short):
            # constructors of diagnostics are not interpreted: what matters is whether they ALWAYS yield one (return type)
            cands = [f for f in self.prog.fns if self.same(f.name, n) and '::verif' not in f.name]
            if len(cands) > 1:
                cands = [f for f in cands if '<impl at' in f.name] or cands
            rty = cands[0].ret if len(cands) == 1 else ''
            if re.match(r'^(std::option::|core::option::)?Option<', rty or ''):
                return [([('maybe_diag', last, True)], ('some', ('diag',)), {}), ([('maybe_diag', last, False)], ('none',), {})]
            return ret(('diag',))
        if re.search(r'Vec::<.*>::push$', n) and vals and vals[0] == ('diags',):
            return [([('pushed_diag',)], ('unit',), {})]
        if re.search(r'Vec::<.*>::push$', n):
            if not (isinstance(a[0], tuple) and a[0][0] == 'mref'):
                raise Unsupported('push through a reference that is not a local borrow')
            cur = env[a[0][1]]
            self.used_models.add('Vec::push appends at the end')
            return ret(('unit',), {a[0][1]: ('push', cur, vals[1])})
        if re.search(r'Vec::<.*>::is_empty$', n) and isinstance(vals[0], tuple) and vals[0][0] in ('vec', 'push'):
            return ret(('bool', vals[0][0] == 'vec' and len(vals[0][1]) == 0))
        if re.search(r'Vec::<.*>::is_empty$', n):
            return [([('isempty', vals[0], True)], ('bool', True), {}), ([('isempty', vals[0], False)], ('bool', False), {})]
        if 'Box::<' in n and last == 'new_uninit':
            return ret(('box',))
        if 'box_assume_init_into_vec_unsafe' in n:
            if parr is None:
                raise Unsupported('vec![..] without a recognised element store')
            self.used_models.add('vec![..] literal')
            return ret(('vec', tuple(parr[1])))
        if re.search(r' as IntoIterator>::into_iter$', n):
            return ret(('iter', vals[0]))
        if re.search(r' as Iterator>::flatten$', n):
            self.used_models.add('into_iter().flatten().collect() keeps the Some elements in order')
            return ret(('iter', ('flatten', vals[0][1])))
        m = re.search(r' as Iterator>::collect::<(.*)>$', n)
        if m:
            tgt = m.group(1)
            if re.match(r'^(std::vec::|alloc::vec::)?Vec<', tgt):
                return ret(vals[0][1])
            if 'HashMap<' in tgt:
                self.used_models.add('collect::<HashMap> of (key, value) pairs')
                return ret(('to_map', vals[0][1]))
            raise Unsupported('collect into ' + tgt[:40])
        if re.search(r'Option::<.*>::unwrap_or_default$', n):
            o = vals[0]
            if o[0] == 'some':
                return ret(o[1])
            if o[0] == 'none':
                return ret(('vec', ()))
            return ret(('unwrap_or_default', o))
        if re.search(r'Option::<.*>::is_some$', n):
            o = vals[0]
            if o[0] in ('some', 'none'):
                return ret(('bool', o[0] == 'some'))
            return ret(('is_some', o))
        m = re.search(r'Option::<.*>::map::<', n)
        if m:
            o, f = vals[0], vals[1]
            if o[0] == 'none':
                return ret(('none',))
            inner = o[1] if o[0] == 'some' else ('unwrap', o)
            res = self.invoke(f, [inner])
            outs = []
            for c2, r2 in res:
                if o[0] == 'some':
                    outs.append((c2, ('some', r2), {}))
                else:
                    outs.append((c2, ('optmap', o, r2), {}))
            return outs
        if re.search(r'str::<impl str>::r?split_once::<char>$|(^|::)r?split_once$', short):
            s, ch = vals[0], vals[1]
            pre = 'rsplit' if 'rsplit_once' in short else 'split'
            return [([('contains', s, ch, True)], ('some', ('tuple', ((pre + '_l', s, ch), (pre + '_r', s, ch)))), {}),
                    ([('contains', s, ch, False)], ('none',), {})]
        if re.search(r'(^|::)slice::<impl \[.*\]>::join::<|std::slice::join$|(^|::)join$', short) or re.search(r'<impl \[.*\]>::join::<', n):
            self.used_models.add('[&str]::join(sep)')
            return ret(('join', vals[0], vals[1]))
        if re.search(r'<(str|&str|String) as PartialEq(<.*>)?>::(eq|ne)$', n):
            e = ('streq', vals[0], vals[1])
            neg = last == 'ne'
            return [([('cond', e, True)], ('bool', not neg), {}), ([('cond', e, False)], ('bool', neg), {})]
        if re.search(r'fmt::rt::Argument::<\'_>::new_display::<|Argument::new_display$', n) or short.endswith('Argument::new_display'):
            return ret(('fmtarg', vals[0]))
        if re.search(r'Arguments::<\'_>::new::<|Arguments::new$', n) or short.endswith('Arguments::new'):
            return ret(('fmtargs', tuple(vals)))
        if re.search(r'(^|::)fmt::format$|(^|::)format$', short):
            self.used_models.add('format!')
            return ret(('format', vals[0]))
        if re.search(r'<.* as FromStr>::from_str$|str::<impl str>::parse::<', n):
            mt = re.search(r'parse::<(\w+)>', n)
            return ret(('parse', vals[0], mt.group(1) if mt else '?'))
        if re.search(r'Result::<.*>::(expect|unwrap)$', n):
            r0 = vals[0]
            if isinstance(r0, tuple) and r0[0] == 'parse':
                # the Err arm panics: recorded with its condition, the Ok arm continues with the parsed value
                self.panics.append(([('parse_ok', r0, False)], 'Result::%s on %s' % (last, 'str::parse')))
                return [([('parse_ok', r0, True)], ('downcast', r0, 'Ok', 0), {})]
            raise Unsupported('Result::%s on %s' % (last, r0[0] if isinstance(r0, tuple) else r0))
        if re.search(r'Option::<.*>::(expect|unwrap)$', n):
            o = vals[0]
            if isinstance(o, tuple) and o[0] == 'some':
                return ret(o[1])
            if isinstance(o, tuple) and o[0] == 'none':
                self.panics.append(([], 'Option::%s on None' % last))
                return []
            raise Unsupported('Option::%s on a symbolic option' % last)
        m = re.search(r'(?:core|std|alloc)::str::<impl str>::(\w+)(?:::<.*>)?$|^String::(\w+)$|(?:core|alloc|std)::string::String::(\w+)$', n) or re.search(r'str::<impl str>::(\w+)(?:::<.*>)?$', n)
        if m:
            # any other text operation: kept as an explicit transformation (mirror obligation M2 rejects it unless the statement allows it)
            op = [g for g in m.groups() if g][0]
            return ret(('strop:' + op,) + tuple(vals))
        # closures / crate functions
        cands = [f for f in self.prog.fns if self.same(f.name, n)]
        if len(cands) == 1:
            self.depth = getattr(self, 'depth', 0) + 1
            if self.depth > 12:
                self.depth = 0
                raise Unsupported('inlining depth exceeded at ' + n[-60:])
            outs = []
            upd_keys = [x[1] for x in a if isinstance(x, tuple) and x[0] == 'mref']
            if upd_keys and not re.search(r'from_error_recovery|Diagnostic', n):
                raise Unsupported('crate function taking &mut local: ' + n[-50:])
            try:
                for c2, r2 in self.run(cands[0], vals):
                    outs.append((c2, r2, {}))
            finally:
                self.depth = max(0, self.depth - 1)
            return outs
        if re.search(r'Diagnostic::from_error_recovery$|Vec::<diagnostic::Diagnostic>::push$', short):
            return ret(('diag',))
        raise Unsupported('call to %s (%d candidates)' % (n[-70:], len(cands)))

    def same(self, fname, callee):
        a = re.sub(r'::<(?!impl ).*?>(?=::|$)', '', fname)
        b = self.fnname(callee)
        if a == b or a.endswith('::' + b) or b.endswith('::' + a):
            return True
        # `Type::method` against `<impl at ...>::method`
        mb = re.match(r'^(?:\w+::)*(\w+)::(\w+)$', b)
        if mb and re.search(r'<impl at [^>]*>::%s$' % re.escape(mb.group(2)), a):
            f = [g for g in self.prog.fns if g.name == fname][0]
            return mb.group(1) in (f.ret or '') or any(mb.group(1) in t for _p, t in f.params[:1])
        return False

    def invoke(self, f, args):
        if isinstance(f, tuple) and f[0] == 'fnitem':
            return [(c, r) for (c, r, _u) in self.call(f[1], list(args), {}, None)]
        if not (isinstance(f, tuple) and f[0] == 'closure'):
            raise Unsupported('call of a non-closure value')
        cl = [g for g in self.prog.fns if g.params and ('{closure@%s}' % f[1]) in g.params[0][1] and '{closure#' in g.name]
        if len(cl) != 1:
            # function items passed as closures (e.g. `<str as ToOwned>::to_owned`)
            raise Unsupported('closure body for %s: %d candidates' % (f[1][-40:], len(cl)))
        return self.run(cl[0], [f] + list(args))


# ---- driving the evaluator from a production ---------------------------------------------------------------------------------
import itertools
import acteval


def triple_types(fn):
    """value type of each symbol parameter of a user action (after lookup, diagnostics, input)"""
    out = []
    for _p, ty in fn.params[3:]:
        m = re.match(r'^\(usize, (.*), usize\)$', ty, re.S)
        out.append(m.group(1) if m else ty)
    return out


def eval_leaf(E, leaf, rhs):
    """-> [(conds, value)] for the node a production builds; `rhs` = the production's symbols (for terminal / nonterminal typing)"""
    fn = E.byname.get(leaf.n)
    if fn is None:
        raise Unsupported('no MIR for __action%d' % leaf.n)
    tys = triple_types(fn)
    if len(tys) != len(leaf.args):
        raise Unsupported('__action%d: %d MIR parameters vs %d arguments' % (leaf.n, len(tys), len(leaf.args)))
    choices = []
    for ty, a in zip(tys, leaf.args):
        if isinstance(a, tuple) and len(a) == 3:
            s, v, e = a
            if isinstance(v, acteval.Leaf):
                inner = eval_leaf(E, v, rhs)
                choices.append([(c, ('triple', (('pos', s), val, ('pos', e)))) for c, val in inner])
                continue
            if isinstance(v, tuple) and v and v[0] == 'sym':
                i = v[1]
                if ty.strip() in ("&str", "&'input str") or acteval.is_terminal(rhs[i]):
                    val = ('tok', i)
                elif ty.strip() == 'usize':
                    val = ('pos', s)
                else:
                    val = ('nt', i)
                choices.append([([], ('triple', (('pos', s), val, ('pos', e))))])
                continue
            if z3.is_expr(v):
                choices.append([([], ('triple', (('pos', s), ('pos', v), ('pos', e))))])
                continue
            raise Unsupported('argument value %r' % (v,))
        if z3.is_expr(a):
            choices.append([([], ('ref', ('pos', a)))])
            continue
        raise Unsupported('argument %r' % (a,))
    out = []
    for combo in itertools.product(*choices):
        conds = [c for cs, _v in combo for c in cs]
        args = [('lookup',), ('diags',), ('input',)] + [v for _cs, v in combo]
        for c2, r in E.run(fn, args):
            out.append((conds + c2, r))
    return out


def leaves(t, acc=None, under=None):
    """occurrences of inputs in a value: [(kind, index, context)] with context = 'range' / 'doc' / 'content'"""
    acc = [] if acc is None else acc
    if not isinstance(t, tuple) or not t:
        return acc
    h = t[0]
    if h in ('tok', 'nt'):
        acc.append((h, t[1], under or 'content')); return acc
    if h == 'pos':
        acc.append(('pos', str(t[1]), under or 'content')); return acc
    if h == 'range':
        for x in t[1:]:
            leaves(x, acc, 'range')
        return acc
    if h == 'doc':
        for x in t[1]:
            leaves(x, acc, 'doc')
        return acc
    if h == 'struct':
        for _k, v in t[2]:
            leaves(v, acc, under)
        return acc
    for x in t[1:]:
        if isinstance(x, tuple):
            if x and isinstance(x[0], str):
                leaves(x, acc, under)
            else:
                for y in x:
                    leaves(y, acc, under)
    return acc


def show(t, depth=0):
    if not isinstance(t, tuple) or not t:
        return str(t)
    h = t[0]
    if h == 'struct':
        return '%s{%s}' % (t[1], ', '.join('%s: %s' % (k, show(v, depth + 1)) for k, v in t[2]))
    if h in ('tok', 'nt'):
        return '%s%d' % (h, t[1])
    if h == 'pos':
        return '@'
    if h == 'range':
        return 'R'
    if h == 'doc':
        return 'DOC'
    if h == 'lit':
        return repr(t[1])
    return '%s(%s)' % (h, ', '.join(show(x, depth + 1) if isinstance(x, tuple) and x and isinstance(x[0], str) else ('[' + ', '.join(show(y) for y in x) + ']' if isinstance(x, tuple) else str(x)) for x in t[1:]))
