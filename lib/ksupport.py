"""Shared logic of the Kani-based checks: run the harnesses of the tier, map CBMC results to obligations, confirm failures natively."""
import re

import kani
from common import log

UNWIND = 'unwinding assertion'


def decide(run, pid, specs, sweeps, timeout_quick=1200, timeout_thorough=2400, functions=None):
    """specs: [(harness, title, tier, sweep names)]; sweeps: {name: callable -> (n, bad)}."""
    todo = [s for s in specs if s[2] == 'quick' or run.tier == 'thorough']
    native = {}
    for name, fn in sweeps.items():
        try:
            n, bad = fn()
            native[name] = (n, bad)
            run.validated += n
        except Exception as e:
            native[name] = (0, [{'what': 'native sweep failed: %s' % e, 'sweep_error': True}])
    run.extra['native_sweeps'] = {k: {'cases': v[0], 'discrepancies': len(v[1])} for k, v in native.items()}
    res = kani.run_many(pid, [s[0] for s in todo], timeout_quick if run.tier == 'quick' else timeout_thorough)
    explained = set()
    for (h, title, tier, sw) in todo:
        r = res[h]
        run.states += 1
        run.transitions += r.nchecks
        base = dict(solver_s=r.solver_s, queries=max(1, r.nchecks), bound=title)
        samp = {'harness': h, 'status': r.status, 'cbmc_checks': r.nchecks, 'sat_vars': r.vars, 'sat_clauses': r.clauses, 'wall_s': round(r.wall, 1), 'covers': r.covers}
        run.sample(samp)
        run.extra.setdefault('harnesses', []).append(samp)
        if r.status == 'success':
            badcov = {k: v for k, v in r.covers.items() if v != 'SATISFIED'}
            if badcov:
                run.inconclusive('%s [%s]' % (title, h), 'K', 'vacuity witness not reached: %s' % badcov, **base)
            else:
                run.holds('%s [%s]' % (title, h), 'K', **base)
        elif r.status == 'failed':
            real = [(d, loc) for (d, loc) in r.failed_checks if UNWIND not in d]
            if not real:
                run.inconclusive('%s [%s]' % (title, h), 'K', 'unwinding bound too small: %s' % r.failed_checks[:2], **base)
                continue
            nat = []
            for s in sw:
                nat += [b for b in native.get(s, (0, []))[1] if not b.get('sweep_error')]
                explained.add(s)
            seen = set()
            for (d, loc) in real:
                d = d.strip('"')
                if 'placeholder message' in d or d.startswith('index out of bounds') or d.startswith('attempt to') or 'unreachable' in d or d.startswith('slice') or 'panic' in d.lower():
                    role = 'panic:' + re.sub(r'^.* in function ', '', loc)
                else:
                    role = d
                if role in seen:
                    continue
                seen.add(role)
                run.violated('%s [%s]' % (title, h), 'K', role, {'failed_check': d, 'location': loc, 'native': nat[:3], 'harness': h}, bool(nat),
                             detail='CBMC counterexample for assertion: %s' % d, **base)
        else:
            run.inconclusive('%s [%s]' % (title, h), 'K', '%s after %.0fs' % (r.status, r.wall), **base)
    for s, (n, bad) in native.items():
        bad2 = [b for b in bad]
        if bad2 and s not in explained:
            run.inconclusive('native sweep %s' % s, 'replay', 'the native sweep finds %d discrepancies that no solver verdict of this run explains, e.g. %s' % (len(bad2), str(bad2[0])[:300]))
    return res
