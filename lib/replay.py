"""Native replay: builds /verif/replay against /repo's current tree and runs scenarios through the public API."""
import json
import os
import shutil
import tempfile

from common import CACHE, REPO, VERIF, sh, log

_built = {}


def build(release=False):
    key = 'release' if release else 'debug'
    if key in _built:
        return _built[key]
    crate = os.path.join(VERIF, 'replay')
    lock = os.path.join(crate, 'Cargo.lock')
    if not os.path.exists(lock):
        shutil.copy(os.path.join(REPO, 'Cargo.lock'), lock)
    cmd = 'cargo build --offline' + (' --release' if release else '')
    rc, so, se = sh(cmd, cwd=crate, env={'CARGO_TARGET_DIR': os.path.join(CACHE, 'target-replay')}, check=False)
    if rc != 0:
        raise RuntimeError('replay build failed:\n' + se[-3000:])
    p = os.path.join(CACHE, 'target-replay', key, 'vreplay')
    _built[key] = p
    return p


def run(args, release=False, timeout=120):
    exe = build(release)
    rc, so, se = sh([exe] + [str(a) for a in args], check=False, timeout=timeout)
    if rc != 0:
        return {'crash': rc, 'stderr': se[-2000:]}
    try:
        return json.loads(so)
    except ValueError:
        return {'crash': 'bad json', 'stdout': so[-2000:]}


class Project:
    """Temporary directory of .aidl files (under /verif/.cache/tmp), removed on exit."""

    def __init__(self, files):
        self.files = files

    def __enter__(self):
        os.makedirs(os.path.join(CACHE, 'tmp'), exist_ok=True)
        self.dir = tempfile.mkdtemp(dir=os.path.join(CACHE, 'tmp'))
        for name, content in self.files.items():
            with open(os.path.join(self.dir, name), 'w', encoding='utf-8', newline='') as f:
                f.write(content)
        return self.dir

    def __exit__(self, *a):
        shutil.rmtree(self.dir, ignore_errors=True)


def project(files, release=False):
    with Project(files) as d:
        return run(['project', d], release)


def roundtrip(files, release=False):
    with Project(files) as d:
        return run(['roundtrip', d], release)


def determinism(files, n=24, release=False):
    with Project(files) as d:
        return run(['determinism', d, n], release)


def javadoc(text, release=False):
    with Project({'x.aidl': text}) as d:
        return run(['javadoc', os.path.join(d, 'x.aidl')], release)


def lookup(files, fid, line, col, release=False):
    with Project(files) as d:
        return run(['lookup', d, fid, line, col], release)


def generated_parser():
    """Path of OUT_DIR/aidl.rs (lalrpop output for the current src/aidl.lalrpop), from a build of the replay crate."""
    crate = os.path.join(VERIF, 'replay')
    rc, so, se = sh('cargo build --offline --message-format=json', cwd=crate, env={'CARGO_TARGET_DIR': os.path.join(CACHE, 'target-replay')}, check=False)
    if rc != 0:
        raise RuntimeError('build failed:\n' + se[-3000:])
    out = None
    for line in so.splitlines():
        try:
            m = json.loads(line)
        except ValueError:
            continue
        if m.get('reason') == 'build-script-executed' and 'aidl-parser' in m.get('package_id', ''):
            out = m.get('out_dir')
    if not out or not os.path.exists(os.path.join(out, 'aidl.rs')):
        raise RuntimeError('cannot locate OUT_DIR/aidl.rs')
    _built['debug'] = os.path.join(CACHE, 'target-replay', 'debug', 'vreplay')
    return os.path.join(out, 'aidl.rs')


def history(contents, script_lines, extra_files=None, release=False, timeout=600):
    """contents: {name: text} written into a temp dir; script lines use {name} placeholders for those files."""
    files = dict(contents)
    with Project(files) as d:
        for name, data in (extra_files or {}).items():
            with open(os.path.join(d, name), 'wb') as f:
                f.write(data)
        sp = os.path.join(d, 'script.txt')
        with open(sp, 'w') as f:
            for l in script_lines:
                f.write(l.replace('{dir}', d) + '\n')
        return run(['history', sp], release, timeout=timeout)
