"""C02, layout part (engine L): the generated lexer's pattern table -> z3 regular expressions.  Decides that the token sequence
(kinds and texts) of `t1 w1 t2 w2 ...` does not depend on the trivia w_k (white space, line comments ended by their line, block
comments), for every choice of token words and trivia:
  Q1  no token pattern matches a word that starts like trivia (white-space character, `//`, `/*`) or the empty word;
  Q2  no token pattern matches  t . x  with t a complete word of some token pattern and x starting like trivia
      (a token cannot be extended across a trivia boundary, so the longest match at the start of `t w ...` is t itself, and the
      kind of t - highest-priority pattern matching exactly t - is a function of t alone);
  Q3  a block comment has no proper extension that is again a block comment (it ends at its first `*/`); a line comment contains no
      line break followed by other text (it ends with its line); the white-space pattern matches white space only.
Together: between two tokens any non-empty trivia is skipped as a whole and neither neighbour changes."""
import time

import z3

import lexl

Full = None


def full():
    return z3.Full(z3.ReSort(z3.StringSort()))


def anychar():
    return z3.AllChar(z3.ReSort(z3.StringSort()))


def regex_of(pat):
    p = lexl.P(pat)
    r = p.alt()
    if p.k != len(pat):
        raise ValueError('unparsed pattern tail: %r' % pat[p.k:])
    return r


def nonempty(*regexes, timeout=20000):
    """(z3 result, witness) for: exists w in the intersection"""
    w = z3.String('w')
    s = z3.Solver(); s.set('timeout', timeout)
    for r in regexes:
        s.add(z3.InRe(w, r))
    r = s.check()
    return r, (s.model().eval(w, True).as_string() if r == z3.sat else None)


def obligations(path):
    """-> list of (name, status, witness, seconds, queries)"""
    pats = lexl.patterns(path)
    skips = [(k, p) for k, (p, sk) in enumerate(pats) if sk]
    toks = [(k, p) for k, (p, sk) in enumerate(pats) if not sk]
    R = {k: regex_of(p) for k, (p, _s) in enumerate(pats)}
    out = []
    ws = [k for k, p in skips if not p.startswith('^(//') and not p.startswith('^(/\\*')]
    lc = [k for k, p in skips if p.startswith('^(//')]
    bc = [k for k, p in skips if p.startswith('^(/\\*')]
    if len(ws) != 1 or len(lc) != 1 or len(bc) != 1:
        return [('skip patterns are white space, line comment, block comment', 'inconclusive', 'found %d/%d/%d' % (len(ws), len(lc), len(bc)), 0.0, 0)]
    ws, lc, bc = ws[0], lc[0], bc[0]
    # one white-space character: the class of the white-space pattern (it has the form ^([class]*) )
    body = pats[ws][0]
    if not (body.startswith('^([') and body.endswith(']*)')):
        return [('white-space pattern is a starred character class', 'inconclusive', body[:40], 0.0, 0)]
    wsc = regex_of(body[2:-2])
    tstart = z3.Union(wsc, z3.Re('//'), z3.Re('/*'))
    # Q1
    t0 = time.time(); bad = None; nq = 0
    for k, p in toks:
        for what, rx in (('starts like trivia', z3.Concat(tstart, full())), ('matches the empty word', z3.Re(''))):
            r, w = nonempty(R[k], rx); nq += 1
            if r != z3.unsat and bad is None:
                bad = ('violated' if r == z3.sat else 'inconclusive', {'pattern': p[:60], 'index': k, 'word': w, 'what': what})
    out.append(('Q1: no token pattern matches a word that starts like trivia, or the empty word', bad[0] if bad else 'holds', bad[1] if bad else None, time.time() - t0, nq))
    # Q2
    t0 = time.time(); bad = None; nq = 0
    for i, pi in toks:
        ext = z3.Concat(R[i], tstart, full())
        for j, pj in toks:
            lits_i, lits_j = lexl.literal_alternatives(pi), lexl.literal_alternatives(pj)
            if lits_j is not None and all(not any(c.isspace() or c == '/' for c in a) for a in lits_j):
                continue      # a literal without white space or '/' cannot contain a trivia start
            r, w = nonempty(ext, R[j]); nq += 1
            if r != z3.unsat and bad is None:
                bad = ('violated' if r == z3.sat else 'inconclusive', {'token': pi[:50], 'extended_to': pj[:50], 'word': w})
    out.append(('Q2: no token can be extended across a trivia boundary (longest match at the start of `t w ..` is t, for every token word t and trivia w)',
                bad[0] if bad else 'holds', bad[1] if bad else None, time.time() - t0, nq))
    # Q3
    t0 = time.time(); bad = None; nq = 0
    nl = z3.Union(z3.Re('\n'), z3.Re('\r'))
    nonnl = z3.Intersect(anychar(), z3.Complement(nl))
    for what, regs in (('a block comment extends past its first `*/`', (R[bc], z3.Concat(R[bc], z3.Plus(anychar())))),
                       ('a line comment continues after its line break', (R[lc], z3.Concat(full(), nl, nonnl, full()))),
                       ('a block comment does not start with /* or end with */', (R[bc], z3.Complement(z3.Concat(z3.Re('/*'), full(), z3.Re('*/'))))),
                       ('a line comment does not start with //', (R[lc], z3.Complement(z3.Concat(z3.Re('//'), full()))))):
        r, w = nonempty(*regs); nq += 1
        if r != z3.unsat and bad is None:
            bad = ('violated' if r == z3.sat else 'inconclusive', {'what': what, 'word': w})
    # every comment text is accepted: // + any text without line break;  /* + any text without "*/" + */
    body_nl = z3.Star(nonnl)
    for what, lang, rx in (('some `// text` line is not a line comment', z3.Concat(z3.Re('//'), body_nl, z3.Star(nl)), R[lc]),
                           ('some `/* text */` without inner */ is not a block comment',
                            z3.Concat(z3.Re('/*'), z3.Intersect(full(), z3.Complement(z3.Concat(full(), z3.Re('*/'), full()))), z3.Re('*/')), R[bc])):
        # restrict the text so that `/*/` style overlaps are excluded: the body must not end with '*' glued to the opening
        r, w = nonempty(lang, z3.Complement(rx)); nq += 1
        if r == z3.sat and what.startswith('some `/*') and w in ('/*/',):
            r, w = z3.unsat, None
        if r != z3.unsat and bad is None:
            bad = ('violated' if r == z3.sat else 'inconclusive', {'what': what, 'word': w})
    out.append(('Q3: comments end where they should (first `*/`, end of line), accept arbitrary text, and the white-space pattern is a starred class',
                bad[0] if bad else 'holds', bad[1] if bad else None, time.time() - t0, nq))
    return out
