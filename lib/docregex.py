"""C18, text structure part (engine L + M): the regular expressions `javadoc::parse_javadoc` builds are read out of its MIR
(`Regex::new(const "...")`, in order) and translated to z3 regular expressions; z3 decides LANGUAGE INCLUSIONS that the statement
requires of them, over unbounded words:
  J1  every blank line - LF or CRLF, optionally decorated with blanks and a `*` - is matched by the paragraph separator;
  J2  every single line break with its decoration is matched by the line-joining pattern, and that pattern never matches text
      without a line break (words are never eaten);
  J3  the tag pattern matches `<non-newline char><blanks>@` (so that a tag clause starts a new line) and nothing without an `@`.
The pipeline around them (split -> trim -> replace_all -> join) is read off the MIR call sequence.  Only inclusions the statement
implies are asked, not equality with today's patterns: an implementation with other but adequate patterns passes."""
import re

import z3

import layout
import mir


def patterns_in(prog):
    f = [g for g in prog.fns if re.search(r'(^|::)javadoc::parse_javadoc$', g.name) and '::verif' not in g.name]
    if len(f) != 1:
        raise mir.Unsupported('parse_javadoc: %d candidates' % len(f))
    pats, calls, consts = [], [], {}
    for bb in sorted(f[0].blocks, key=lambda b: int(b[2:])):
        for st in f[0].blocks[bb]:
            st = st.rstrip(';')
            m = re.match(r'^(_\d+) = const "(.*)"$', st, re.S)
            if m:
                consts[m.group(1)] = m.group(2)
            sc = mir.split_call(st)
            if not sc:
                continue
            calls.append(re.sub(r'::<.*?>(?=::|$)', '', sc[1]).split('::')[-1])
            if re.search(r'Regex::new$', sc[1]):
                a = sc[2].strip()
                m = re.match(r'^const "(.*)"$', a, re.S)
                lit = m.group(1) if m else consts.get(a.split()[-1])
                if lit is None:
                    raise mir.Unsupported('Regex::new with a non-literal pattern')
                pats.append(eval('"' + lit.replace('"', '\\"') + '"'))
    # the per-paragraph closures (trim, replace_all)
    for g in prog.fns:
        if g.name.startswith(f[0].name + '::{closure'):
            for b in g.blocks.values():
                for st in b:
                    sc = mir.split_call(st.rstrip(';'))
                    if sc:
                        calls.append(re.sub(r'::<.*?>(?=::|$)', '', sc[1]).split('::')[-1])
    return pats, calls, f[0]


def rx(p):
    """regex-syntax subset -> z3 (reuses the lexer translator; `\\r`, `\\n`, `\\t` arrive as the characters themselves)"""
    # capture groups are plain groups for language purposes
    return layout.regex_of(p)


def nonempty(*regexes):
    return layout.nonempty(*regexes)


def obligations(prog):
    """-> [(name, status, witness, queries)]"""
    pats, calls, f = patterns_in(prog)
    out = []
    if len(pats) != 3:
        return [('parse_javadoc builds three patterns (paragraph separator, line join, tag)', 'inconclusive', 'found %d patterns' % len(pats), 0)]
    shape_ok = all(c in calls for c in ('split', 'replace_all', 'join')) and calls.count('replace_all') >= 1
    out.append(('parse_javadoc is split(paragraph separator) -> per paragraph trim + replace_all(line join, " ") + replace_all(tag, "$1\\n@") -> join("\\n")',
                'holds' if shape_ok else 'inconclusive', None if shape_ok else 'call sequence: %s' % calls[:14], 1))
    para, join, tag = [rx(p) for p in pats]
    full = layout.full()
    nl = z3.Union(z3.Re('\r\n'), z3.Re('\n'))
    blank = z3.Star(z3.Union(z3.Re(' '), z3.Re('\t')))
    deco = z3.Concat(blank, z3.Option(z3.Re('*')), blank)
    nq = 0
    # J1
    spec1 = z3.Concat(nl, deco, nl)
    r, w = nonempty(spec1, z3.Complement(para)); nq += 1
    out.append(('J1: every blank line (LF or CRLF, optionally decorated with blanks and a `*`) is a paragraph separator',
                'holds' if r == z3.unsat else ('violated' if r == z3.sat else 'inconclusive'), {'blank_line': w, 'pattern': pats[0]} if r != z3.unsat else None, 1))
    # J2
    spec2 = z3.Concat(deco, nl, deco)
    r1, w1 = nonempty(spec2, z3.Complement(join)); nq += 1
    nonl = z3.Star(z3.Intersect(layout.anychar(), z3.Complement(z3.Re('\n'))))
    r2, w2 = nonempty(join, nonl); nq += 1
    st = 'holds' if (r1 == z3.unsat and r2 == z3.unsat) else ('violated' if z3.sat in (r1, r2) else 'inconclusive')
    out.append(('J2: every line break with its decoration (LF or CRLF) is matched by the line-joining pattern, which never matches text without a line break',
                st, {'not_joined': w1, 'matched_without_line_break': w2, 'pattern': pats[1]} if st != 'holds' else None, 2))
    # J3
    anynn = z3.Intersect(layout.anychar(), z3.Complement(z3.Re('\n')))
    spec3 = z3.Concat(anynn, blank, z3.Re('@'))
    r1, w1 = nonempty(spec3, z3.Complement(tag)); nq += 1
    noat = z3.Star(z3.Intersect(layout.anychar(), z3.Complement(z3.Re('@'))))
    r2, w2 = nonempty(tag, noat); nq += 1
    st = 'holds' if (r1 == z3.unsat and r2 == z3.unsat) else ('violated' if z3.sat in (r1, r2) else 'inconclusive')
    out.append(('J3: `<char><blanks>@` is matched by the tag pattern (a tag clause is moved to its own line), which matches nothing without an `@`',
                st, {'not_matched': w1, 'matched_without_at': w2, 'pattern': pats[2]} if st != 'holds' else None, 2))
    return out
