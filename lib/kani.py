"""Engine K driver: runs `cargo kani` on the harness crate /verif/kani (path dependency on /repo, hooks enabled), one
process per harness, several in parallel, each under a time and memory cap; parses the per-check results."""
import concurrent.futures as cf
import os
import re
import shutil
import subprocess
import time

from common import CACHE, REPO, VERIF, NCPU, log, sh

CRATE = os.path.join(VERIF, 'kani')
MEM_KB = 10 * 1024 * 1024


def prepare():
    """Lock file of the harness crate = /repo's lock with proc-macro2 bumped (Kani's nightly cannot build 1.0.52)."""
    import mir
    lock = mir.bumped_lock()
    dst = os.path.join(CRATE, 'Cargo.lock')
    # keep the crate's own lock if it already resolves; otherwise start from the bumped one
    if not os.path.exists(dst):
        shutil.copy(lock, dst)


class Result:
    def __init__(self, harness):
        self.harness = harness
        self.status = 'unknown'     # success | failed | timeout | oom | error
        self.failed_checks = []     # [(description, location)]
        self.covers = {}            # description -> SATISFIED | UNSATISFIABLE | UNREACHABLE
        self.nchecks = 0
        self.wall = 0.0
        self.solver_s = 0.0
        self.log = ''
        self.concrete = None        # list of byte vectors from concrete playback
        self.vars = None
        self.clauses = None


def parse(res, text):
    res.log = text[-6000:]
    m = re.search(r'VERIFICATION:- (SUCCESSFUL|FAILED)', text)
    blocks = re.split(r'\nCheck \d+: ', text)
    for b in blocks[1:]:
        name = b.split('\n', 1)[0].strip()
        st = re.search(r'- Status: (\w+)', b)
        desc = re.search(r'- Description: "(.*)"', b)
        loc = re.search(r'- Location: (.*)', b)
        if not st:
            continue
        res.nchecks += 1
        s = st.group(1)
        d = desc.group(1) if desc else name
        if '.cover.' in name or name.startswith('cover'):
            res.covers[d] = s
        elif s == 'FAILURE':
            res.failed_checks.append((d, loc.group(1).strip() if loc else ''))
    mm = re.search(r'Runtime Solver: ([\d.]+)s', text)
    if mm:
        res.solver_s = float(mm.group(1))
    else:
        mm = re.search(r'Runtime decision procedure: ([\d.]+)s', text)
        if mm:
            res.solver_s = float(mm.group(1))
    mm = re.search(r'(\d+) variables, (\d+) clauses', text)
    if mm:
        res.vars, res.clauses = int(mm.group(1)), int(mm.group(2))
    if 'out of memory' in text or 'std::bad_alloc' in text:
        res.status = 'oom'
    elif m and m.group(1) == 'SUCCESSFUL':
        res.status = 'success'
    elif m and m.group(1) == 'FAILED':
        res.status = 'failed' if res.failed_checks else 'error'
    elif 'error' in text.lower():
        res.status = 'error'
    # concrete playback
    cv = re.search(r'let concrete_vals: Vec<Vec<u8>> = vec!\[(.*?)\n\s*\];', text, re.S)
    if cv:
        res.concrete = [[int(x) for x in re.findall(r'\d+', v)] for v in re.findall(r'vec!\[([^\]]*)\]', cv.group(1))]
    return res


def run_one(harness, timeout, target, playback=False, extra=None):
    res = Result(harness)
    os.makedirs(os.path.dirname(target), exist_ok=True)
    args = ['cargo', 'kani', '-Z', 'stubbing', '--harness', harness, '--exact', '--target-dir', target]
    if playback:
        args += ['-Z', 'concrete-playback', '--concrete-playback=print']
    if extra:
        args += extra
    cmd = 'ulimit -v %d; exec timeout -k 10 %d %s' % (MEM_KB, timeout, ' '.join(args))
    env = dict(os.environ)
    env['CARGO_NET_OFFLINE'] = 'true'
    t0 = time.time()
    os.makedirs(os.path.join(CACHE, 'kani-logs'), exist_ok=True)
    logp = os.path.join(CACHE, 'kani-logs', harness.replace('::', '.') + ('.playback' if playback else '') + '.log')
    with open(logp, 'w') as f:
        p = subprocess.run(['bash', '-c', cmd], cwd=CRATE, env=env, stdout=f, stderr=subprocess.STDOUT)
    res.wall = time.time() - t0
    with open(logp, errors='replace') as f:
        out = f.read()
    parse(res, out)
    if p.returncode in (124, 137) and res.status not in ('success', 'failed'):
        res.status = 'timeout'
    return res


def run_many(pid, harnesses, timeout, jobs=None):
    """harnesses: list of names. Builds once (first harness, serially) so the shared target dir is warm, then runs the
    rest in parallel, each in its own copy-on-demand target dir (cargo serialises on a shared one)."""
    prepare()
    jobs = jobs or max(1, min(len(harnesses), NCPU // 2))
    base = os.path.join(CACHE, 'kani-' + pid)
    out = {}

    def work(ix_h):
        ix, h = ix_h
        return run_one(h, timeout, os.path.join(base, 'slot%d' % (ix % jobs)))
    # slots: each worker thread uses its own target dir; the first use of a slot compiles the dependencies
    with cf.ThreadPoolExecutor(max_workers=jobs) as ex:
        # partition harnesses over slots so that one slot is never used by two processes at once
        slots = [[] for _ in range(jobs)]
        for ix, h in enumerate(harnesses):
            slots[ix % jobs].append(h)

        def run_slot(k):
            rs = []
            for h in slots[k]:
                rs.append(run_one(h, timeout, os.path.join(base, 'slot%d' % k)))
                log('[kani] %-40s %-8s %6.1fs checks=%d covers=%s' % (h, rs[-1].status, rs[-1].wall, rs[-1].nchecks,
                                                                      ','.join('%s' % v[:5] for v in rs[-1].covers.values())))
            return rs
        for rs in ex.map(run_slot, range(jobs)):
            for r in rs:
                out[r.harness] = r
    return out


def playback(pid, harness, timeout):
    return run_one(harness, timeout, os.path.join(CACHE, 'kani-' + pid, 'slot0'), playback=True)
