"""Engine K driver: runs `cargo kani` on the harness crate /verif/kani (path dependency on /repo, hooks enabled), one
process per harness, several in parallel, each under a time and memory cap; parses the per-check results."""
import concurrent.futures as cf
import os
import re
import shutil
import subprocess
import time

from common import CACHE, REPO, VERIF, NCPU, log, sh

CRATE = os.path.join(VERIF, 'kani')
MEM_KB = 10 * 1024 * 1024


def prepare():
    """Lock file of the harness crate = /repo's lock with proc-macro2 bumped (Kani's nightly cannot build 1.0.52)."""
    import mir
    lock = mir.bumped_lock()
    dst = os.path.join(CRATE, 'Cargo.lock')
    # keep the crate's own lock if it already resolves; otherwise start from the bumped one
    if not os.path.exists(dst):
        shutil.copy(lock, dst)


class Result:
    def __init__(self, harness):
        self.harness = harness
        self.status = 'unknown'     # success | failed | timeout | oom | error
        self.failed_checks = []     # [(description, location)]
        self.covers = {}            # description -> SATISFIED | UNSATISFIABLE | UNREACHABLE
        self.nchecks = 0
        self.wall = 0.0
        self.solver_s = 0.0
        self.log = ''
        self.concrete = None        # list of byte vectors from concrete playback
        self.vars = None
        self.clauses = None


def parse(res, text):
    res.log = text[-6000:]
    m = re.search(r'VERIFICATION:- (SUCCESSFUL|FAILED)', text)
    blocks = re.split(r'\nCheck \d+: ', text)
    for b in blocks[1:]:
        name = b.split('\n', 1)[0].strip()
        st = re.search(r'- Status: (\w+)', b)
        desc = re.search(r'- Description: "(.*)"', b)
        loc = re.search(r'- Location: (.*)', b)
        if not st:
            continue
        res.nchecks += 1
        s = st.group(1)
        d = desc.group(1) if desc else name
        if '.cover.' in name or name.startswith('cover'):
            res.covers[d] = s
        elif s == 'FAILURE':
            res.failed_checks.append((d, loc.group(1).strip() if loc else ''))
    mm = re.search(r'Runtime Solver: ([\d.]+)s', text)
    if mm:
        res.solver_s = float(mm.group(1))
    else:
        mm = re.search(r'Runtime decision procedure: ([\d.]+)s', text)
        if mm:
            res.solver_s = float(mm.group(1))
    mm = re.search(r'(\d+) variables, (\d+) clauses', text)
    if mm:
        res.vars, res.clauses = int(mm.group(1)), int(mm.group(2))
    if 'out of memory' in text or 'std::bad_alloc' in text:
        res.status = 'oom'
    elif m and m.group(1) == 'SUCCESSFUL':
        res.status = 'success'
    elif m and m.group(1) == 'FAILED':
        res.status = 'failed' if res.failed_checks else 'error'
    elif 'error' in text.lower():
        res.status = 'error'
    # concrete playback
    cv = re.search(r'let concrete_vals: Vec<Vec<u8>> = vec!\[(.*?)\n\s*\];', text, re.S)
    if cv:
        res.concrete = [[int(x) for x in re.findall(r'\d+', v)] for v in re.findall(r'vec!\[([^\]]*)\]', cv.group(1))]
    return res


def run_one(harness, timeout, target, playback=False, extra=None):
    res = Result(harness)
    os.makedirs(os.path.dirname(target), exist_ok=True)
    args = ['cargo', 'kani', '-Z', 'stubbing', '--harness', harness, '--exact', '--target-dir', target]
    if playback:
        args += ['-Z', 'concrete-playback', '--concrete-playback=print']
    if extra:
        args += extra
    cmd = 'ulimit -v %d; exec timeout -k 10 %d %s' % (MEM_KB, timeout, ' '.join(args))
    env = dict(os.environ)
    env['CARGO_NET_OFFLINE'] = 'true'
    t0 = time.time()
    os.makedirs(os.path.join(CACHE, 'kani-logs'), exist_ok=True)
    # one log per (harness, slot, process): concurrent runs of one harness (slot warming, two checks sharing a harness) must not clobber each other
    logp = os.path.join(CACHE, 'kani-logs', '%s.%s.%d%s.log' % (harness.replace('::', '.'), os.path.basename(target), os.getpid(), '.playback' if playback else ''))
    with open(logp, 'w') as f:
        p = subprocess.run(['bash', '-c', cmd], cwd=CRATE, env=env, stdout=f, stderr=subprocess.STDOUT)
    res.wall = time.time() - t0
    with open(logp, errors='replace') as f:
        out = f.read()
    parse(res, out)
    if p.returncode in (124, 137) and res.status not in ('success', 'failed'):
        res.status = 'timeout'
    return res


NSLOTS = 6


def slot_dir(k):
    return os.path.join(CACHE, 'kani-shared', 'slot%d' % k)


def run_many(pid, harnesses, timeout, jobs=None):
    """Runs the harnesses, up to NSLOTS at a time.  Each worker owns one target dir (cargo serialises on a shared one); the
    slots are shared by all checks and guarded by a file lock, so that concurrently running checks queue up instead of clashing.
    setup.sh warms the slots (dependency build) once."""
    import fcntl
    prepare()
    jobs = max(1, min(len(harnesses), jobs or NSLOTS))
    out = {}
    queue = list(harnesses)
    import threading
    qlock = threading.Lock()

    def worker(k):
        os.makedirs(os.path.join(CACHE, 'kani-shared'), exist_ok=True)
        with open(os.path.join(CACHE, 'kani-shared', 'slot%d.lock' % k), 'w') as lf:
            fcntl.flock(lf, fcntl.LOCK_EX)
            while True:
                with qlock:
                    if not queue:
                        break
                    h = queue.pop(0)
                r = run_one(h, timeout, slot_dir(k))
                log('[kani] %-40s %-8s %6.1fs checks=%d covers=%s' % (h, r.status, r.wall, r.nchecks, ','.join('%s' % v[:5] for v in r.covers.values())))
                out[h] = r
            fcntl.flock(lf, fcntl.LOCK_UN)
    with cf.ThreadPoolExecutor(max_workers=jobs) as ex:
        list(ex.map(worker, range(jobs)))
    return out


def warm():
    """Builds the dependencies in every slot by running the cheapest harness there."""
    prepare()
    with cf.ThreadPoolExecutor(max_workers=NSLOTS) as ex:
        rs = list(ex.map(lambda k: run_one('c01::c04_range_new_passes_offsets', 900, slot_dir(k)), range(NSLOTS)))
    for k, r in enumerate(rs):
        log('[kani] warm slot %d: %s %.0fs' % (k, r.status, r.wall))
    # anything that did not come back clean is retried on its own (a slot is only a build cache: checks build what is missing anyway)
    for k, r in enumerate(rs):
        for attempt in range(2):
            if rs[k].status == 'success':
                break
            rs[k] = run_one('c01::c04_range_new_passes_offsets', 900, slot_dir(k))
            log('[kani] warm slot %d (retry %d): %s %.0fs' % (k, attempt + 1, rs[k].status, rs[k].wall))
    return all(r.status == 'success' for r in rs)


def playback(pid, harness, timeout):
    return run_one(harness, timeout, slot_dir(0), playback=True)


if __name__ == '__main__':
    import sys
    if '--warm' in sys.argv:
        sys.exit(0 if warm() else 1)
