"""Native sweeps through the public API (Parser::add_content + validate) with reference oracles written from the property
statements.  They serve two purposes: (1) confirm a solver counterexample end-to-end before it is reported (a Kani
counterexample lives at kernel level), (2) translation validation of the harness categories against what source text produces."""
import json
import replay

CATS = ['primitive', 'void', 'array', 'map', 'list', 'string', 'charsequence', 'ibinder', 'fd', 'pfd', 'holder', 'interface', 'parcelable', 'enum', 'fwd', 'unknown_import', 'unresolved']
TYPE_TEXT = {'primitive': 'int', 'void': 'void', 'array': 'int[]', 'map': 'Map<String,String>', 'list': 'List<String>', 'string': 'String', 'charsequence': 'CharSequence',
             'ibinder': 'IBinder', 'fd': 'FileDescriptor', 'pfd': 'ParcelFileDescriptor', 'holder': 'ParcelableHolder', 'interface': 'Ifc', 'parcelable': 'Par', 'enum': 'En',
             'fwd': 'Fwd', 'unknown_import': 'Unk', 'unresolved': 'Nope'}
SUPPORT = {
    'ifc.aidl': 'package p;\ninterface Ifc { }\n',
    'par.aidl': 'package p;\nparcelable Par { int a; }\n',
    'en.aidl': 'package p;\nenum En { A }\n',
}
HEADER = 'package p;\nimport p.Ifc;\nimport p.Par;\nimport p.En;\nimport q.Unk;\nparcelable Fwd;\n'
DIRS = ['', 'in', 'out', 'inout']


def expected_kind(cat):
    return {'primitive': 'primitive', 'void': 'void', 'array': 'array', 'map': 'map', 'list': 'list', 'string': 'string', 'charsequence': 'char_sequence',
            'ibinder': 'android:IBinder', 'fd': 'android:FileDescriptor', 'pfd': 'android:ParcelFileDescriptor', 'holder': 'android:ParcelableHolder',
            'interface': 'resolved:p.Ifc:Interface', 'parcelable': 'resolved:p.Par:Parcelable', 'enum': 'resolved:p.En:Enum', 'fwd': 'resolved:Fwd:ForwardDeclaredParcelable',
            'unknown_import': 'resolved:q.Unk:UnknownImport', 'unresolved': 'unresolved'}[cat]


def type_rule_errors(cat, d):
    if cat in ('array', 'list', 'map', 'parcelable', 'fwd'):
        return int(d == '')
    if cat in ('primitive', 'string', 'charsequence', 'interface', 'enum', 'ibinder', 'fd', 'unknown_import'):
        return int(d in ('out', 'inout'))
    if cat == 'pfd':
        return int(d in ('', 'out'))
    if cat == 'holder':
        return 1
    if cat == 'unresolved':
        return 0
    return None      # void: the statement is silent


def run_project(main_text, extra=None):
    files = dict(SUPPORT)
    files['main.aidl'] = main_text
    if extra:
        files.update(extra)
    r = replay.project(files)
    if r.get('panic') or 'crash' in r:
        raise RuntimeError('native run failed: %s' % str(r)[:300])
    return r['files']['main.aidl']


def in_range(d, rg):
    return d['range'][0] == rg[0] and d['range'][1] == rg[1]


def sweep_c07():
    """cat x direction x method oneway x interface oneway x position: returns (cases, discrepancies)."""
    bad, n = [], 0
    for iow in (False, True):
        lines, cases = [], []
        k = 0
        for cat in CATS:
            for d in DIRS:
                for mow in (False, True):
                    for pos in (0, 1, 2):
                        if pos == 2 and mow:
                            continue
                        k += 1
                        # position 2: the argument carries an annotation between the (possibly absent) direction and its type
                        a = ('%s %s%s a' % (d, '@nullable ' if pos == 2 else '', TYPE_TEXT[cat])).strip()
                        if pos == 2:
                            lines.append('  void m%d(%s);' % (k, a))
                            cases.append((cat, d, mow, 0, 'm%d' % k))
                            continue
                        args = a if pos == 0 else 'in int z, ' + a
                        lines.append('  %svoid m%d(%s);' % ('oneway ' if mow else '', k, args))
                        cases.append((cat, d, mow, pos, 'm%d' % k))
        text = HEADER + ('oneway ' if iow else '') + 'interface I {\n' + '\n'.join(lines) + '\n}\n'
        fr = run_project(text)
        members = {m['name']: m for m in fr['valid']['ast']['members']}
        diags = fr['valid']['diags']
        for (cat, d, mow, pos, name) in cases:
            n += 1
            m = members[name]
            arg = m['args'][pos]
            kind = arg['type']['kind']
            if kind != expected_kind(cat):
                bad.append({'case': [cat, d, mow, pos, iow], 'what': 'category %s resolved to %s' % (cat, kind)})
                continue
            rg = arg['direction_range'][:2] if d else [arg['type']['sym'][0], arg['type']['sym'][0]]
            here = [x for x in diags if in_range(x, rg) and x['kind'] == 'Error' and ('direction' in x['message'].lower() or 'Invalid argument' in x['message'])]
            oneway = iow or mow
            tr = type_rule_errors(cat, d)
            if tr is None:
                if oneway and d in ('out', 'inout') and len(here) < 1:
                    bad.append({'case': [cat, d, mow, pos, iow], 'what': 'oneway rule not applied'})
                continue
            want = tr + int(oneway and d in ('out', 'inout'))
            if len(here) != want:
                bad.append({'case': [cat, d, mow, pos, iow], 'what': 'expected %d direction Errors on %s, got %d' % (want, rg, len(here)), 'text': '%s %s' % (d, TYPE_TEXT[cat])})
    return n, bad


def array_ok(c):
    return c in ('primitive', 'string', 'enum', 'parcelable', 'fwd', 'unknown_import', 'ibinder', 'fd', 'pfd', 'unresolved')


def list_ok(c):
    return c in ('string', 'parcelable', 'fwd', 'unknown_import', 'ibinder', 'pfd', 'unresolved')


def map_key_ok(c):
    return None if c == 'unresolved' else c == 'string'


def map_value_ok(c):
    return c not in ('primitive', 'void', 'enum')


def ref_container_errors(t, out):
    """t = type json from the replay; appends (range, reason) for every Error the element rules demand, at any depth; warnings for raw containers."""
    k = t['kind']
    g = t['generic']

    def cat_of(x):
        kk = x['kind']
        inv = {expected_kind(c): c for c in CATS}
        return inv.get(kk, 'unresolved')
    if k == 'array':
        c = cat_of(g[0])
        if not array_ok(c):
            out.append((tuple(g[0]['sym'][:2]), 'Error'))
    elif k == 'list':
        if not g:
            out.append((tuple(t['sym'][:2]), 'Warning'))
        elif not list_ok(cat_of(g[0])):
            out.append((tuple(g[0]['sym'][:2]), 'Error'))
    elif k == 'map':
        if not g:
            out.append((tuple(t['sym'][:2]), 'Warning'))
        else:
            ko = map_key_ok(cat_of(g[0]))
            if ko is False:
                out.append((tuple(g[0]['sym'][:2]), 'Error'))
            elif ko is None:
                out.append((tuple(g[0]['sym'][:2]), 'Open'))
            if not map_value_ok(cat_of(g[1])):
                out.append((tuple(g[1]['sym'][:2]), 'Error'))
    for x in g:
        ref_container_errors(x, out)


CONTAINER_MSG = ('array element', 'list element', 'map key', 'map value', 'multi-dimensional', 'non-generic')


def all_types(members):
    out = []
    for m in members:
        if m['tag'] == 'method':
            out.append(m['ret'])
            out += [a['type'] for a in m['args']]
        elif m['tag'] in ('const', 'field'):
            out.append(m['type'])
    return out


def sweep_c08():
    """every leaf category in every container kind, in every syntactic position, plus nesting to depth 3."""
    elems = [TYPE_TEXT[c] for c in CATS if c != 'void'] + ['void']
    shapes = []
    for e in elems:
        shapes += ['%s[]' % e, 'List<%s>' % e, 'Map<String,%s>' % e, 'Map<%s,String>' % e]
    shapes += ['List', 'Map', 'List<List<int[]>>', 'Map<String,List<int>>', 'List<Map<String,int>>', 'Map<String,Map<int,String>>', 'List<List<List<int>>>', 'Map<String,List<En[]>>',
               'List<Map<int,List<int>>>', 'List<CharSequence[]>', 'Map<String,Ifc[]>', 'List<Par>[]', 'Map<String,Map<String,Map<String,int>>>',
               'List[]', 'Map[]', 'List<List>', 'List<Map>', 'Map<List,String>', 'Map<Map,String>', 'Map<String,List<Map>>',
               'Map<String,List<int>>[]', 'List<List<int>>[]', 'Map<int,String>[][]', 'Map<String,List>[]', 'List<Map<String,List<int>>[]>', 'Map<String,Map>[]', 'List<List<Map<int,int>>>[]']
    n, bad = 0, []
    for posn in ('ret', 'arg', 'const', 'field', 'pconst'):
        lines = []
        for k, s in enumerate(shapes):
            if posn == 'ret':
                lines.append('  %s m%d();' % (s, k))
            elif posn == 'arg':
                lines.append('  void m%d(in %s a);' % (k, s))
            elif posn in ('const', 'pconst'):
                lines.append('  const %s C%d = 1;' % (s, k))
            else:
                lines.append('  %s f%d;' % (s, k))
        item = 'parcelable P' if posn in ('field', 'pconst') else 'interface I'
        text = HEADER + item + ' {\n' + '\n'.join(lines) + '\n}\n'
        fr = run_project(text)
        if fr['valid']['ast'] is None:
            bad.append({'what': 'document did not parse', 'position': posn, 'diags': fr['parse']['diags'][:2]})
            continue
        diags = [d for d in fr['valid']['diags'] if any(x in d['message'] for x in CONTAINER_MSG)]
        want = []
        for t in all_types(fr['valid']['ast']['members']):
            ref_container_errors(t, want)
        n += len(shapes)
        got = sorted((tuple(d['range'][:2]), d['kind']) for d in diags)
        opens = {w[0] for w in want if w[1] == 'Open'}
        wl = sorted(w for w in want if w[1] != 'Open')
        gl = [g for g in got if not (g[0] in opens)]
        if gl != wl:
            miss = [w for w in wl if w not in gl]
            extra = [g for g in gl if g not in wl]
            src = fr['parse']
            bad.append({'position': posn, 'missing': [{'range': m[0], 'kind': m[1], 'text': text[m[0][0] - 20:m[0][1] + 10]} for m in miss[:4]],
                        'unexpected': [{'range': e[0], 'kind': e[1], 'text': text[e[0][0] - 20:e[0][1] + 10]} for e in extra[:4]]})
    return n, bad


def sweep_c10():
    n, bad = 0, []
    for iow in (False, True):
        lines, cases = [], []
        k = 0
        for cat in CATS:
            for mow in (False, True):
                k += 1
                lines.append('  %s%s m%d();' % ('oneway ' if mow else '', TYPE_TEXT[cat], k))
                cases.append((cat, mow, 'm%d' % k))
                if k % 5 == 0:
                    lines.append('  const int K%d = 1;' % k)
        text = HEADER + ('oneway ' if iow else '') + 'interface I {\n' + '\n'.join(lines) + '\n}\n'
        fr = run_project(text)
        a = fr['valid']['ast']
        members = {m['name']: m for m in a['members']}
        diags = fr['valid']['diags']
        for (cat, mow, name) in cases:
            n += 1
            m = members[name]
            ow = iow or mow
            if m['oneway'] != ow:
                bad.append({'case': [cat, mow, iow], 'what': 'method oneway flag is %s, expected %s' % (m['oneway'], ow)})
            red = [d for d in diags if d['kind'] == 'Warning' and in_range(d, m['oneway_range']) and 'oneway' in d['message']]
            if len(red) != int(iow and mow):
                bad.append({'case': [cat, mow, iow], 'what': 'expected %d redundancy Warnings on the keyword, got %d' % (int(iow and mow), len(red))})
            elif red and not (red[0]['related'] and red[0]['related'][0][:2] == a['item']['sym'][:2]):
                bad.append({'case': [cat, mow, iow], 'what': 'related info does not point at the interface name'})
            ret = [d for d in diags if d['kind'] == 'Error' and in_range(d, m['ret']['sym']) and 'return type' in d['message']]
            want = int(ow and cat != 'void')
            if len(ret) != want:
                bad.append({'case': [cat, mow, iow], 'what': 'expected %d return-type Errors, got %d' % (want, len(ret))})
    # methods that repeat an earlier name (or carry codes) are still subject to the oneway rules
    for iow in (False, True):
        text = HEADER + ('oneway ' if iow else '') + 'interface I {\n  void send(int a);\n  %sint send(int a, int b);\n  void other() = 1;\n  %sString other(out int[] x) = 1;\n}\n' % (
            '' if iow else 'oneway ', '' if iow else 'oneway ')
        fr = run_project(text)
        ms = fr['valid']['ast']['members']
        diags = fr['valid']['diags']
        for m in ms:
            n += 1
            if m['ret']['kind'] != 'void':
                ret = [d for d in diags if d['kind'] == 'Error' and in_range(d, m['ret']['sym']) and 'return type' in d['message']]
                if len(ret) != 1:
                    bad.append({'case': ['same-name', m['name'], iow], 'what': 'same-name / same-code oneway method `%s` with a non-void return gets %d return-type Errors' % (m['name'], len(ret))})
    return n, bad


# ---------------------------------------------------------------------------------------------------------------------------
# traversal / lookup / resolution on generated documents
# ---------------------------------------------------------------------------------------------------------------------------
NESTED = ['int', 'int[]', 'List<String>', 'Map<String,Foo>', 'List<Foo[]>', 'Map<String,List<Foo>>', 'List<List<Foo>>', 'Map<String,Map<String,Foo[]>>', 'List<Map<String,List<Foo>>>',
          'Foo[]', 'List<Foo>[]', 'Map<Foo,List<Foo>>', 'Map<String,List<Foo>>[]', 'List<List<Foo>>[]', 'Map<Foo,String>[][]']


def type_order(t, out):
    if t['kind'] == 'array':
        for g in t['generic']:
            type_order(g, out)
        out.append(('type', tuple(t['sym'][:2])))
    else:
        out.append(('type', tuple(t['sym'][:2])))
        for g in t['generic']:
            type_order(g, out)


def ref_symbols(a, level):
    out = []
    if level == 'all':
        out.append(('package', tuple(a['package_sym'][:2])))
        out += [('import', tuple(i['sym'][:2])) for i in a['imports']]
    out.append((a['item']['tag'], tuple(a['item']['sym'][:2])))
    if level == 'items':
        return out
    for m in a['members']:
        out.append((m['tag'], tuple(m['sym'][:2])))
        if level != 'all':
            continue
        if m['tag'] == 'method':
            type_order(m['ret'], out)
            for g in m['args']:
                out.append(('arg', tuple(g['sym'][:2])))
                type_order(g['type'], out)
        elif m['tag'] in ('const', 'field'):
            type_order(m['type'], out)
    return out


def traversal_docs():
    docs = {}
    ms = []
    for k, t in enumerate(NESTED):
        ms.append('  %s m%d(in %s a%d, %s);' % (t, k, NESTED[(k + 3) % len(NESTED)], k, NESTED[(k + 5) % len(NESTED)]))
        ms.append('  const %s K%d = 1;' % (t, k))
    docs['iface.aidl'] = 'package tr.\n    av;\nimport p.q.\n  Foo;\nimport p.q.Bar;\ninterface Walk {\n' + '\n'.join(ms) + '\n  p.\n   q.Foo spanning(in p.q.\n Foo z);\n}\n'
    fs = []
    for k, t in enumerate(NESTED):
        fs.append('  %s f%d;' % (t, k))
        fs.append('  const %s C%d = 1;' % (t, k))
    docs['parc.aidl'] = 'package tr.av;\nimport p.q.Foo;\nparcelable Hold {\n' + '\n'.join(fs) + '\n}\n'
    docs['enum.aidl'] = 'package tr.av;\nenum Col { R = 1, G, B }\n'
    return docs


def sweep_c15():
    r = replay.project(traversal_docs())
    n, bad = 0, []
    for fid, fr in sorted(r['files'].items()):
        a = fr['valid']['ast']
        for level, key in (('all', 'symbols_all'), ('items', 'symbols_items'), ('elements', 'symbols_elements')):
            want = ref_symbols(a, level)
            got = [(s['tag'], tuple(s['range'][:2])) for s in a[key]]
            n += len(want)
            if got != want:
                miss = [w for w in want if w not in got]
                bad.append({'file': fid, 'level': level, 'expected_symbols': len(want), 'visited': len(got), 'first_missing': miss[:3],
                            'what': 'visited sequence differs from the source-order pre-order'})
        # walk_types / walk_methods / walk_args
        wt = [w[1] for w in ref_symbols(a, 'all') if w[0] == 'type']
        gt = [tuple(x[:2]) for x in a.get('types_walk', [])]
        n += len(wt)
        if gt != wt:
            bad.append({'file': fid, 'walker': 'walk_types', 'expected': len(wt), 'visited': len(gt), 'first_missing': [w for w in wt if w not in gt][:3], 'what': 'walk_types differs from the source-order type sequence'})
        wm = [m['name'] for m in a['members'] if m['tag'] == 'method']
        if a.get('walkers', {}).get('methods') != wm:
            bad.append({'file': fid, 'walker': 'walk_methods', 'what': 'walk_methods yields %s, expected %s' % (a.get('walkers', {}).get('methods'), wm)})
        wa = [[m['name'], g['sym']] for m in a['members'] if m['tag'] == 'method' for g in m['args']]
        if a.get('walkers', {}).get('args') != wa:
            bad.append({'file': fid, 'walker': 'walk_args', 'what': 'walk_args differs from the (method, argument) pairs in source order'})
    return n, bad


def type_order_k(t, out):
    if t['kind'] == 'array':
        for g in t['generic']:
            type_order_k(g, out)
        out.append(('type', tuple(t['sym'][:6]), t['kind']))
    else:
        out.append(('type', tuple(t['sym'][:6]), t['kind']))
        for g in t['generic']:
            type_order_k(g, out)


def ref_symbols_k(a):
    """reference order at level All with full ranges (offsets + line/col) and, for types, the kind"""
    out = [('package', tuple(a['package_sym'][:6]), None)] + [('import', tuple(i['sym'][:6]), None) for i in a['imports']]
    out.append((a['item']['tag'], tuple(a['item']['sym'][:6]), None))
    for m in a['members']:
        out.append((m['tag'], tuple(m['sym'][:6]), None))
        if m['tag'] == 'method':
            type_order_k(m['ret'], out)
            for g in m['args']:
                out.append(('arg', tuple(g['sym'][:6]), None))
                type_order_k(g['type'], out)
        elif m['tag'] in ('const', 'field'):
            type_order_k(m['type'], out)
    return out


def sweep_c16():
    docs = traversal_docs()
    n, bad = 0, []
    r = replay.project(docs)
    for fid, fr in sorted(r['files'].items()):
        a = fr['valid']['ast']
        refk = ref_symbols_k(a)
        # exactness on array element positions and a few others: the FIRST symbol in reference order containing the position
        probes2 = [(tag, rg, k) for (tag, rg, k) in refk if tag == 'type'][:14] + [x for x in refk if x[0] != 'type'][:6]
        for (tag, rg, k) in probes2:
            for (line, col) in ((rg[2], rg[3]), (rg[4], rg[5])):
                first = next((x for x in refk if (x[1][2], x[1][3]) <= (line, col) <= (x[1][4], x[1][5])), None)
                res = replay.lookup(docs, fid, line, col)
                n += 1
                got = res.get('all')
                if first is None:
                    continue
                if got is None:
                    bad.append({'file': fid, 'position': [line, col], 'what': 'pointing at a %s name finds nothing' % first[0]})
                elif got['tag'] != first[0] or tuple(got['range'][:2]) != first[1][:2] or (first[0] == 'type' and got.get('type_kind') != first[2]):
                    bad.append({'file': fid, 'position': [line, col], 'what': 'lookup returns %s %s %s, the first symbol containing the position is %s %s %s' % (
                        got['tag'], got['range'][:2], got.get('type_kind'), first[0], list(first[1][:2]), first[2])})
        want = ref_symbols(a, 'all')
        syms = a['symbols_all']
        # name ranges as (line, col) from the native symbols where visited; fall back to package range for the package
        byoff = {tuple(s['range'][:2]): s['range'] for s in syms}
        byoff[tuple(a['package_sym'][:2])] = a['package_sym']
        probes = []
        for (tag, off) in want[:60]:
            if off in byoff:
                rg = byoff[off]
                probes.append((tag, off, rg[2], rg[3]))
                probes.append((tag, off, rg[4], rg[5]))
        for (tag, off, line, col) in probes[:40]:
            res = replay.lookup(docs, fid, line, col)
            n += 1
            got = res.get('all')
            if got is None:
                bad.append({'file': fid, 'position': [line, col], 'what': 'pointing at the %s name finds nothing' % tag})
            else:
                rg = got['range']
                inside = (rg[2], rg[3]) <= (line, col) <= (rg[4], rg[5])
                if not inside:
                    bad.append({'file': fid, 'position': [line, col], 'what': 'returned symbol does not contain the position'})
    return n, bad


def sweep_c05():
    """every Foo inside NESTED must be resolved (import p.q.Foo) at any depth, near-misses unresolved with one Error."""
    docs = traversal_docs()
    docs['foo.aidl'] = 'package p.q;\nparcelable Foo { int a; }\n'
    r = replay.project(docs)
    n, bad = 0, []

    def walk(t, fid, diags):
        nonlocal n
        if not t['generic'] and t['name'] == 'Foo':
            n += 1
            if t['kind'] != 'resolved:p.q.Foo:Parcelable':
                errs = [d for d in diags if d['range'][:2] == t['sym'][:2] and 'Unknown type' in d['message']]
                bad.append({'file': fid, 'at': t['sym'][:2], 'what': 'reference to Foo left as %s with %d unknown-type Errors' % (t['kind'], len(errs))})
        for g in t['generic']:
            walk(g, fid, diags)
    for fid in ('iface.aidl', 'parc.aidl'):
        fr = r['files'][fid]['valid']
        for t in all_types(fr['ast']['members']):
            walk(t, fid, fr['diags'])
    # built-ins stay built-ins when imported; near misses
    text = ('package p;\nimport android.os.ParcelFileDescriptor;\nimport p.q.Foo;\ninterface I {\n  void a(in ParcelFileDescriptor x);\n  void b(in android.os.ParcelFileDescriptor x);\n'
            '  void c(in XFoo x);\n  void d(in q.Foo x);\n  void e(in other.q.Foo x);\n  void f(in IBinder x);\n  void g(in Foo x);\n  void h(in Sibling x);\n  void i(in p.Sibling x);\n}\n')
    # a QUALIFIED forward declaration does not put its last segment in scope (`parcelable other.pkg.Qd;` + reference `Qd`)
    # an import whose last identifier merely ENDS with the written name does not match it (`import a.b.XOther;` + reference `Other`)
    text = text.replace('import p.q.Foo;', 'import p.q.Foo;\nimport a.b.XOther;').replace('  void h(', '  void n(in Other x);\n  void o(in XFoo a, in List<XFoo> b);\n  void h(')
    text = text.replace('interface I {', 'parcelable other.pkg.Qd;\nparcelable Ud;\ninterface I {').replace('  void h(', '  void j(in Qd x);\n  void k(in List<Qd> x);\n  void l(in Ud x);\n  void h(')
    # Sibling lives in the same package but is not imported: AIDL has no implicit same-package scope
    r2 = replay.project({'main.aidl': text, 'foo.aidl': 'package p.q;\nparcelable Foo { int a; }\n', 'sib.aidl': 'package p;\nparcelable Sibling { int a; }\n'})
    fr = r2['files']['main.aidl']['valid']
    kinds = {m['name']: m['args'][0]['type']['kind'] for m in fr['ast']['members']}
    want = {'a': 'android:ParcelFileDescriptor', 'b': 'android:ParcelFileDescriptor', 'c': 'unresolved', 'e': 'unresolved', 'f': 'android:IBinder', 'g': 'resolved:p.q.Foo:Parcelable',
            'd': 'resolved:p.q.Foo:Parcelable', 'h': 'unresolved', 'i': 'unresolved', 'j': 'unresolved', 'l': 'resolved:Ud:ForwardDeclaredParcelable', 'n': 'unresolved'}
    for k, v in want.items():
        n += 1
        if kinds.get(k) != v:
            bad.append({'method': k, 'what': 'type classified as %s, expected %s' % (kinds.get(k), v)})
    for k in ('c', 'e', 'h', 'i', 'j', 'n'):
        m = [x for x in fr['ast']['members'] if x['name'] == k][0]
        errs = [d for d in fr['diags'] if d['range'][:2] == m['args'][0]['type']['sym'][:2] and d['kind'] == 'Error' and 'Unknown type' in d['message']]
        if len(errs) != 1:
            bad.append({'method': k, 'what': '%d unknown-type Errors on a near-miss name' % len(errs)})
    # every occurrence of an unknown name is reported, not only the first one in the file
    m = [x for x in fr['ast']['members'] if x['name'] == 'o'][0]
    for sym in (m['args'][0]['type']['sym'], m['args'][1]['type']['generic'][0]['sym']):
        errs = [d for d in fr['diags'] if d['range'][:2] == sym[:2] and d['kind'] == 'Error' and 'Unknown type' in d['message']]
        if len(errs) != 1:
            bad.append({'method': 'o', 'what': '%d unknown-type Errors on a repeated unknown name at %s' % (len(errs), sym[:2])})
    return n, bad


def sweep_javadoc():
    """(text before the construct, expected documentation slice or None)."""
    cases = []
    words = ['a', 'Größe', 'é', '日本', '😀 ok', ' spaced ', 'x\n * y', 'Ünï çødé']
    for w in words:
        for pre in ('', ';\n', '}\n', '/** old */\n', '/** other */ x;\n  '):
            for sep in ('', ' ', '\n  ', '\r\n', ' /* c */ ', ' // c\n'):
                cases.append((pre + '/**' + w + '*/' + sep, w))
    for between in (' ', ' // c\n', '/* c */', '\n// c\n', ' // c\n // d\n'):
        for code in ('x;', 'x,', 'x;\n', 'int x = 1;\n  ', 'x; // tail\n'):
            cases.append(('/** a */' + between + code, None))
    cases += [('/** a */ x;', None), ('/* a */', None), (';', None), ('', None), ('/**é*/', 'é'), ('/**/', None), ('x /** y', None)]
    n, bad = 0, []
    for text, want in cases:
        r = replay.javadoc(text)
        n += 1
        if r.get('panic'):
            bad.append({'text': text, 'what': 'panic: %s' % r['panic'][:80], 'panic': True})
        elif r.get('content') != want:
            bad.append({'text': text, 'what': 'extracted %r, expected %r' % (r.get('content'), want), 'panic': False})
    return n, bad


# ---------------------------------------------------------------------------------------------------------------------------
# C04: layouts.  Templates mark role tokens as «role:lexeme»; § is a gap that is filled with layout variants.
# ---------------------------------------------------------------------------------------------------------------------------
GAPS = [' ', '  ', '\n\t', ' /* c */ ', '   ', '\r\n ', ' /* éè */ ', ' // x\n ']


def render(template, gap):
    """-> (text, {role: (start, end)} in BYTE offsets)."""
    import re as _re
    out, roles, pos = [], {}, 0
    for part in _re.split(r'(«[^»]*»|§)', template):
        if not part:
            continue
        if part == '§':
            s = gap
        elif part.startswith('«'):
            role, lex = part[1:-1].split(':', 1)
            s = lex
            roles[role] = (pos, pos + len(lex.encode('utf-8')))
        else:
            s = part
        out.append(s)
        pos += len(s.encode('utf-8'))
    return ''.join(out), roles


MEMBER_TEMPLATES = {
    # kind: (container, template)   roles: first = first token after annotations, last = last token before ';', semi, n = name, ann = last annotation token
    'method_full': ('interface', '«ann:@A»§«first:oneway»§«lt:List»§<§«lts:String»§«ltend:>»§«n:foo»§(§in§«at:int»§a§)§=§«code:12»«last:»§«semi:;»'),
    'method_plain': ('interface', '«first:void»§«n:foo»§(§«last:)»§«semi:;»'),
    'method_annot': ('interface', '«ann:@A»§«first:void»§«n:foo»§(§«last:)»§«semi:;»'),
    'method_badcode': ('interface', '«first:void»§«n:foo»§(§)§=§«code:99999999999»«last:»§«semi:;»'),
    'const': ('interface', '«ann:@A»§«first:const»§int§«n:KK»§=§«last:1»§«semi:;»'),
    'field': ('parcelable', '«ann:@A»§«first:int»§«n:ff»«last:»§«semi:;»'),
    'field_value': ('parcelable', '«first:String»§«n:ff»§=§«last:"s"»§«semi:;»'),
    'field_map': ('parcelable', '«first:»«mt:Map»§<§«mk:String»§,§«arr:int»§[§«arrlast:]»§«mtend:>»§«n:ff»«last:»§«semi:;»'),
    'field_custom': ('parcelable', '«first:»«ct:a.b.Cc»§«n:ff»«last:»§«semi:;»'),
    # array whose element type is generic / itself an array: the array's name range is its element type as written
    'field_array_generic': ('parcelable', '«first:»«ag:List»§<§String§«agend:>»§[§«aglast:]»§«n:ff»«last:»§«semi:;»'),
    'field_array_array': ('parcelable', '«first:»«aa:int»§[§«aaend:]»§[§«aalast:]»§«n:ff»«last:»§«semi:;»'),
    'enum_element': ('enum', '«first:»«n:EL»§=§«last:3»'),
}


def sweep_c04():
    """every template x every gap variant; checks name/full ranges, oneway keyword range, transact-code diagnostic range, line/col consistency."""
    n, bad = 0, []
    for gi, gap in enumerate(GAPS):
        files, metas = {}, {}
        for kind, (cont, tmpl) in MEMBER_TEMPLATES.items():
            head = 'package§«pkg:a.b»§;§import§«imp:c.d.E»§;§«dpfirst:parcelable»§«dp:Fwd»§«dplast:;»§@A§«dp2first:parcelable»§«dp2:q.r.Fwd2»§«dp2last:;»§«itemfirst:%s»§«item:It»§{§' % cont
            full_t = head + tmpl + ('§«itemlast:}»' if cont != 'enum' else '§,§«itemlast:}»')
            text, roles = render(full_t, gap)
            fid = '%s.aidl' % kind
            files[fid] = text
            metas[fid] = (kind, roles, text)
        try:
            r = replay.project(files)
        except Exception as e:
            bad.append({'gap': gap, 'what': 'replay failed %s' % e})
            continue
        if r.get('panic'):
            bad.append({'gap': repr(gap), 'what': 'panic: %s' % r['panic'], 'node': 'method', 'field': 'diagnostic', 'file': r.get('id')})
            # retry without the overflowing-code template to still check the rest
            files.pop('method_badcode.aidl', None)
            r = replay.project(files)
            if r.get('panic'):
                continue
        for fid, (kind, roles, text) in metas.items():
            if fid not in r['files']:
                continue
            fr = r['files'][fid]['parse']
            a = fr['ast']
            n += 1
            if a is None:
                bad.append({'gap': repr(gap), 'kind': kind, 'what': 'did not parse: %s' % [d['message'] for d in fr['diags']][:1]})
                continue

            def chk(node, field, got, want_start, want_end, start_lo=None):
                ok_start = (got[0] == want_start) if start_lo is None else (start_lo <= got[0] <= want_start)
                ok_end = got[1] in (want_end if isinstance(want_end, (list, tuple)) else [want_end])
                if not (ok_start and ok_end):
                    bad.append({'gap': repr(gap), 'kind': kind, 'node': node, 'field': field, 'got': got[:2], 'want': [want_start, want_end],
                                'what': '%s.%s is %s, expected %s..%s' % (node, field, got[:2], want_start, want_end)})
            chk('package', 'symbol_range', a['package_sym'], roles['pkg'][0], roles['pkg'][1])
            chk('import', 'symbol_range', a['imports'][0]['sym'], roles['imp'][0], roles['imp'][1])
            chk('declared_parcelable', 'symbol_range', a['declared'][0]['sym'], roles['dp'][0], roles['dp'][1])
            chk('declared_parcelable', 'symbol_range', a['declared'][1]['sym'], roles['dp2'][0], roles['dp2'][1])
            chk('declared_parcelable', 'full_range', a['declared'][0]['full'], roles['dpfirst'][0], [roles['dp'][1], roles['dplast'][1]])
            chk('declared_parcelable', 'full_range', a['declared'][1]['full'], roles['dp2first'][0], [roles['dp2'][1], roles['dp2last'][1]])
            chk('item', 'symbol_range', a['item']['sym'], roles['item'][0], roles['item'][1])
            chk('item', 'full_range', a['item']['full'], roles['itemfirst'][0], roles['itemlast'][1])
            m = a['members'][0] if a['members'] else None
            if m is None:
                bad.append({'gap': repr(gap), 'kind': kind, 'what': 'member missing'})
                continue
            chk('member', 'symbol_range', m['sym'], roles['n'][0], roles['n'][1])
            ends = [roles['last'][1]] + ([roles['semi'][1]] if 'semi' in roles else [])
            if 'ann' in roles:
                chk('member', 'full_range', m['full'], roles['first'][0], ends, start_lo=roles['ann'][1])
            else:
                chk('member', 'full_range', m['full'], roles['first'][0], ends)
            if kind == 'method_full':
                rt = m['ret']
                chk('type', 'symbol_range', rt['sym'], roles['lt'][0], roles['lt'][1])
                chk('type', 'full_range', rt['full'], roles['lt'][0], roles['ltend'][1])
                chk('type', 'symbol_range', rt['generic'][0]['sym'], roles['lts'][0], roles['lts'][1])
                chk('type', 'symbol_range', m['args'][0]['type']['sym'], roles['at'][0], roles['at'][1])
            if kind == 'field_map':
                ft = m['type']
                chk('type', 'symbol_range', ft['sym'], roles['mt'][0], roles['mt'][1])
                chk('type', 'full_range', ft['full'], roles['mt'][0], roles['mtend'][1])
                chk('type', 'symbol_range', ft['generic'][0]['sym'], roles['mk'][0], roles['mk'][1])
                chk('type', 'symbol_range', ft['generic'][1]['sym'], roles['arr'][0], roles['arr'][1])
                chk('type', 'full_range', ft['generic'][1]['full'], roles['arr'][0], roles['arrlast'][1])
                chk('type', 'symbol_range', ft['generic'][1]['generic'][0]['sym'], roles['arr'][0], roles['arr'][1])
            if kind == 'field_array_generic':
                chk('type', 'symbol_range', m['type']['sym'], roles['ag'][0], roles['agend'][1])
                chk('type', 'full_range', m['type']['full'], roles['ag'][0], roles['aglast'][1])
                chk('type', 'symbol_range', m['type']['generic'][0]['sym'], roles['ag'][0], roles['ag'][1])
            if kind == 'field_array_array':
                chk('type', 'symbol_range', m['type']['sym'], roles['aa'][0], roles['aaend'][1])
                chk('type', 'full_range', m['type']['full'], roles['aa'][0], roles['aalast'][1])
                chk('type', 'symbol_range', m['type']['generic'][0]['sym'], roles['aa'][0], roles['aa'][1])
            if kind == 'field_custom':
                chk('type', 'symbol_range', m['type']['sym'], roles['ct'][0], roles['ct'][1])
                chk('type', 'full_range', m['type']['full'], roles['ct'][0], roles['ct'][1])
            if kind == 'method_full':
                chk('method', 'oneway_range', m['oneway_range'], roles['first'][0], roles['first'][1])
                if m['code'] != 12:
                    bad.append({'kind': kind, 'what': 'transact code %s' % m['code']})
            if kind == 'method_badcode':
                ds = [d for d in fr['diags'] if 'transact code' in d['message']]
                if len(ds) != 1:
                    bad.append({'gap': repr(gap), 'kind': kind, 'node': 'method', 'field': 'diagnostic', 'what': '%d transact-code diagnostics' % len(ds)})
                else:
                    chk('method', 'diagnostic', ds[0]['range'], roles['code'][0], roles['code'][1])
            # every reported range: start <= end, inside the file, on a char boundary, line/col agrees with the offset
            tb = text.encode('utf-8')

            def wf(rg, what):
                for off, line, col in ((rg[0], rg[2], rg[3]), (rg[1], rg[4], rg[5])):
                    if off > len(tb) or (off < len(tb) and (tb[off] & 0xC0) == 0x80):
                        bad.append({'gap': repr(gap), 'kind': kind, 'what': '%s offset %d not on a character boundary' % (what, off)}); return
                    pre = tb[:off].decode('utf-8')
                    wl = pre.count('\n') + 1
                    if line != wl:
                        bad.append({'gap': repr(gap), 'kind': kind, 'what': '%s line %d, expected %d' % (what, line, wl)}); return
                if rg[0] > rg[1]:
                    bad.append({'gap': repr(gap), 'kind': kind, 'node': what, 'field': 'order', 'what': '%s inverted %s' % (what, rg[:2])})
            for s in a['symbols_all']:
                wf(s['range'], s['tag'] + '.symbol_range'); wf(s['full'], s['tag'] + '.full_range')
            if m['tag'] == 'method':
                wf(m['code_range'], 'method.transact_code_range'); wf(m['oneway_range'], 'method.oneway_range')
            for d in fr['diags']:
                wf(d['range'], 'diagnostic')
    return n, bad


def sweep_source_identity():
    """positions refer to the text the caller supplied: well-formed documents behind unusual first characters (byte order mark, NBSP,
    blank lines, a comment); every named symbol's range must slice to its name in the SUPPLIED text and its line must agree."""
    doc = 'package a.b;\nimport c.d.E;\ninterface It {\n    void m(in Missing x);\n    const int K = 1;\n}\n'
    n, bad = 0, []
    for prefix in ('', '\ufeff', '\ufeff\n', '\n\n', ' \t', '/* \u00e9 */ ', '// \ufeff\n', '\u00a0'):
        text = prefix + doc
        tb = text.encode('utf-8')
        r = replay.project({'f.aidl': text})
        n += 1
        if r.get('panic'):
            bad.append({'prefix': repr(prefix), 'what': 'panic: %s' % r['panic'][:80]}); continue
        fr = r['files']['f.aidl']['parse']
        rgs = [('diagnostic', None, d['range']) for d in fr['diags']]
        if fr['ast'] is not None:
            rgs += [(s_['tag'], s_['name'], s_['range']) for s_ in fr['ast']['symbols_all'] if s_['tag'] in ('package', 'import', 'interface', 'method', 'arg', 'const')]
        elif prefix in ('', '\n\n', ' \t', '/* \u00e9 */ ', '// \ufeff\n'):
            bad.append({'prefix': repr(prefix), 'what': 'a well-formed document behind ordinary layout did not parse'})
        for tag, name, rg in rgs:
            if rg[1] > len(tb) or rg[0] > rg[1]:
                bad.append({'prefix': repr(prefix), 'what': '%s range %s outside the supplied text' % (tag, rg[:2])}); continue
            if tb[:rg[0]].count(b'\n') + 1 != rg[2]:
                bad.append({'prefix': repr(prefix), 'what': '%s range starts at offset %d on line %d of the supplied text, reported line %d' % (tag, rg[0], tb[:rg[0]].count(b'\n') + 1, rg[2])})
            if name is not None and tb[rg[0]:rg[1]].decode('utf-8', 'replace') != name:
                bad.append({'prefix': repr(prefix), 'what': '%s name range %s slices to %r in the supplied text, the name is %r' % (tag, rg[:2], tb[rg[0]:rg[1]].decode('utf-8', 'replace'), name)})
    return n, bad


def sweep_c09():
    """all method sequences of length <= 4 over 2 names x {no code, 2 codes}, constants interleaved; reference written from the statement."""
    import itertools
    alphabet = [(nm, code) for nm in ('aa', 'bb') for code in (None, 1, 4294967295)]      # a small code and the largest one a u32 holds
    seqs = []
    for L in range(1, 5):
        seqs += list(itertools.product(alphabet, repeat=L))
    files, metas = {}, {}
    for k, seq in enumerate(seqs):
        lines = []
        for j, (nm, code) in enumerate(seq):
            lines.append('  void %s()%s;' % (nm, '' if code is None else ' = %d' % code))
            if j == 0:
                lines.append('  const int K = 1;')
        files['q%04d.aidl' % k] = 'package p;\ninterface I {\n' + '\n'.join(lines) + '\n}\n'
        metas['q%04d.aidl' % k] = seq
    r = replay.project(files)
    bad = []
    if 'files' not in r:
        return len(seqs), [{'what': 'validation did not return normally: %s' % str(r)[:200]}]
    for fid, seq in metas.items():
        fr = r['files'][fid]['valid']
        ms = [m for m in fr['ast']['members'] if m['tag'] == 'method']
        diags = [d for d in fr['diags'] if 'method' in d['message'].lower() and d['kind'] == 'Error' and ('Duplicated' in d['message'] or 'Mixed' in d['message'])]
        want = []
        names, ids, fw, fwo = {}, {}, None, None
        for j, (nm, code) in enumerate(seq):
            m = ms[j]
            if nm in names:
                want.append(('dupname', tuple(m['sym'][:2]), tuple(ms[names[nm]]['sym'][:2])))
                continue
            names[nm] = j
            if (code is not None and fw is None and fwo is not None) or (code is None and fwo is None and fw is not None):
                want.append(('mixed', tuple(m['code_range'][:2]), None))
            if code is not None:
                if fw is None:
                    fw = j
                if code in ids:
                    want.append(('dupid', tuple(m['code_range'][:2]), tuple(ms[ids[code]]['code_range'][:2])))
                else:
                    ids[code] = j
            elif fwo is None:
                fwo = j
        got = []
        for d in diags:
            kind = 'dupname' if 'method name' in d['message'] else 'mixed' if 'Mixed' in d['message'] else 'dupid'
            got.append((kind, tuple(d['range'][:2]), tuple(d['related'][0][:2]) if d['related'] and kind != 'mixed' else None))
        if sorted(got) != sorted(want):
            bad.append({'sequence': seq, 'got': got, 'want': want})
    return len(seqs), bad


def sweep_doc_attachment():
    """every documentable construct x {annotated, plain} x {doc comment, none, doc comment of the previous member}: the `doc` field."""
    n, bad = 0, []
    for ann in ('', '@Ann ', '@Ann(k=1)\n  ', '@A @B '):
        for sep in (' ', '\n  ', '\r\n  ', ' /* c */ ', ' /**/ ', '\n  //** banner **\n  '):
            def d(text):
                return '/** %s */%s' % (text, sep)
            files = {
                'i.aidl': 'package p;\n%s%sinterface I {\n  %s%sconst int K = 1;\n  %s%svoid m(%sin %sint a, int b);\n  void plain();\n}\n' % (d('item doc'), ann, d('const doc'), ann, d('method doc'), ann, d('arg doc'), ann),
                'p.aidl': 'package p;\n%s%sparcelable P {\n  %s%sint f;\n  %s%sconst int C = 2;\n  int plain;\n}\n' % (d('item doc'), ann, d('field doc'), ann, d('pconst doc'), ann),
                'e.aidl': 'package p;\n%s%senum E {\n  %s%sA = 1,\n  B\n}\n' % (d('item doc'), ann, d('elem doc'), ann),
            }
            r = replay.project(files)
            if r.get('panic') or 'crash' in r:
                bad.append({'what': 'replay failed', 'detail': str(r)[:200]}); continue

            def expect(node, got, want, fid):
                nonlocal n
                n += 1
                if got != want:
                    bad.append({'file': fid, 'annotations': ann, 'separator': repr(sep), 'node': node, 'what': 'doc of %s is %r, expected %r' % (node, got, want)})
            for fid, fr in r['files'].items():
                a = fr['valid']['ast']
                if a is None:
                    bad.append({'file': fid, 'what': 'did not parse: %s' % [x['message'] for x in fr['parse']['diags']][:1], 'annotations': ann}); continue
                expect('item', a['item']['doc'], 'item doc', fid)
                ms = {m['name']: m for m in a['members']}
                if fid == 'i.aidl':
                    expect('const', ms['K']['doc'], 'const doc', fid)
                    expect('method', ms['m']['doc'], 'method doc', fid)
                    expect('arg', ms['m']['args'][0]['doc'], 'arg doc', fid)
                    expect('arg without doc', ms['m']['args'][1]['doc'], None, fid)
                    expect('method without doc', ms['plain']['doc'], None, fid)
                elif fid == 'p.aidl':
                    expect('field', ms['f']['doc'], 'field doc', fid)
                    expect('const', ms['C']['doc'], 'pconst doc', fid)
                    expect('field without doc', ms['plain']['doc'], None, fid)
                else:
                    expect('enum_element', ms['A']['doc'], 'elem doc', fid)
                    expect('enum_element without doc', ms['B']['doc'], None, fid)
    return n, bad


def sweep_c06():
    """import lists and forward-declaration lists over a small name pool, reference written from the statement."""
    import itertools
    support = {'foo.aidl': 'package p.q;\nparcelable Foo { int a; }\n', 'bar.aidl': 'package p.q;\nparcelable Bar { int a; }\n'}
    imp_pool = ['p.q.Foo', 'p.q.Bar', 'x.y.Nope', 'android.os.IBinder', 'other.Foo']
    uses_pool = [[], ['Foo'], ['Foo', 'Bar'], ['IBinder'], ['List<Map<String,Foo>>']]
    files, metas = {}, {}
    k = 0
    for L in (1, 2, 3):
        for imps in itertools.product(imp_pool, repeat=L):
            if L == 3 and len(set(imps)) == 3:
                continue
            for uses in uses_pool:
                k += 1
                fid = 'i%04d.aidl' % k
                body = ''.join('  void m%d(in %s a);\n' % (j, u) for j, u in enumerate(uses))
                files[fid] = 'package z;\n' + ''.join('import %s;\n' % i for i in imps) + 'interface I {\n' + body + '}\n'
                metas[fid] = ('imports', imps, uses)
    dec_pool = ['Fwd', 'Foo', 'a.b.Fwd', 'Other', 'x.y.Foo']       # x.y.Foo: qualified declaration whose simple name an import of another package carries
    for L in (1, 2):
        for decs in itertools.product(dec_pool, repeat=L):
            for withimp in (False, True):
                for uses in ([], ['Fwd'], ['Foo'], ['Fwd', 'Other']):
                    k += 1
                    fid = 'd%04d.aidl' % k
                    body = ''.join('  void m%d(in %s a);\n' % (j, u) for j, u in enumerate(uses))
                    files[fid] = 'package z;\n' + ('import p.q.Foo;\n' if withimp else '') + ''.join('parcelable %s;\n' % d for d in decs) + 'interface I {\n' + body + '}\n'
                    metas[fid] = ('declared', decs, uses, withimp)
    files.update(support)
    r = replay.project(files)
    if 'files' not in r:
        return len(metas), [{'what': 'validation did not return normally: %s' % str(r)[:200]}]
    defined = {'p.q.Foo', 'p.q.Bar'}
    builtin_q = {'android.os.IBinder', 'java.os.FileDescriptor', 'android.os.ParcelFileDescriptor', 'android.os.ParcelableHolder'}
    bad = []
    for fid, meta in metas.items():
        fr = r['files'][fid]['valid']
        a = fr['ast']
        if a is None:
            bad.append({'file': fid, 'what': 'did not parse'}); continue
        # keys some type resolved to, read off the validated tree (at any depth)
        res = set()

        def walk(t):
            kk = t['kind']
            if kk.startswith('resolved:'):
                res.add(kk.split(':')[1])
            elif kk.startswith('android:'):
                res.add({'IBinder': 'android.os.IBinder', 'FileDescriptor': 'java.os.FileDescriptor', 'ParcelFileDescriptor': 'android.os.ParcelFileDescriptor', 'ParcelableHolder': 'android.os.ParcelableHolder'}[kk.split(':')[1]])
            elif kk == 'string':
                res.add('java.lang.String')
            for g in t['generic']:
                walk(g)
        for t in all_types(a['members']):
            walk(t)
        if meta[0] == 'imports':
            imps = meta[1]
            want = []
            for j, q in enumerate(imps):
                sym = tuple(a['imports'][j]['sym'][:2])
                if q in imps[:j]:
                    first = imps.index(q)
                    want.append(('Error', sym, tuple(a['imports'][first]['sym'][:2])))
                elif q not in defined and q not in builtin_q:
                    want.append(('Warning:Unresolved', sym, None))
                elif q not in res:
                    want.append(('Warning:Unused', sym, None))
            got = []
            for d in fr['diags']:
                if 'import' in d['message'] and 'conflicts' not in d['message']:
                    cat = 'Error' if d['kind'] == 'Error' else 'Warning:' + d['message'].split()[0]
                    got.append((cat, tuple(d['range'][:2]), tuple(d['related'][0][:2]) if d['related'] else None))
            if sorted(got, key=str) != sorted(want, key=str):
                bad.append({'file': fid, 'imports': imps, 'uses': meta[2], 'got': got, 'want': want, 'what': 'import diagnostics differ from the statement'})
        else:
            decs, uses, withimp = meta[1], meta[2], meta[3]
            impnames = {'Foo'} if withimp else set()
            want = []
            kept = []
            for j, dq in enumerate(decs):
                dn = dq.split('.')[-1]
                node = a['declared'][j]
                sym, full = tuple(node['sym'][:2]), tuple(node['full'][:2])
                if dn in impnames:
                    want.append(('conflict', sym)); continue
                if dq in [x for x, _ in kept]:
                    want.append(('repeated', sym)); continue
                kept.append((dq, j))
                want.append(('usage', full) if dq in res else ('unused', sym))
            got = []
            for d in fr['diags']:
                mm = d['message']
                cat = 'conflict' if 'conflicts' in mm else 'repeated' if mm.startswith('Multiple') else 'unused' if mm.startswith('Unused declared') else 'usage' if mm.startswith('Usage of declared') else None
                if cat:
                    got.append((cat, tuple(d['range'][:2])))
            if sorted(got) != sorted(want):
                bad.append({'file': fid, 'declared': decs, 'uses': uses, 'import': withimp, 'got': got, 'want': want, 'what': 'forward-declaration diagnostics differ from the statement'})
    return len(metas), bad


def sweep_error_tokens():
    """syntax errors whose offending token is long / multi-byte / at the very end: validation must return normally, with one result
    per id, at least one Error, and a diagnostic range that covers exactly the offending token."""
    long_ascii = '"' + 'a' * 70 + '"'
    long_e = '"' + '\u00e9' * 40 + '"'            # 2-byte characters: every odd byte offset is inside a character
    long_mix = '"x' + '\u20ac' * 30 + '"'          # 3-byte characters shifted by one
    long_emoji = '"' + '\U0001F600' * 20 + '"'
    toks = [long_ascii, long_e, long_mix, long_emoji, '12345678901234567890123456789012345678901234567890', '1.' + '0' * 60 + 'f', '@' + 'A' * 60]
    files, metas = {}, {}
    k = 0
    for t in toks:
        for tmpl in ('package p; %s', 'package p; interface I { @S(%s) void f(); }', 'package p; interface I { void f() %s; }', 'package p; parcelable P { int a %s; }',
                     'package p; enum E { A, %s, B }', 'package p; interface I {} %s'):
            k += 1
            fid = 't%03d.aidl' % k
            files[fid] = tmpl % t
            metas[fid] = (tmpl, t)
    r = replay.project(files)
    if 'files' not in r:
        return len(files), [{'what': 'adding / validating does not return normally: %s' % str(r)[:160], 'panic': True}]
    bad = []
    if sorted(r.get('keys', [])) != sorted(files):
        bad.append({'what': 'result keys %d != ids %d' % (len(r.get('keys', [])), len(files))})
    for fid, (tmpl, t) in metas.items():
        fr = r['files'][fid]['valid']
        errs = [d for d in fr['diags'] if d['kind'] == 'Error']
        if fr['id'] != fid:
            bad.append({'file': fid, 'what': 'result tagged %s' % fr['id']})
        if not errs:
            bad.append({'file': fid, 'text': files[fid][:60], 'what': 'malformed document without any Error'})
            continue
        start = len((tmpl.split('%s')[0]).encode('utf-8'))
        end = start + len(t.encode('utf-8'))
        syn = [d for d in r['files'][fid]['parse']['diags'] if 'Unrecognized token' in d['message'] or 'Extra token' in d['message']]
        if syn and tuple(syn[0]['range'][:2]) != (start, end) and t in syn[0]['message']:
            # the first syntax error is at the injected token in all templates
            bad.append({'file': fid, 'text': files[fid][:50], 'what': 'syntax diagnostic range %s, offending token at %s' % (syn[0]['range'][:2], [start, end])})
    return len(files), bad


# ---------------------------------------------------------------------------------------------------------------------------
# C12: edit histories.  C13: perturbations of the rest of the project.  (Confirmation only; the verdicts come from lib/framecheck.)
H_CONTENTS = {
    'c0.aidl': 'package p; import p.B; import q.C; interface A { B get(); void set(in C c, out B b); }',
    'c1.aidl': 'package p; parcelable B { int x; }',
    'c2.aidl': 'package q; enum C { X, Y }',
    'c3.aidl': 'package r; interface D { oneway int f(); void g(; }',
    'c4.aidl': 'package p',          # unrecoverable: no tree
}


def sweep_c12(depth=2, rand_histories=40, rand_len=25):
    import itertools
    ids = ['a', 'b', 'c']
    ops = ['add %s {dir}/%s' % (i, c) for i in ids for c in H_CONTENTS] + ['remove %s' % i for i in ids] + ['validate',
           'addfile {dir}/c0.aidl', 'addfile {dir}/c1.aidl', 'addfile {dir}/missing.aidl', 'addfile {dir}/latin1.aidl',
           'addpath {dir}/c0.aidl {dir}/c1.aidl', 'addpath {dir}/c1.aidl {dir}/c2.aidl']
    lines = []
    for h in itertools.product(ops, repeat=depth):
        lines.append('reset')
        lines += list(h)
    # a directed scenario that exercises stale caches: validate between every change of a file another one imports
    lines.append('reset')
    lines += [l.replace('@', '{dir}/') for l in ('add a @c0.aidl', 'add b @c1.aidl', 'add c @c2.aidl', 'validate', 'remove b', 'validate', 'add b @c1.aidl', 'validate', 'remove c',
                                                'validate', 'add c @c2.aidl', 'add a @c3.aidl', 'validate', 'add a @c0.aidl', 'validate', 'add b @c2.aidl', 'validate', 'remove a', 'add a @c0.aidl')]
    # the path-keyed parser: a file loaded from disk, overwritten in memory under the same id, then loaded again (and the other way round)
    lines.append('reset')
    lines += [l.replace('@', '{dir}/') for l in ('addfile @c0.aidl', 'addpath @c0.aidl @c1.aidl', 'addfile @c0.aidl', 'addfile @c1.aidl', 'addpath @c1.aidl @c2.aidl', 'validate', 'addfile @c1.aidl',
                                                'addpath @c0.aidl @c3.aidl', 'addfile @c0.aidl', 'addfile @c0.aidl')]
    # replacements that leave the TREE unchanged (same ranges) but change the syntax diagnostics, and back; also a replacement that changes only a comment
    lines.append('reset')
    lines += [l.replace('@', '{dir}/') for l in ('add a @g0.aidl', 'validate', 'add a @g1.aidl', 'validate', 'add a @g0.aidl', 'validate', 'add a @g2.aidl', 'validate', 'add b @g1.aidl', 'add b @g0.aidl')]
    # longer random histories (validate interleaved), seeded
    import os, random
    rnd = random.Random(int(os.environ.get('VERIF_SEED', '1')))
    for _ in range(rand_histories):
        lines.append('reset')
        lines += [rnd.choice(ops) for _k in range(rand_len)]
    r = replay.history(H_CONTENTS, lines, extra_files={'latin1.aidl': b'package p; parcelable B\xe9;',
                                                       'g0.aidl': b'package p; interface I { void f();           }',
                                                       'g1.aidl': b'package p; interface I { void f(); int oops; }',
                                                       'g2.aidl': b'package p; interface I { void f(); /* doc */ }'})
    if 'crash' in r:
        raise RuntimeError('history replay failed: %s' % str(r)[:300])
    return r['steps'], r['bad']


def digest_file(r):
    return json.dumps(r['valid'], sort_keys=True)


def sweep_c13():
    """observed file + perturbations of the others that keep (key registered?, kind) of each of its imports"""
    import json as _j
    obs = ('package p; import p.B; import q.C; import x.Gone; import android.os.IBinder;\n'
           'interface A { B get(); void set(in C c, out B b, in Gone g, in IBinder i); List<B> l(); Map<String,C> m(); void h(in Unimported u, in zz.Q q, in D d); }')
    base = {'a.aidl': obs, 'b.aidl': 'package p; parcelable B { int x; }', 'c.aidl': 'package q; enum C { X, Y }',
            'd.aidl': 'package r; interface D { void f(); }'}
    same = [
        ('add unrelated file', dict(base, **{'e.aidl': 'package s; parcelable E { int y; }'})),
        ('remove non-imported file', {k: v for k, v in base.items() if k != 'd.aidl'}),
        ('rewrite body of imported parcelable', dict(base, **{'b.aidl': 'package p;\nimport q.C;\n/** doc */ parcelable B { String s; C c; const int K = 3; }'})),
        ('rewrite docs of imported parcelable', dict(base, **{'b.aidl': 'package p;\n/** A doc.\n * @deprecated use something else\n */\nparcelable B { int x; }'})),
        ('rewrite docs and annotations of imported enum', dict(base, **{'c.aidl': 'package q;\n/** @deprecated */ @Deprecated enum C { X, Y }'})),
        ('rewrite body of imported enum', dict(base, **{'c.aidl': 'package q; @Backing(type="byte") enum C { Z = 1 }'})),
        ('imported file gains a validation error', dict(base, **{'b.aidl': 'package p; parcelable B { Unknown u; }'})),
        ('imported file gains a recovered syntax error', dict(base, **{'b.aidl': 'package p; parcelable B { int x; int ; }'})),
        ('rewrite non-imported file to broken', dict(base, **{'d.aidl': 'package r; interface {'})),
        ('unrelated file with the same simple name in another package', dict(base, **{'e.aidl': 'package zz; interface B { void f(); }'})),
        ('imported file moved to another id', dict({k: v for k, v in base.items() if k != 'b.aidl'}, **{'zzz.aidl': base['b.aidl']})),
        ('file defining a simple name the observed file uses without importing it', dict(base, **{'e.aidl': 'package zz; parcelable Unimported { int a; }'})),
        ('file defining a qualified name the observed file uses without importing it', dict(base, **{'e.aidl': 'package zz; parcelable Q { int a; }'})),
        ('same-package file defining a simple name the observed file uses without importing it', dict(base, **{'e.aidl': 'package p; parcelable Unimported { int a; }'})),
        ('two files defining a simple name the observed file uses without importing it', dict(base, **{'e.aidl': 'package zz; parcelable Unimported { int a; }', 'f.aidl': 'package yy; interface Unimported { void f(); }'})),
        ('unrelated file named like a missing import, in another package', dict(base, **{'e.aidl': 'package other.pkg; parcelable Gone { int a; }'})),
        ('only the observed file left', {'a.aidl': obs, 'b.aidl': base['b.aidl'], 'c.aidl': base['c.aidl']}),
        ('unrelated file importing the observed one', dict(base, **{'e.aidl': 'package s; import p.A; interface E { void f(in A a); }'})),
    ]
    differ = [
        ('imported parcelable becomes interface', dict(base, **{'b.aidl': 'package p; interface B { void f(); }'})),
        ('imported file removed', {k: v for k, v in base.items() if k != 'c.aidl'}),
        ('missing import appears', dict(base, **{'g.aidl': 'package x; parcelable Gone { int z; }'})),
        ('imported item renamed', dict(base, **{'b.aidl': 'package p; parcelable B2 { int x; }'})),
    ]
    ref = digest_file(replay.project(base)['files']['a.aidl'])
    bad, n = [], 0
    for what, files in same:
        n += 1
        r = replay.project(files)
        if 'files' not in r or digest_file(r['files']['a.aidl']) != ref:
            bad.append({'what': 'result of the observed file changed: ' + what, 'files': files})
    for what, files in differ:
        n += 1
        r = replay.project(files)
        if 'files' in r and digest_file(r['files']['a.aidl']) == ref:
            bad.append({'what': 'negative control left the result unchanged: ' + what, 'files': files, 'control': True})
    return n, bad


# ---------------------------------------------------------------------------------------------------------------------------
# C02: reference trees of three documents that use every construct, and layout variants of the same token sequences
C02_DOCS = {
    'm.aidl': ('package a . b . c ; import x . y . Z ; import q . W ; parcelable fwd . Decl ; @Top ( k0 = 1 , k1 = "s" ) oneway interface Iface { '
               '@Ann0 ( p = true ) RetT mname ( in ArgT0 aname0 , out @AnnA Map < String , List < ArgT1 > > aname1 , inout int [ ] arr , IBinder ) = 7 ; '
               'const int CNAME = 12 ; const String S = "str" ; oneway void second ( ) = 4294967295 ; List raw ( Map m , ) = 007 ; }'),
    'e.aidl': 'package e ; @Backing ( type = "byte" ) enum E { @Dep A = 1 , B , C = "x" , }',
    'p.aidl': ('package p ; parcelable P { int x = 5 ; @F float [ ] fs = { 1.0f , 2 } ; String s ; Other . Name on = Foo . BAR ; const boolean T = true ; '
               'double d = -.5f ; CharSequence cs ; int_ inout2 ; const int _lead = 0 ; Listing trail_ ; }'),
}
C02_GAPS = [' ', '\n', '\t \r\n', ' /* c */ ', '/**/', ' // line\n', '  ', ' /* é 漢 */\n// x\r\n']


def strip_positions(o):
    if isinstance(o, dict):
        return {k: strip_positions(v) for k, v in o.items() if k not in ('sym', 'full', 'range', 'doc', 'package_sym', 'package_full', 'direction_range', 'code_range', 'oneway_range',
                                                                          'symbols_all', 'symbols_items', 'symbols_elements', 'types_walk', 'walkers')}
    if isinstance(o, list):
        return [strip_positions(x) for x in o]
    return o


def c02_expectations(trees):
    """[(what, ok, role hint)] against the reference trees written from the source text above"""
    out = []

    def exp(what, got, want, hint=None):
        out.append((what, got == want, hint, got, want))

    def ty(t):
        return t['name'] + ('<' + ','.join(ty(g) for g in t['generic']) + '>' if t['generic'] else '')
    m = trees['m.aidl']
    exp('package name', m['package'], 'a.b.c')
    exp('imports in order', [(i['path'], i['name']) for i in m['imports']], [('x.y', 'Z'), ('q', 'W')])
    exp('forward declarations', [(i['path'], i['name']) for i in m['declared']], [('fwd', 'Decl')])
    exp('item', (m['item']['tag'], m['item']['name'], m['item']['oneway']), ('interface', 'Iface', True))
    mem = m['members']
    exp('members in source order', [(x['tag'], x['name']) for x in mem], [('method', 'mname'), ('const', 'CNAME'), ('const', 'S'), ('method', 'second'), ('method', 'raw')])
    if len(mem) == 5:
        mm = mem[0]
        exp('method: return type / code / oneway', (ty(mm['ret']), mm['code'], mm['oneway']), ('RetT', 7, False))
        exp('argument names', [a['name'] for a in mm['args']], ['aname0', 'aname1', 'arr', None])
        exp('argument directions', [a['direction'] for a in mm['args']], ['in', 'out', 'inout', ''])
        exp('argument types', [ty(a['type']) for a in mm['args']], ['ArgT0', 'Map<String,List<ArgT1>>', 'Array<int>', 'IBinder'])
        exp('constants', [(x['name'], ty(x['type']), x['value']) for x in mem[1:3]], [('CNAME', 'int', '12'), ('S', 'String', '"str"')])
        exp('second method (largest transact code)', (ty(mem[3]['ret']), mem[3]['oneway'], mem[3]['code'], mem[3]['args']), ('void', True, 4294967295, []))
        exp('raw containers (zero-padded code)', (ty(mem[4]['ret']), [ty(a['type']) for a in mem[4]['args']], mem[4]['code']), ('List', ['Map'], 7))
    exp('annotations of the interface file', [(a['owner'], a['name'], a['params']) for a in m['annotations']],
        [('item', '@Top', [['k0', '1'], ['k1', '"s"']]), ('mname', '@Ann0', [['p', 'true']]), ('mname#1', '@AnnA', [])])
    e = trees['e.aidl']
    exp('enum elements', [(x['name'], x['value']) for x in e['members']], [('A', '1'), ('B', None), ('C', '"x"')])
    exp('enum annotations', [(a['owner'], a['name'], a['params']) for a in e['annotations']], [('item', '@Backing', [['type', '"byte"']]), ('A', '@Dep', [])], 'dropped:EnumElement<-OptAnnotation+')
    p = trees['p.aidl']
    exp('fields', [(x['tag'], x['name'], ty(x['type'])) for x in p['members']],
        [('field', 'x', 'int'), ('field', 'fs', 'Array<float>'), ('field', 's', 'String'), ('field', 'on', 'Other.Name'), ('const', 'T', 'boolean'), ('field', 'd', 'double'),
         ('field', 'cs', 'CharSequence'), ('field', 'inout2', 'int_'), ('const', '_lead', 'int'), ('field', 'trail_', 'Listing')])
    vals = {x['name']: x['value'] for x in p['members']}
    exp('scalar values', [vals.get(k) for k in ('x', 's', 'on', 'T', 'd')], ['5', None, 'Foo.BAR', 'true', '-.5f'])
    exp('array literal value', (vals.get('fs') or '').replace(' ', ''), '{1.0f,2}', 'dropped:Value<-Value+')
    exp('annotations of the parcelable file', [(a['owner'], a['name']) for a in p['annotations']], [('fs', '@F')])
    return out


def sweep_c02():
    """-> (comparisons, failures [{what, hint, ...}])"""
    n, bad = 0, []
    base = None
    for gi, gap in enumerate(C02_GAPS):
        files = {fid: gap.join(text.split(' ')) + gap for fid, text in C02_DOCS.items()}
        r = replay.project(files)
        if 'files' not in r:
            bad.append({'what': 'parse failed under layout #%d: %s' % (gi, str(r)[:200]), 'hint': 'layout'}); continue
        trees = {}
        for fid in files:
            fr = r['files'][fid]['parse']
            if fr['ast'] is None or fr['diags']:
                bad.append({'what': 'well-formed document %s under layout #%d gives diagnostics / no tree: %s' % (fid, gi, str(fr['diags'])[:200]), 'hint': 'layout'})
            else:
                trees[fid] = strip_positions(fr['ast'])
        if len(trees) != len(files):
            continue
        if base is None:
            base = trees
            for what, ok, hint, got, want in c02_expectations(trees):
                n += 1
                if not ok:
                    bad.append({'what': 'tree does not mirror the source: ' + what, 'hint': hint, 'got': got, 'want': want})
        else:
            n += 1
            if trees != base:
                fid = [f for f in trees if trees[f] != base[f]][0]
                bad.append({'what': 'layout #%d (%r between all tokens) changes the tree of %s' % (gi, gap, fid), 'hint': 'layout'})
    return n, bad


def sweep_doc_text():
    """structure of the documentation text: paragraphs, lines, tags; LF and CRLF; decorated and undecorated lines.
    Expected text written from the statement: lines of a paragraph joined by single spaces, paragraphs and @tag clauses separated by newlines."""
    n, bad = 0, []
    docs = [
        ([['Title']], []),
        ([['First line', 'second line']], []),
        ([['Title'], ['Première partie', 'suite'], ['Dernière 部分 🎉']], []),
        ([['Summary line', 'goes on'], ['Details']], ['@param a the a', '@return nothing']),
        ([['Only']], ['@deprecated use other']),
    ]
    files, want = {}, {}
    k = 0
    for eol in ('\n', '\r\n'):
        for deco in (' * ', '   ', '\t* '):
            for paras, tags in docs:
                k += 1
                lines = []
                for pi, p in enumerate(paras):
                    if pi:
                        lines.append('')
                    lines += p
                lines += tags
                body = eol.join((deco + l).rstrip(' ') if l else deco.rstrip(' ') for l in lines)
                text = 'package p;' + eol + '/**' + eol + body + eol + ' */' + eol + 'interface I%d { }' % k + eol
                fid = 'd%03d.aidl' % k
                files[fid] = text
                want[fid] = '\n'.join([' '.join(p) for p in paras] + tags)
    r = replay.project(files)
    if 'files' not in r:
        return 0, [{'what': 'replay failed: %s' % str(r)[:200]}]
    for fid, w in want.items():
        n += 1
        a = r['files'][fid]['parse']['ast']
        got = a['item']['doc'] if a else None
        if got != w:
            bad.append({'file': fid, 'text': files[fid], 'what': 'documentation is %r, expected %r' % (got, w)})
    return n, bad


def sweep_silent_recovery():
    """malformed members whose recovery drops no token: each must still give at least one Error (C03: failure is never silent; C14: the error is reported)"""
    docs = {
        'i1.aidl': 'package p; interface I { int int y(); void ok(); }',
        'i2.aidl': 'package p; interface I { void a(); String x const int Y = 3; void ok(); }',
        'p1.aidl': 'package p; parcelable P { String String y = "s"; int z; }',
        'e1.aidl': 'package p; enum E { X = , Y }',
        'e2.aidl': 'package p; enum E { A, @Ann , B }',
        'i3.aidl': 'package p; interface I { void f(; void ok(); }',
        'p2.aidl': 'package p; parcelable P { int ; int z; }',
    }
    r = replay.project(docs)
    if 'files' not in r:
        return len(docs), [{'what': 'replay failed: %s' % str(r)[:200]}]
    bad = []
    for fid, text in docs.items():
        ds = r['files'][fid]['parse']['diags']
        if not any(d['kind'] == 'Error' for d in ds):
            bad.append({'file': fid, 'text': text, 'what': 'a malformed member is dropped without any Error', 'tree': r['files'][fid]['parse']['ast'] is not None})
    return len(docs), bad
