"""Engine M: nightly MIR of /repo's current tree -> symbolic execution -> z3.

The MIR is dumped with `cargo +nightly rustc -- -Zunpretty=mir` straight from /repo (own target dir and a lock file
with proc-macro2 bumped, both under /verif/.cache; /repo itself is not written to). The interpreter below handles the
loop-free subset that the functions of C11/C17/C19/C20 consist of; any statement it does not know raises Unsupported,
which the checks report as *inconclusive* (exit 2), never as a verdict.

Value model
  z3 expression           leaves (String / Int / Bool)
  Obj(path)               symbolic aggregate; fields/downcasts/discriminant are created lazily and memoised by path
  ('tuple', [..])         tuples, arrays
  ('some', v) / ('none',) constructed Options
  ('str', text)           string constant
  ('tmpl', pieces)        decoded format template; ('fmtargs', pieces, args); ('fmt', pieces, args) = result of format()
  ('elem', base, idx)     base[idx];  ('slice', base, a, b);  ('join', slice, sep)
  ('ovf', value, flag)    result of a checked arithmetic op
References are transparent (the functions handled do not mutate through them).
"""
import os
import re
import time

import z3

from common import CACHE, REPO, sh, log


class Unsupported(Exception):
    pass


# ------------------------------------------------------------------------------------------------------------
# Dumping
# ------------------------------------------------------------------------------------------------------------

def bumped_lock():
    """Cargo.lock of the current tree with proc-macro2 moved to a version the nightly/Kani toolchains can build."""
    d = os.path.join(CACHE, 'lock')
    os.makedirs(d, exist_ok=True)
    s = os.path.join('/var/tmp', 'verif-lock-%d' % os.getpid())
    sh('rm -rf %s && mkdir -p %s/src && cp %s/Cargo.toml %s/Cargo.lock %s/ && touch %s/src/lib.rs %s/src/build.rs' % (s, s, REPO, REPO, s, s, s))
    try:
        sh('cargo update -p proc-macro2 --precise 1.0.95 --offline', cwd=s)
        sh('cp %s/Cargo.lock %s/Cargo.lock' % (s, d))
    finally:
        sh('rm -rf %s' % s)
    return os.path.join(d, 'Cargo.lock')


_dump = {}


def dump_mir():
    """Returns the MIR text of the lib crate of /repo's current working tree (hooks enabled); one dump per process."""
    if 'txt' in _dump:
        return _dump['txt']
    lock = bumped_lock()
    t0 = time.time()
    out = os.path.join(CACHE, 'mir.%d.txt' % os.getpid())
    nonce = 'verif_nonce_%d_%d' % (os.getpid(), int(time.time() * 1000))
    cmd = ('cargo +nightly rustc --config \'resolver.lockfile-path="%s"\' --offline --lib --features verif-hooks -- '
           '-Zunpretty=mir -C debug-assertions=off -C overflow-checks=on --cfg %s > %s' % (lock, nonce, out))
    rc, so, se = sh(cmd, cwd=REPO, env={'CARGO_TARGET_DIR': os.path.join(CACHE, 'target-mir')}, check=False)
    if rc != 0:
        raise RuntimeError('MIR dump failed:\n' + se[-3000:])
    with open(out) as f:
        txt = f.read()
    os.unlink(out)
    if len(txt) < 1000:
        raise RuntimeError('MIR dump is empty')
    log('[mir] dumped %d lines in %.1fs' % (txt.count('\n'), time.time() - t0))
    _dump['txt'] = txt
    return txt


# ------------------------------------------------------------------------------------------------------------
# Parsing
# ------------------------------------------------------------------------------------------------------------

class Fn:
    def __init__(self, header, name, params, ret, blocks, locals_):
        self.header, self.name, self.params, self.ret, self.blocks, self.locals = header, name, params, ret, blocks, locals_


_FN = re.compile(r'^fn (.+?)\((.*)\) -> (.+?) \{$')


def _split_top(s, sep=','):
    out, depth, cur = [], 0, ''
    i = 0
    while i < len(s):
        ch = s[i]
        if ch in '([{<':
            depth += 1
        elif ch in ')]}>':
            if not (ch == '>' and i > 0 and s[i - 1] == '-'):
                depth -= 1
        if ch == sep and depth == 0:
            out.append(cur.strip())
            cur = ''
        else:
            cur += ch
        i += 1
    if cur.strip():
        out.append(cur.strip())
    return out


def parse_mir(txt):
    """-> list of Fn."""
    fns = []
    lines = txt.split('\n')
    i = 0
    while i < len(lines):
        l = lines[i]
        m = _FN.match(l) if l.startswith('fn ') else None
        if not m:
            i += 1
            continue
        header = l
        name = m.group(1)
        params = []
        for p in _split_top(m.group(2)):
            mm = re.match(r'(_\d+): (.*)$', p)
            if mm:
                params.append((mm.group(1), mm.group(2)))
        ret = m.group(3)
        blocks, locals_ = {}, {}
        i += 1
        cur = None
        while i < len(lines) and lines[i] != '}':
            s = lines[i]
            mm = re.match(r'^\s+let (?:mut )?(_\d+): (.*);$', s)
            if mm:
                locals_[mm.group(1)] = mm.group(2)
            mm = re.match(r'^    (bb\d+)( \(cleanup\))?: \{$', s)
            if mm:
                cur = mm.group(1)
                blocks[cur] = []
            elif cur is not None and s.startswith('        '):
                blocks[cur].append(s.strip())
            elif s == '    }':
                cur = None
            i += 1
        fns.append(Fn(header, name, params, ret, blocks, locals_))
        i += 1
    return fns


def parse_consts(txt):
    """`const NAME: TYPE = { bb0: {..} }` items (named constants and promoted ones) as zero-argument functions"""
    out = {}
    lines = txt.split('\n')
    i = 0
    while i < len(lines):
        m = re.match(r'^const (.+?): (.+?) = \{$', lines[i])
        if not m:
            i += 1
            continue
        blocks, cur = {}, None
        i += 1
        while i < len(lines) and lines[i] != '}':
            s_ = lines[i]
            mm = re.match(r'^    (bb\d+)( \(cleanup\))?: \{$', s_)
            if mm:
                cur = mm.group(1)
                blocks[cur] = []
            elif cur is not None and s_.startswith('        '):
                blocks[cur].append(s_.strip())
            elif s_ == '    }':
                cur = None
            i += 1
        out[m.group(1)] = Fn(lines[i - 1], m.group(1), [], m.group(2), blocks, {})
        i += 1
    return out


class Program:
    def __init__(self, txt):
        self.fns = parse_mir(txt)
        self.consts = parse_consts(txt)
        # simple named constants: `const NAME: TYPE = const VALUE;`
        self.simple_consts = {m.group(1): m.group(2) for m in re.finditer(r'^const ([\w:]+): [^=]+ = (const [^;]+);$', txt, re.M)}

    def find(self, name_suffix, first_param=None, nparams=None):
        """Unique function whose path ends with `::name_suffix` (or equals it) and whose first parameter type matches."""
        c = []
        for f in self.fns:
            if f.name == name_suffix or f.name.endswith('::' + name_suffix):
                if first_param is not None and (not f.params or norm_ty(f.params[0][1]) != norm_ty(first_param)):
                    continue
                if nparams is not None and len(f.params) != nparams:
                    continue
                c.append(f)
        if len(c) != 1:
            raise Unsupported('function %s(%s): %d candidates in MIR' % (name_suffix, first_param, len(c)))
        return c[0]

    def find_all(self, pred):
        return [f for f in self.fns if pred(f)]


def norm_ty(t):
    t = t.strip()
    t = re.sub(r"<'[^>]*>", '', t)
    t = re.sub(r"&'\w+ ", '&', t)
    t = re.sub(r'\b(?:\w+::)+', '', t)
    t = t.replace('&mut ', '&')
    return t.replace(' ', '')


# ------------------------------------------------------------------------------------------------------------
# Symbolic values
# ------------------------------------------------------------------------------------------------------------

class Obj:
    def __init__(self, path):
        self.path = path

    def __repr__(self):
        return 'Obj(%s)' % self.path


class Ctx:
    """Memoised symbolic heap: path -> leaf/aggregate. `binds` lets an oracle alias paths to other objects."""

    def __init__(self):
        self.memo = {}
        self.binds = {}

    def _leaf(self, path, ty):
        t = norm_ty(ty)
        if path in self.binds:
            return self.binds[path]
        if path in self.memo:
            return self.memo[path]
        if t in ('String', '&String', '&str', '&&str'):
            v = z3.String(path)
        elif t in ('usize', 'u32', 'u64', 'isize', 'i32', 'u8', 'i16'):
            v = z3.Int(path)
        elif t == 'bool':
            v = z3.Bool(path)
        elif t.startswith('(') and t.endswith(')') and ',' in t:
            comps = _split_top(ty.strip()[1:-1])
            v = ('tuple', [self._leaf('%s.%d' % (path, k), c) for k, c in enumerate(comps)])
        else:
            v = Obj(path)
        self.memo[path] = v
        return v

    def field(self, base, idx, ty):
        if isinstance(base, tuple) and base[0] == 'tuple':
            return base[1][idx]
        if isinstance(base, tuple) and base[0] == 'ovf':
            return base[1 + idx]
        if isinstance(base, tuple) and base[0] == 'some' and idx == 0:
            return base[1]
        if isinstance(base, tuple) and base[0] == 'struct':
            return base[2][idx]
        if not isinstance(base, Obj):
            raise Unsupported('field %d of %r' % (idx, base))
        return self._leaf('%s.%d' % (base.path, idx), ty)

    def downcast(self, base, variant):
        if isinstance(base, tuple) and base[0] == 'some':
            return base
        if not isinstance(base, Obj):
            raise Unsupported('downcast of %r' % (base,))
        p = '%s@%s' % (base.path, variant)
        if p in self.binds:
            return self.binds[p]
        return self.memo.setdefault(p, Obj(p))

    def disc(self, base):
        if isinstance(base, tuple) and base[0] == 'some':
            return z3.IntVal(1)
        if isinstance(base, tuple) and base[0] == 'none':
            return z3.IntVal(0)
        if not isinstance(base, Obj):
            raise Unsupported('discriminant of %r' % (base,))
        p = base.path + '#disc'
        if p in self.binds:
            return self.binds[p]
        return self.memo.setdefault(p, z3.Int(p))

    def length(self, base):
        if isinstance(base, Obj):
            p = base.path + '#len'
            return self.memo.setdefault(p, z3.Int(p))
        if isinstance(base, tuple) and base[0] == 'slice':
            return base[3] - base[2]
        raise Unsupported('length of %r' % (base,))


def mk_slice(base, lo, hi):
    if isinstance(base, tuple) and base[0] == 'slice':
        return ('slice', base[1], base[2] + lo, base[2] + hi)
    return ('slice', base, lo, hi)


def mk_elem(base, idx):
    if isinstance(base, tuple) and base[0] == 'slice':
        return ('elem', base[1], base[2] + idx)
    return ('elem', base, idx)


def decode_template(lit):
    """Compact format_args! template of this toolchain: 0xc0 = next argument, n<0x80 = n literal bytes, 0 = end."""
    b = eval('b"' + lit + '"')
    pieces, k = [], 0
    while k < len(b):
        c = b[k]
        if c == 0:
            break
        if c == 0xc0:
            pieces.append(('arg',))
            k += 1
        elif c < 0x80:
            pieces.append(('lit', b[k + 1:k + 1 + c].decode()))
            k += 1 + c
        else:
            raise Unsupported('template byte 0x%x (format spec other than plain {})' % c)
    return pieces


# ------------------------------------------------------------------------------------------------------------
# Interpreter
# ------------------------------------------------------------------------------------------------------------


_CALL = re.compile(r'^(_\d+|\(.*?\)) = (.*) -> \[return: (bb\d+)(?:, unwind[^\]]*)?\]$', re.S)


def split_call(st):
    """`dest = callee(args) -> [return: bbN, ...]` -> (dest, callee, args_text, bbN) or None. The argument list is the last
    balanced parenthesis group, so generic arguments such as `::<(usize, usize), ..>` stay in the callee."""
    m = _CALL.match(st)
    if not m:
        return None
    body = m.group(2).rstrip()
    if not body.endswith(')'):
        return None
    d = 0
    for k in range(len(body) - 1, -1, -1):
        if body[k] == ')':
            d += 1
        elif body[k] == '(':
            d -= 1
            if d == 0:
                return m.group(1), body[:k], body[k + 1:-1], m.group(3)
    return None


class Path:
    def __init__(self, pc, result, calls):
        self.pc, self.result, self.calls = pc, result, calls


class Interp:
    def __init__(self, prog, ctx=None, inline=None, opaque=None, max_paths=4096):
        self.prog = prog
        self.ctx = ctx or Ctx()
        self.inline = inline or {}     # call-name regex -> Fn   (crate functions to inline)
        self.opaque = opaque or []     # call-name regexes recorded as events and given a fresh result
        self.max_paths = max_paths
        self.fresh = 0

    # -- places -----------------------------------------------------------------------------------------
    def place(self, s, env):
        s = s.strip()
        m = re.match(r'^(.*)\[(_\d+)\]$', s)
        if m and self._balanced(m.group(1)):
            return mk_elem(self.place(m.group(1), env), env[m.group(2)])
        if re.match(r'^_\d+$', s):
            if s not in env:
                raise Unsupported('read of unset local ' + s)
            return env[s]
        if s.startswith('(') and self._match(s, 0) == len(s) - 1:
            inner = s[1:-1].strip()
            if inner.startswith('*'):
                return self.place(inner[1:], env)
            if inner.startswith('('):
                e = self._match(inner, 0)
                head, rest = inner[:e + 1], inner[e + 1:]
            else:
                m = re.match(r'^(_\d+)(.*)$', inner, re.S)
                if not m:
                    raise Unsupported('place ' + s)
                head, rest = m.group(1), m.group(2)
            base = self.place(head, env)
            m = re.match(r'^ as (\w+)$', rest)
            if m:
                return self.ctx.downcast(base, m.group(1))
            m = re.match(r'^\.(\d+): (.*)$', rest, re.S)
            if m:
                return self.ctx.field(base, int(m.group(1)), m.group(2))
            raise Unsupported('place ' + s)
        if s.startswith('*'):
            return self.place(s[1:], env)
        raise Unsupported('place ' + s)

    @staticmethod
    def _match(s, i):
        d = 0
        for k in range(i, len(s)):
            if s[k] == '(':
                d += 1
            elif s[k] == ')':
                d -= 1
                if d == 0:
                    return k
        return -1

    def _balanced(self, s):
        return s.count('(') == s.count(')') and s.count('[') == s.count(']')

    def operand(self, s, env):
        s = s.strip()
        for pre in ('no_retag copy ', 'copy ', 'move ', '&mut ', '&raw const ', '&'):
            if s.startswith(pre):
                return self.operand(s[len(pre):], env)
        m = re.match(r'^const (-?\d+)_(?:usize|u32|u64|isize|i32|u8|i16|i64|u16)$', s)
        if m:
            return z3.IntVal(int(m.group(1)))
        if s == 'const true':
            return z3.BoolVal(True)
        if s == 'const false':
            return z3.BoolVal(False)
        m = re.match(r'^const "(.*)"$', s, re.S)
        if m:
            return ('str', eval('"' + m.group(1).replace('"', '\\"') + '"') if '\\' in m.group(1) else m.group(1))
        m = re.match(r'^const b"(.*)"$', s, re.S)
        if m:
            return ('tmpl', decode_template(m.group(1)))
        if s.startswith('const ZeroSized') or s == 'const ()':
            return ('unit',)
        m = re.match(r'^const ((?:\w+::)*[A-Z][A-Z0-9_]*)$', s)
        if m:
            name = m.group(1)
            c = [f for n, f in self.prog.consts.items() if n == name or n.endswith('::' + name.split('::')[-1]) and name.split('::')[-1] == n.split('::')[-1]]
            if len(c) == 1:
                ps = Interp(self.prog, self.ctx).run(c[0], [])
                if len(ps) == 1:
                    return ps[0].result
            sc = [v for n, v in self.prog.simple_consts.items() if n.split('::')[-1] == name.split('::')[-1]]
            if len(sc) == 1:
                return self.operand(sc[0], env)
            raise Unsupported('named constant ' + name)
        if s.startswith('const '):
            raise Unsupported('constant ' + s)
        return self.place(s, env)

    # -- rvalues ----------------------------------------------------------------------------------------
    def rvalue(self, s, env):
        s = s.strip()
        m = re.match(r'^discriminant\((.*)\)$', s)
        if m:
            return self.ctx.disc(self.place(m.group(1), env))
        m = re.match(r'^PtrMetadata\((.*)\)$', s)
        if m:
            return self.ctx.length(self.operand(m.group(1), env))
        m = re.match(r'^(SubWithOverflow|AddWithOverflow)\((.*)\)$', s)
        if m:
            a, b = [self.operand(x, env) for x in _split_top(m.group(2))]
            if m.group(1) == 'SubWithOverflow':
                return ('ovf', a - b, a < b)
            return ('ovf', a + b, z3.BoolVal(False))
        m = re.match(r'^(Lt|Le|Gt|Ge|Eq|Ne|Add|Sub)\((.*)\)$', s)
        if m:
            a, b = [self.operand(x, env) for x in _split_top(m.group(2))]
            return {'Lt': a < b, 'Le': a <= b, 'Gt': a > b, 'Ge': a >= b, 'Eq': a == b, 'Ne': a != b,
                    'Add': a + b, 'Sub': a - b}[m.group(1)]
        m = re.match(r'^Not\((.*)\)$', s)
        if m:
            return z3.Not(self.operand(m.group(1), env))
        m = re.match(r'^std::option::Option::<.*>::Some\((.*)\)$', s)
        if m:
            return ('some', self.operand(m.group(1), env))
        if re.match(r'^std::option::Option::<.*>::None$', s):
            return ('none',)
        m = re.match(r'^(?:std::ops::)?RangeTo::<usize> \{ end: (.*) \}$', s)
        if m:
            return ('range', z3.IntVal(0), self.operand(m.group(1), env))
        m = re.match(r'^(?:std::ops::)?RangeFrom::<usize> \{ start: (.*) \}$', s)
        if m:
            return ('rangefrom', self.operand(m.group(1), env))
        m = re.match(r'^std::ops::Range::<usize> \{ start: (.*), end: (.*) \}$', s)
        if m:
            return ('range', self.operand(m.group(1), env), self.operand(m.group(2), env))
        m = re.match(r'^\[(.*)\]$', s)
        if m:
            return ('tuple', [self.operand(x, env) for x in _split_top(m.group(1))])
        m = re.match(r'^\((.*)\)$', s, re.S)
        if m and self._match(s, 0) == len(s) - 1 and (',' in m.group(1)) and not re.match(r'^\(\*', s) \
                and not re.search(r'\): [^)]*$', s) and ' as ' not in s.split(',')[0][:3]:
            parts = _split_top(m.group(1))
            try:
                return ('tuple', [self.operand(x, env) for x in parts])
            except Unsupported:
                pass
        m = re.match(r'^\{closure@[^}]*\}(?: \{(.*)\})?$', s)
        if m:
            return ('closure', s)
        m = re.match(r'^([\w:<>]+) \{ (.*) \}$', s)
        if m:
            fields = []
            for fld in _split_top(m.group(2)):
                k, v = fld.split(': ', 1)
                fields.append(self.operand(v, env))
            return ('struct', m.group(1), fields)
        if re.match(r'^[A-Za-z_][\w]*(?:::[A-Za-z_]\w*)*::[A-Z]\w*$', s) or re.match(r'^[A-Z]\w*::[A-Z]\w*$', s):
            return ('variant', s)
        return self.operand(s, env)

    # -- calls ------------------------------------------------------------------------------------------
    def call(self, fname, args, env, pc, calls):
        """Returns list of (pc, value) continuations."""
        a = [self.operand(x, env) for x in args]
        n = fname
        if re.search(r'<String as Clone>::clone$|<Option<String> as Clone>::clone$|<std::option::Option<String> as Clone>::clone$', n):
            return [(pc, a[0])]
        if re.search(r'must_use::<String>$|<String as Deref>::deref$|String::as_str$|<str as ToOwned>::to_owned$|'
                     r'<String as From<&str>>::from$|<&str as Into<String>>::into$|<str as ToString>::to_string$', n):
            return [(pc, a[0])]
        if n.endswith('String::is_empty'):
            return [(pc, z3.Length(tostr(a[0])) == 0)]
        if n.endswith('String::new'):
            return [(pc, ('fmt', [], []))]
        if re.search(r'Argument::<.*>::new_display::<.*>$', n):
            return [(pc, a[0])]
        if re.search(r'Arguments::<.*>::new::<\d+, \d+>$', n):
            if not (isinstance(a[0], tuple) and a[0][0] == 'tmpl'):
                raise Unsupported('format template is not a literal')
            return [(pc, ('fmtargs', a[0][1], a[1][1]))]
        if re.search(r'Arguments::<.*>::from_str', n) or re.search(r'Arguments::<.*>::new_const', n):
            raise Unsupported('format template constructor ' + n)
        if n == 'format' or n.endswith('fmt::format'):
            return [(pc, ('fmt', a[0][1], a[0][2]))]
        if re.search(r'<.* as ToString>::to_string$', n) and not (z3.is_expr(a[0]) and a[0].sort() == z3.StringSort()) and not (isinstance(a[0], tuple) and a[0][0] == 'str'):
            self.fresh += 1
            return [(pc, z3.String('display%d' % self.fresh))]
        if re.search(r'(^|::)String::len$|str::<impl str>::len$|(^|::)str::len$', n):
            sv = tostr(a[0])
            return [(pc, z3.Int('bytelen(%s)' % sv))]
        if re.search(r'<(String|str) as Index<(std::ops::)?Range(To|From|Inclusive)?<usize>>>::index$', n):
            sv = tostr(a[0])
            ln = z3.Int('bytelen(%s)' % sv)
            if a[1][0] == 'rangefrom':
                lo, hi = a[1][1], ln
            else:
                _, lo, hi = a[1]
            self.fresh += 1
            ok = (pc + [ln >= 0, lo <= hi, hi <= ln], z3.String('substr%d' % self.fresh))
            # str slicing panics when an end point is not on a character boundary: for an arbitrary string that is possible for every
            # end point strictly inside the string
            inside = z3.Or(z3.And(lo > 0, lo < ln), z3.And(hi > 0, hi < ln), hi > ln, lo > hi)
            return [ok, (pc + [ln >= 0, inside], ('panic', 'str slice `[%s..%s]` of a string that is not known to have a character boundary there' % (lo, hi)))]
        if re.search(r'<usize as Ord>::(min|max)$|cmp::(min|max)::<usize>$', n):
            return [(pc, z3.If(a[0] < a[1], a[0], a[1]) if 'min' in n.split('::')[-1] or n.endswith('min') else z3.If(a[0] > a[1], a[0], a[1]))]
        if re.search(r'<\[String\] as Index<(std::ops::)?Range(To|From)?<usize>>>::index$', n):
            ln = self.ctx.length(a[0])
            if a[1][0] == 'rangefrom':
                lo, hi = a[1][1], ln
            else:
                _, lo, hi = a[1]
            # out-of-range slicing panics
            out = [(pc + [lo <= hi, hi <= ln], mk_slice(a[0], lo, hi))]
            return out
        if re.search(r'<impl \[String\]>::join::<&str>$', n):
            return [(pc, ('join', a[0], a[1]))]
        for pat, fn in self.inline.items():
            if re.search(pat, n):
                sub = Interp(self.prog, self.ctx, self.inline, self.opaque, self.max_paths)
                sub.fresh = self.fresh
                paths = sub.run(fn, a, pc)
                out = []
                for p in paths:
                    calls.extend(c for c in p.calls if c not in calls)
                    out.append((p.pc, p.result))
                return out
        for pat in self.opaque:
            if re.search(pat, n):
                calls.append(n)
                return [(pc, ('call', n, a))]
        # any other function of the crate: inline it (panic paths propagate)
        cname = re.sub(r'::<[^(]*>$', '', n)
        cands = [f for f in self.prog.fns if (f.name == cname or f.name.endswith('::' + cname)) and '::verif::' not in f.name and '{closure' not in f.name]
        if len(cands) == 1 and re.match(r'^[a-z_][\w:]*$', cname):
            sub = Interp(self.prog, self.ctx, self.inline, self.opaque, self.max_paths)
            sub.fresh = self.fresh + 100
            try:
                return [(p.pc, p.result) for p in sub.run(cands[0], a, pc)]
            except Unsupported:
                if not getattr(self, 'opaque_on_failure', False):
                    raise
                # the body is outside the interpreted subset: keep the call as an uninterpreted application of its arguments
                calls.append(n)
                self.fresh += 1
                return [(pc, Obj('opaque%d:%s' % (self.fresh, cname.split('::')[-1])))]
        if getattr(self, 'opaque_on_failure', False):
            # a std / foreign function without a model (bool::then, Option::filter ...): an uninterpreted application as well; whatever
            # obligation needs to look through it fails on it, nothing is concluded from it
            calls.append(n)
            self.fresh += 1
            return [(pc, Obj('opaque%d:%s' % (self.fresh, cname.split('::')[-1])))]
        raise Unsupported('call to ' + n)

    # -- driver -----------------------------------------------------------------------------------------
    def run(self, fn, args, pc0=None):
        env0 = {}
        if len(args) != len(fn.params):
            raise Unsupported('arity of %s' % fn.name)
        for (p, _), v in zip(fn.params, args):
            env0[p] = v
        paths = []
        work = [('bb0', env0, list(pc0 or []), [])]
        while work:
            bb, env, pc, calls = work.pop()
            if len(paths) + len(work) > self.max_paths:
                raise Unsupported('path explosion in ' + fn.name)
            for st in fn.blocks[bb]:
                st = st.rstrip(';')
                if st.startswith(('StorageLive', 'StorageDead', 'nop', 'FakeRead', 'PlaceMention', 'Retag', 'ConstEvalCounter', 'Coverage')):
                    continue
                if st == 'return':
                    paths.append(Path(pc, env.get('_0'), calls))
                    break
                if st == 'unreachable':
                    break
                if st.startswith('resume') or st.startswith('unwind'):
                    break
                m = re.match(r'^goto -> (bb\d+)$', st)
                if m:
                    work.append((m.group(1), env, pc, calls))
                    break
                m = re.match(r'^drop\(.*\) -> \[return: (bb\d+)', st)
                if m:
                    work.append((m.group(1), env, pc, calls))
                    break
                m = re.match(r'^switchInt\((.*)\) -> \[(.*)\]$', st)
                if m:
                    v = self.operand(m.group(1), env)
                    arms = re.findall(r'(-?\d+): (bb\d+)', m.group(2))
                    other = re.search(r'otherwise: (bb\d+)', m.group(2)).group(1)
                    isbool = z3.is_bool(v)
                    neg = []
                    for c, t in arms:
                        c = int(c)
                        cond = (z3.Not(v) if c == 0 else v) if isbool else (v == c)
                        if self.feasible(pc + [cond]):
                            work.append((t, dict(env), pc + [cond], list(calls)))
                        neg.append(z3.Not(cond))
                    if self.feasible(pc + neg):
                        work.append((other, dict(env), pc + neg, list(calls)))
                    break
                m = re.match(r'^assert\((!?)(.*?), ".*\) -> \[success: (bb\d+)', st, re.S)
                if m:
                    v = self.operand(m.group(2), env)
                    cond = z3.Not(v) if m.group(1) else v
                    # the failing branch is a panic: record it as a path with result ('panic', text)
                    if self.feasible(pc + [z3.Not(cond)]):
                        paths.append(Path(pc + [z3.Not(cond)], ('panic', st[:120]), calls))
                    work.append((m.group(3), env, pc + [cond], calls))
                    break
                sc = split_call(st)
                if sc:
                    for (npc, val) in self.call(sc[1], _split_top(sc[2]), env, pc, calls):
                        if isinstance(val, tuple) and val and val[0] == 'panic':
                            if self.feasible(npc):
                                paths.append(Path(npc, val, list(calls)))
                            continue
                        e2 = dict(env)
                        self.assign(sc[0], val, e2)
                        work.append((sc[3], e2, npc, list(calls)))
                    break
                m = re.match(r'^(_\d+|\(.*?\)) = (.*)$', st, re.S)
                if m:
                    self.assign(m.group(1), self.rvalue(m.group(2), env), env)
                    continue
                raise Unsupported('statement: ' + st[:160])
        return paths

    def assign(self, lhs, val, env):
        if re.match(r'^_\d+$', lhs):
            env[lhs] = val
            return
        m = re.match(r'^\((_\d+)\.(\d+): .*\)$', lhs)
        if m:
            base = env.get(m.group(1))
            idx = int(m.group(2))
            if not (isinstance(base, tuple) and base[0] == 'tuple'):
                base = ('tuple', [None] * 8)
            lst = list(base[1])
            while len(lst) <= idx:
                lst.append(None)
            lst[idx] = val
            env[m.group(1)] = ('tuple', lst)
            return
        raise Unsupported('assignment target ' + lhs)

    def feasible(self, pc):
        s = z3.Solver()
        s.set('timeout', 20000)
        s.add(*pc)
        return s.check() != z3.unsat


def tostr(v):
    """z3 String term of a value."""
    if isinstance(v, tuple):
        if v[0] == 'str':
            return z3.StringVal(v[1])
        if v[0] == 'fmt':
            return fmt_to_z3(v)
    if z3.is_expr(v) and v.sort() == z3.StringSort():
        return v
    raise Unsupported('not a string: %r' % (v,))


def fmt_to_z3(v):
    _, pieces, args = v
    parts, k = [], 0
    for p in pieces:
        if p[0] == 'lit':
            parts.append(z3.StringVal(p[1]))
        else:
            parts.append(tostr(args[k]))
            k += 1
    if k != len(args):
        raise Unsupported('format arguments/template mismatch')
    if not parts:
        return z3.StringVal('')
    if len(parts) == 1:
        return parts[0]
    return z3.Concat(*parts)


# ------------------------------------------------------------------------------------------------------------
# Source-side layout: field and variant indices of the crate's types (declaration order = MIR index)
# ------------------------------------------------------------------------------------------------------------

def _matching_brace(src, i):
    d = 0
    for k in range(i, len(src)):
        if src[k] == '{':
            d += 1
        elif src[k] == '}':
            d -= 1
            if d == 0:
                return k
    return -1


def layouts():
    """field names of every struct and variant names of every enum declared anywhere in src/*.rs (top level or inside a function),
    in declaration order (= MIR field / discriminant index)"""
    structs, enums = {}, {}
    import glob
    files = ['src/ast.rs', 'src/symbol.rs', 'src/diagnostic.rs'] + sorted(os.path.relpath(f, REPO) for f in glob.glob(os.path.join(REPO, 'src', '*.rs')))
    seen = set()
    for rel in files:
        if rel in seen:
            continue
        seen.add(rel)
        try:
            src = open(os.path.join(REPO, rel)).read()
        except OSError:
            continue
        src = re.sub(r'//[^\n]*', '', src)
        for m in re.finditer(r'\b(struct|enum) (\w+)(?:<[^>{;]*>)?\s*(?:where[^{]*)?\{', src):
            e = _matching_brace(src, m.end() - 1)
            if e < 0:
                continue
            body = re.sub(r'#\[[^\]]*\]', '', src[m.end():e])
            if m.group(1) == 'struct':
                if m.group(2) not in structs:
                    structs[m.group(2)] = [re.match(r'\s*(?:pub(?:\([^)]*\))? )?(\w+)\s*:', f).group(1) for f in _split_top(body) if re.match(r'\s*(?:pub(?:\([^)]*\))? )?(\w+)\s*:', f)]
            else:
                names = []
                for v in _split_top(body):
                    mm = re.match(r'\s*(\w+)', v)
                    if mm:
                        names.append(mm.group(1))
                if m.group(2) not in enums:
                    enums[m.group(2)] = names
    return structs, enums


# ------------------------------------------------------------------------------------------------------------
# Light CFG explorer: event order along every non-unwinding path, with discriminant switches as z3 constraints
# ------------------------------------------------------------------------------------------------------------

def cfg_paths(fn, max_paths=20000):
    """Enumerates the non-cleanup paths of a loop-free MIR body.
    Returns [(pc, events)] where events = [(block, callee, args_text, dest)] in execution order and pc is a list of z3
    constraints over Int('disc:<place text>') (switches on discriminants), Bool/Int('sw:<bb>') (other switches)."""
    out = []
    work = [('bb0', {}, [], [], frozenset())]
    while work:
        bb, env, pc, ev, seen = work.pop()
        if bb in seen:
            raise Unsupported('loop in CFG of %s at %s' % (fn.name, bb))
        seen = seen | {bb}
        if len(out) + len(work) > max_paths:
            raise Unsupported('path explosion in CFG of ' + fn.name)
        env = dict(env)
        ev = list(ev)
        for st in fn.blocks[bb]:
            st = st.rstrip(';')
            if st == 'return':
                out.append((pc, ev))
                break
            if st in ('unreachable', 'resume') or st.startswith('unwind'):
                break
            m = re.match(r'^goto -> (bb\d+)$', st)
            if m:
                work.append((m.group(1), env, pc, ev, seen)); break
            m = re.match(r'^drop\(.*\) -> \[return: (bb\d+)', st)
            if m:
                work.append((m.group(1), env, pc, ev, seen)); break
            m = re.match(r'^assert\(.*\) -> \[success: (bb\d+)', st, re.S)
            if m:
                work.append((m.group(1), env, pc, ev, seen)); break
            m = re.match(r'^switchInt\((?:move |copy )?(.*)\) -> \[(.*)\]$', st)
            if m:
                v = env.get(m.group(1))
                arms = [(int(c), t) for c, t in re.findall(r'(-?\d+): (bb\d+)', m.group(2))]
                other = re.search(r'otherwise: (bb\d+)', m.group(2)).group(1)
                if isinstance(v, int):
                    tgt = dict(arms).get(v, other)
                    work.append((tgt, env, pc, ev, seen)); break
                if isinstance(v, tuple) and v[0] == 'disc':
                    var = z3.Int('disc:' + v[1])
                else:
                    var = z3.Int('sw:%s:%s' % (bb, m.group(1)))
                neg = []
                for c, t in arms:
                    work.append((t, env, pc + [var == c], ev, seen)); neg.append(var != c)
                work.append((other, env, pc + neg, ev, seen))
                break
            sc = split_call(st)
            if sc:
                ev.append((bb, sc[1], sc[2], sc[0]))
                env.pop(sc[0], None)
                work.append((sc[3], env, pc, ev, seen)); break
            m = re.match(r'^(_\d+) = const (true|false)$', st)
            if m:
                env[m.group(1)] = 1 if m.group(2) == 'true' else 0; continue
            m = re.match(r'^(_\d+) = discriminant\((.*)\)$', st)
            if m:
                env[m.group(1)] = ('disc', m.group(2)); continue
            m = re.match(r'^(_\d+) = (?:move |copy )(_\d+)$', st)
            if m:
                if m.group(2) in env:
                    env[m.group(1)] = env[m.group(2)]
                else:
                    env.pop(m.group(1), None)
                ev.append((bb, '=', st, m.group(1)))
                continue
            m = re.match(r'^(_\d+) = ', st)
            if m:
                env.pop(m.group(1), None)
                ev.append((bb, '=', st, m.group(1)))
    return out
