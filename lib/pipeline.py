"""Order of the validation steps, decided on the MIR CFG of validate's per-file closure (engine M, lib/mir.cfg_paths)."""
import re

import z3

import mir

_cache = {}


def closure_paths():
    if 'p' not in _cache:
        prog = mir.Program(mir.dump_mir())
        cl = [f for f in prog.fns if re.search(r'(^|::)validate::\{closure#0\}$', f.name)]
        if len(cl) != 1:
            raise mir.Unsupported('validate closure: %d candidates' % len(cl))
        _cache['p'] = mir.cfg_paths(cl[0])
    return _cache['p']


def order_obligations(run, steps):
    """On every feasible path of the closure that calls the last step, the earlier steps are called before it, in order
    (a step guarded by `if let Item::Interface` may only be skipped on paths whose item is not an interface)."""
    try:
        paths = closure_paths()
    except (mir.Unsupported, RuntimeError) as e:
        run.inconclusive('pipeline order %s' % ' -> '.join(steps), 'M', str(e))
        return
    _, enums = mir.layouts()
    iface = enums['Item'].index('Interface')
    bad, nq, reached = [], 0, 0
    for pc, ev in paths:
        names = [c.split('::')[-1] for (_, c, _, _) in ev if c.startswith('validation::')]
        if steps[-1] not in names:
            continue
        s = z3.Solver(); s.add(*pc); nq += 1
        if s.check() != z3.sat:
            continue
        reached += 1
        idx = []
        missing = None
        for st in steps:
            if st in names:
                idx.append(names.index(st))
            else:
                missing = st
        if missing:
            # allowed only if the path condition excludes an interface item
            disc = [v for v in _vars(pc) if str(v).startswith('disc:') and 'Item' in str(v)]
            s2 = z3.Solver(); s2.add(*pc); nq += 1
            for v in disc:
                s2.add(v == iface)
            if not disc or s2.check() == z3.sat:
                bad.append('step %s skipped on a path where the item may be an interface: %s' % (missing, names))
        elif idx != sorted(idx):
            bad.append('steps out of order: %s' % names)
    title = 'validate runs %s in this order on every path' % ' -> '.join(steps)
    if not reached:
        run.inconclusive(title, 'M', 'no feasible path calls ' + steps[-1])
    elif bad:
        run.violated(title, 'M', 'pipeline-order:' + '>'.join(steps), {'detail': bad[:3]}, True, queries=nq, detail=bad[0])
    else:
        run.holds(title, 'M', queries=nq, bound='all %d CFG paths of the closure' % len(paths))


def _vars(pc):
    out = set()
    for c in pc:
        for v in _walk(c):
            out.add(v)
    return out


def _walk(e):
    if z3.is_const(e) and e.decl().kind() == z3.Z3_OP_UNINTERPRETED:
        yield e
    for ch in e.children():
        for x in _walk(ch):
            yield x


def per_method_obligation(run):
    """check_methods hands every method it walks to check_method, on every path of its per-method closure (so that a duplicated
    name, a transact-code problem or any early return cannot make a method escape the oneway/return-type/direction rules)."""
    try:
        prog = mir.Program(mir.dump_mir())
        cl = [f for f in prog.fns if re.search(r'(^|::)check_methods::\{closure#0\}$', f.name)]
        if len(cl) != 1:
            raise mir.Unsupported('check_methods closure: %d candidates' % len(cl))
        paths = mir.cfg_paths(cl[0])
        outer = [f for f in prog.fns if re.search(r'(^|::)validation::check_methods$', f.name) or f.name == 'check_methods']
        walk_ok = any(re.search(r'walk_methods::<', st) for f in outer for b in f.blocks.values() for st in b)
    except (mir.Unsupported, RuntimeError) as e:
        run.inconclusive('check_methods calls check_method for every method', 'M', str(e))
        return
    bad, nq, n = [], 0, 0
    for pc, ev in paths:
        s = z3.Solver(); s.add(*pc); nq += 1
        if s.check() != z3.sat:
            continue
        n += 1
        calls = [(c, a) for (_b, c, a, _d) in ev if c != '=']
        hit = [i for i, (c, a) in enumerate(calls) if re.search(r'(^|::)check_method$', c) and re.match(r'^(copy|move) _2\b', a.strip())]
        if not hit:
            bad.append('a path of the per-method closure returns without calling check_method on its method (calls: %s)' % [c.split('::')[-1][:24] for c, _ in calls][:8])
    title = 'check_methods walks the methods with walk_methods and calls check_method on each, on every path of its per-method closure'
    if not walk_ok:
        run.inconclusive(title, 'M', 'check_methods does not call walk_methods')
    elif not n:
        run.inconclusive(title, 'M', 'no feasible path')
    elif bad:
        import native
        n2, nb = native.sweep_c10()
        rep = any('same-name' in str(b) for b in nb)
        run.violated(title, 'M', 'check_methods-skips-check_method', {'detail': bad[:2], 'native': [b for b in nb if 'same-name' in str(b)][:2]}, rep, queries=nq, detail=bad[0][:300])
    else:
        run.holds(title, 'M', queries=nq, bound='all %d feasible CFG paths of check_methods::{closure#0}' % n)


def scope_facts(prog):
    """Data flow inside validate's per-file closure (engine M, every feasible CFG path that reaches resolve_types):
      resolve_types(&mut ast, &I, &D, key map, diags)   with I = ast.imports.iter().map(|i| i.get_qualified_name()).collect::<HashSet>()
                                                         and  D = the same over ast.declared_parcelables, neither touched in between;
      check_imports(&ast.imports, &resolved, key map, diags); check_declared_parcelables(&ast.declared_parcelables, &import map, &resolved, diags).
    -> (ok, feasible paths, list of problems)"""
    structs, _enums = mir.layouts()
    fi, fd = structs['Aidl'].index('imports'), structs['Aidl'].index('declared_parcelables')
    cl = [f for f in prog.fns if re.search(r'(^|::)validate::\{closure#0\}$', f.name)]
    if len(cl) != 1:
        raise mir.Unsupported('validate closure: %d candidates' % len(cl))
    bad, n = [], 0
    for pc, ev in mir.cfg_paths(cl[0]):
        s = z3.Solver(); s.add(*pc)
        if s.check() != z3.sat:
            continue
        calls = [(c, a, d) for (_b, c, a, d) in ev if c != '=']
        rt = [x for x in calls if re.search(r'(^|::)resolve_types$', x[0])]
        if not rt:
            continue
        n += 1
        defs = {}
        for (_b, c, a, d) in ev:
            defs.setdefault(d, []).append((c, a))

        def single(l):
            v = defs.get(l, [])
            return v[0] if len(v) == 1 else None

        def through(l, depth=0):
            """follow plain copies / shared borrows back to the defining call or place"""
            v = single(l)
            if v is None or depth > 10:
                return l, None
            c, a = v
            if c == '=':
                m = re.match(r'^_\d+ = (?:&|copy |move |no_retag copy )(_\d+)$', a)
                if m:
                    return through(m.group(1), depth + 1)
                return l, ('=', a)
            return l, (c, a)

        def name_set(arg, field, what):
            l, d = through(arg.split()[-1])
            if not d or 'Iterator>::collect::<std::collections::HashSet<String>>' not in d[0] and 'Iterator>::collect::<HashSet<String>>' not in d[0]:
                bad.append('%s handed to resolve_types is not a freshly collected HashSet<String> (%s)' % (what, (d or ('?',))[0][-50:])); return None
            if any(re.search(r'&mut %s\b' % l, a) for (_b, c, a, _d) in ev if c == '='):
                bad.append('%s is modified after being collected' % what)
            _l2, d2 = through(d[1].split()[-1])
            if not d2 or 'Iterator>::map::<String' not in d2[0]:
                bad.append('%s is not a map over the statements (%s)' % (what, (d2 or ('?',))[0][-50:])); return None
            src = mir._split_top(d2[1])[0].split()[-1]
            kclo = re.search(r'\{closure@([^}]*)\}', d2[0])
            _l3, d3 = through(src)
            if not d3 or not re.search(r'<impl \[Import\]>::iter$', d3[0]):
                bad.append('%s does not iterate a slice of Import' % what); return None
            _l4, d4 = through(d3[1].split()[-1])
            if not d4 or 'Deref>::deref' not in d4[0]:
                bad.append('%s: unexpected source %s' % (what, (d4 or ('?',))[0][-40:])); return None
            _l5, d5 = through(d4[1].split()[-1])
            m = re.search(r'= &\((_\d+)\.(\d+): std::vec::Vec<ast::Import>\)', d5[1]) if d5 and d5[0] == '=' else None
            if not m or int(m.group(2)) != field:
                bad.append('%s is not collected from the file\'s own field #%d' % (what, field)); return None
            kf = [f for f in prog.fns if kclo and ('{closure@%s}' % kclo.group(1)) in (f.params[0][1] if f.params else '')]
            body = ' '.join(' '.join(b) for f in kf for b in f.blocks.values())
            if not re.search(r'_0 = (?:ast::)?Import::get_qualified_name\(copy _2\)', body):
                bad.append('%s: the mapping closure is not |i| i.get_qualified_name()' % what)
            return m.group(1)
        a = mir._split_top(rt[0][1])
        ast_i = name_set(a[1], fi, 'the import set')
        ast_d = name_set(a[2], fd, 'the forward-declaration set')
        l0, d0 = through(a[0].split()[-1])
        m0 = re.search(r'= &mut (_\d+)$', d0[1]) if d0 and d0[0] == '=' else None
        if ast_i and ast_d and (not m0 or not (m0.group(1) == ast_i == ast_d)):
            bad.append('the sets are not collected from the tree that is being resolved')
        ci = [x for x in calls if re.search(r'(^|::)check_imports$', x[0])]
        cd = [x for x in calls if re.search(r'(^|::)check_declared_parcelables$', x[0])]
        if len(ci) != 1 or len(cd) != 1:
            bad.append('check_imports / check_declared_parcelables are not called exactly once after resolve_types'); continue

        def field_of(arg):
            _l, d = through(arg.split()[-1])
            if d and 'Deref>::deref' in d[0]:
                _l, d = through(d[1].split()[-1])
            m = re.search(r'= &\((_\d+)\.(\d+): std::vec::Vec<ast::Import>\)', d[1]) if d and d[0] == '=' else None
            return (m.group(1), int(m.group(2))) if m else None
        ai, ad = mir._split_top(ci[0][1]), mir._split_top(cd[0][1])
        if ast_i is None:
            continue
        if field_of(ai[0]) != (ast_i, fi):
            bad.append('check_imports does not receive the file\'s own imports')
        if field_of(ad[0]) != (ast_i, fd):
            bad.append('check_declared_parcelables does not receive the file\'s own forward declarations')
        if through(ai[1].split()[-1])[0] != rt[0][2] or through(ad[2].split()[-1])[0] != rt[0][2]:
            bad.append('the resolved set handed to the import / declaration checks is not the one resolve_types returned')
        if through(ad[1].split()[-1])[0] != ci[0][2]:
            bad.append('the import map handed to check_declared_parcelables is not the one check_imports returned')
    return (not bad and n > 0), n, sorted(set(bad)) or (['no feasible path reaches resolve_types'] if not n else [])
