"""Order of the validation steps, decided on the MIR CFG of validate's per-file closure (engine M, lib/mir.cfg_paths)."""
import re

import z3

import mir

_cache = {}


def closure_paths():
    if 'p' not in _cache:
        prog = mir.Program(mir.dump_mir())
        cl = [f for f in prog.fns if re.search(r'(^|::)validate::\{closure#0\}$', f.name)]
        if len(cl) != 1:
            raise mir.Unsupported('validate closure: %d candidates' % len(cl))
        _cache['p'] = mir.cfg_paths(cl[0])
    return _cache['p']


def order_obligations(run, steps):
    """On every feasible path of the closure that calls the last step, the earlier steps are called before it, in order
    (a step guarded by `if let Item::Interface` may only be skipped on paths whose item is not an interface)."""
    try:
        paths = closure_paths()
    except (mir.Unsupported, RuntimeError) as e:
        run.inconclusive('pipeline order %s' % ' -> '.join(steps), 'M', str(e))
        return
    _, enums = mir.layouts()
    iface = enums['Item'].index('Interface')
    bad, nq, reached = [], 0, 0
    for pc, ev in paths:
        names = [c.split('::')[-1] for (_, c, _, _) in ev if c.startswith('validation::')]
        if steps[-1] not in names:
            continue
        s = z3.Solver(); s.add(*pc); nq += 1
        if s.check() != z3.sat:
            continue
        reached += 1
        idx = []
        missing = None
        for st in steps:
            if st in names:
                idx.append(names.index(st))
            else:
                missing = st
        if missing:
            # allowed only if the path condition excludes an interface item
            disc = [v for v in _vars(pc) if str(v).startswith('disc:') and 'Item' in str(v)]
            s2 = z3.Solver(); s2.add(*pc); nq += 1
            for v in disc:
                s2.add(v == iface)
            if not disc or s2.check() == z3.sat:
                bad.append('step %s skipped on a path where the item may be an interface: %s' % (missing, names))
        elif idx != sorted(idx):
            bad.append('steps out of order: %s' % names)
    title = 'validate runs %s in this order on every path' % ' -> '.join(steps)
    if not reached:
        run.inconclusive(title, 'M', 'no feasible path calls ' + steps[-1])
    elif bad:
        run.violated(title, 'M', 'pipeline-order:' + '>'.join(steps), {'detail': bad[:3]}, True, queries=nq, detail=bad[0])
    else:
        run.holds(title, 'M', queries=nq, bound='all %d CFG paths of the closure' % len(paths))


def _vars(pc):
    out = set()
    for c in pc:
        for v in _walk(c):
            out.add(v)
    return out


def _walk(e):
    if z3.is_const(e) and e.decl().kind() == z3.Z3_OP_UNINTERPRETED:
        yield e
    for ch in e.children():
        for x in _walk(ch):
            yield x


def per_method_obligation(run):
    """check_methods hands every method it walks to check_method, on every path of its per-method closure (so that a duplicated
    name, a transact-code problem or any early return cannot make a method escape the oneway/return-type/direction rules)."""
    try:
        prog = mir.Program(mir.dump_mir())
        cl = [f for f in prog.fns if re.search(r'(^|::)check_methods::\{closure#0\}$', f.name)]
        if len(cl) != 1:
            raise mir.Unsupported('check_methods closure: %d candidates' % len(cl))
        paths = mir.cfg_paths(cl[0])
        outer = [f for f in prog.fns if re.search(r'(^|::)validation::check_methods$', f.name) or f.name == 'check_methods']
        walk_ok = any(re.search(r'walk_methods::<', st) for f in outer for b in f.blocks.values() for st in b)
    except (mir.Unsupported, RuntimeError) as e:
        run.inconclusive('check_methods calls check_method for every method', 'M', str(e))
        return
    bad, nq, n = [], 0, 0
    for pc, ev in paths:
        s = z3.Solver(); s.add(*pc); nq += 1
        if s.check() != z3.sat:
            continue
        n += 1
        calls = [(c, a) for (_b, c, a, _d) in ev if c != '=']
        hit = [i for i, (c, a) in enumerate(calls) if re.search(r'(^|::)check_method$', c) and re.match(r'^(copy|move) _2\b', a.strip())]
        if not hit:
            bad.append('a path of the per-method closure returns without calling check_method on its method (calls: %s)' % [c.split('::')[-1][:24] for c, _ in calls][:8])
    title = 'check_methods walks the methods with walk_methods and calls check_method on each, on every path of its per-method closure'
    if not walk_ok:
        run.inconclusive(title, 'M', 'check_methods does not call walk_methods')
    elif not n:
        run.inconclusive(title, 'M', 'no feasible path')
    elif bad:
        import native
        n2, nb = native.sweep_c10()
        rep = any('same-name' in str(b) for b in nb)
        run.violated(title, 'M', 'check_methods-skips-check_method', {'detail': bad[:2], 'native': [b for b in nb if 'same-name' in str(b)][:2]}, rep, queries=nq, detail=bad[0][:300])
    else:
        run.holds(title, 'M', queries=nq, bound='all %d feasible CFG paths of check_methods::{closure#0}' % n)
