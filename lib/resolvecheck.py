"""C05, resolver part: `validation::resolve_type` executed symbolically (engine T) on a written name N (z3 string), a set of
imports {I1..Ik}, a set of forward declarations {D1..}, and a key -> kind map {K1 -> kind}; all strings unconstrained.
Hash order is quantified away: `HashSet::iter().find(p)` may return ANY element satisfying p.
For every path the reached classification is compared with the scoping rules of the statement (z3: path condition AND NOT rule)."""
import re

import z3

import mir
import tmir
import travcheck as tc

BUILTIN = {'IBinder': ('IBinder', 'android.os.IBinder', False), 'FileDescriptor': ('FileDescriptor', 'java.os.FileDescriptor', False),
           'ParcelFileDescriptor': ('ParcelFileDescriptor', 'android.os.ParcelFileDescriptor', True), 'ParcelableHolder': ('ParcelableHolder', 'android.os.ParcelableHolder', False)}


def matches(N, I):
    """import I matches the written name N: equal, or ends with '.' + N"""
    return z3.Or(I == N, z3.SuffixOf(z3.Concat(z3.StringVal('.'), N), I))


def run(S, n_imports, n_declared, n_defined):
    """-> (paths checked, list of violations as dicts)"""
    fn = [g for g in S.prog.fns if re.search(r'(^|::)validation::resolve_type$', g.name) or g.name == 'resolve_type']
    fn = [g for g in fn if '::verif' not in g.name]
    if len(fn) != 1:
        raise mir.Unsupported('resolve_type: %d candidates' % len(fn))
    ex = tmir.Exec(S.prog, S.enums, S.structs)
    T = S.structs['Type']
    ni, ki, si = T.index('name'), T.index('kind'), T.index('symbol_range')
    t = ex.obj('t', 'Type')
    N = z3.String('t.%d' % ni)
    ex.memo['t.%d' % ni] = N
    imports, declared, defined, diags = ex.obj('imports', 'HashSet'), ex.obj('declared', 'HashSet'), ex.obj('defined', 'HashMap'), ex.obj('diags', 'Vec')
    I = [z3.String('I%d' % k) for k in range(n_imports)]
    D = [z3.String('D%d' % k) for k in range(n_declared)]
    K = [(z3.String('K%d' % k), ex.obj('kind%d' % k, 'ResolvedItemKind')) for k in range(n_defined)]
    ex.memo[('coll', 'imports')] = I
    ex.memo[('coll', 'declared')] = D
    ex.memo[('coll', 'defined')] = K
    st = tmir.State()
    kinds = S.enums['TypeKind']
    st.pc += [z3.Int('t.%d#disc' % ki) == kinds.index('Unresolved'), z3.Length(N) > 0]
    st.pc += [z3.Distinct(*I)] if len(I) > 1 else []
    # the item kinds a project file can register
    rk = S.enums['ResolvedItemKind']
    for (_k, kv) in K:
        d = z3.Int(kv.path + '#disc')
        st.pc += [z3.Or(d == rk.index('Interface'), d == rk.index('Parcelable'), d == rk.index('Enum'))]
    paths = ex.run_fn(fn[0], [t, imports, declared, defined, diags], st)
    viol = []
    n = 0
    simple = {k: z3.StringVal(v[0]) for k, v in BUILTIN.items()}
    qual = {k: z3.StringVal(v[1]) for k, v in BUILTIN.items()}
    any_import_matches = z3.Or([matches(N, i) for i in I]) if I else z3.BoolVal(False)
    declared_match = z3.Or([z3.And(d == N, z3.Not(z3.Contains(N, z3.StringVal('.')))) for d in D]) if D else z3.BoolVal(False)
    builtin_simple = z3.Or([N == v for v in simple.values()])
    builtin_qual_ok = N == qual['ParcelFileDescriptor']

    def check(pc, cond, what, extra):
        nonlocal n
        import zutil
        r, s = zutil.check(list(pc) + [z3.Not(cond)], 60000); n += 1
        if r == z3.sat:
            m = s.model()
            w = {'what': what, 'name': str(m.eval(N, True)), 'imports': [str(m.eval(i, True)) for i in I], 'declared': [str(m.eval(d, True)) for d in D],
                 'defined': [str(m.eval(k, True)) for k, _v in K]}
            w.update(extra)
            viol.append(w)
        elif r != z3.unsat:
            viol.append({'what': 'solver returned unknown for: ' + what})
    import time
    for s2, ret in paths:
        if tmir.DEADLINE[0] is not None and time.time() > tmir.DEADLINE[0]:
            raise mir.Unsupported('time cap of the task reached while deciding the paths')
        if tc.model_of(s2) is None:
            continue
        kind = s2.heap.get(('field', 't', ki))
        dg = [e for e in s2.events if e[0] in ('push', 'diag')]
        if kind is None:
            # stays unresolved: exactly one Error on the name, and NONE of the scoping rules applies
            ok_diag = len(dg) == 1
            if ok_diag:
                d = dg[0][2] if dg[0][0] == 'push' else dg[0][1]
                f = dict(zip(d[3], d[2])) if isinstance(d, tuple) and d[0] == 'struct' else {}
                ok_diag = f.get('kind') == ('variant', 'DiagnosticKind::Error') and getattr(f.get('range'), 'path', None) == 't.%d' % si
            if not ok_diag:
                viol.append({'what': 'an unresolved name must receive exactly one Error on its name (got %d diagnostics)' % len(dg)})
            check(s2.pc, z3.Not(z3.Or(any_import_matches, declared_match, builtin_simple, builtin_qual_ok)),
                  'a name that an import / forward declaration / built-in covers is left unresolved', {'result': 'unresolved'})
            continue
        if dg:
            viol.append({'what': 'a classified reference must not receive a diagnostic', 'result': str(kind)[:80]})
        if kind[0] == 'enum' and kind[2] == 'AndroidType':
            v = kind[3][0]
            var = v[1].split('::')[-1] if isinstance(v, tuple) and v[0] == 'variant' else None
            if var not in BUILTIN:
                viol.append({'what': 'unknown built-in %r' % (v,)}); continue
            own_q = qual[var]
            cond = z3.Or(N == simple[var], z3.And(N == own_q, z3.Or(BUILTIN[var][2], z3.Or([i == own_q for i in I]) if I else False)),
                         z3.Or([z3.And(matches(N, i), i == own_q) for i in I]) if I else z3.BoolVal(False))
            check(s2.pc, cond, 'classified as built-in %s although the written name is neither its simple name, its accepted qualified name, nor matched by an import of it' % var, {'result': 'android:' + var})
        elif kind[0] == 'enum' and kind[2] == 'ResolvedItem':
            key, rkind = kind[3][0], kind[3][1]
            if isinstance(rkind, tuple) and rkind[0] == 'variant':
                rname = rkind[1].split('::')[-1]
            else:
                rname = None
            if rname == 'ForwardDeclaredParcelable':
                cond = z3.And(z3.Or([key == d for d in D]) if D else z3.BoolVal(False), key == N, z3.Not(z3.Contains(N, z3.StringVal('.'))))
                check(s2.pc, cond, 'classified as forward-declared parcelable without an unqualified forward declaration of that exact name', {'result': 'forward-declared'})
            elif rname == 'UnknownImport':
                cond = z3.And(z3.Or([key == i for i in I]) if I else z3.BoolVal(False), matches(N, key), z3.And([key != k for k, _v in K]) if K else z3.BoolVal(True),
                              z3.And([key != q for q in qual.values()]))
                check(s2.pc, cond, 'classified as unknown import although the matching import is registered, is a built-in, or does not match the name', {'result': 'unknown-import'})
            elif rname is None and hasattr(rkind, 'path'):
                # kind copied from the map: the key must be an import that matches and be registered under exactly this entry
                j = [k for k, (_kk, vv) in enumerate(K) if vv is rkind]
                cond = z3.And(z3.Or([key == i for i in I]) if I else z3.BoolVal(False), matches(N, key), key == K[j[0]][0]) if j else z3.BoolVal(False)
                check(s2.pc, cond, 'resolved to a project item through something that is not a matching import registered under that key', {'result': 'item'})
            else:
                viol.append({'what': 'resolved to an item with kind %r that no registered file has' % (rkind,)})
        else:
            viol.append({'what': 'unexpected classification %r' % (kind[:3],)})
    return len(paths), n, viol
