"""Engine A: symbolic evaluation of the machine-generated action wrappers (`__actionN`) of the current grammar.

For one production, every rhs symbol i gets a symbolic span (s_i, e_i) (z3 Ints); the `__reduceN` glue passes the popped
triples to `__actionK`, wrapper actions compute `@L`/`@R` captures from neighbouring triples and finally call the user action.
The evaluator follows exactly this straight-line code and returns the user action with every binding resolved to a triple,
so that each `Range::new(lookup, a, b)` / `Type::*(.., a, b, ..)` argument is a term over the s_i/e_i.  Anything outside the
expected code shape raises Unsupported (-> inconclusive)."""
import re

import z3


class Unsupported(Exception):
    pass


class Leaf:
    def __init__(self, n, binds, body, ret):
        self.n, self.binds, self.body, self.ret = n, binds, body, ret

    def __repr__(self):
        return 'Leaf(%d:%s)' % (self.n, self.ret)


def split_args(s):
    out, depth, cur = [], 0, ''
    for ch in s:
        if ch in '([{':
            depth += 1
        if ch in ')]}':
            depth -= 1
        if ch == ',' and depth == 0:
            out.append(cur.strip())
            cur = ''
        else:
            cur += ch
    if cur.strip():
        out.append(cur.strip())
    return out


class Actions:
    def __init__(self, path):
        self.src = open(path).read()
        self.acts = {}
        for m in re.finditer(r'\nfn __action(\d+)<\s*(?:\'\w+,\s*)*>\(\s*(.*?)\n\) -> (.*?)\n\{\n(.*?)\n\}\n', self.src, re.S):
            n = int(m.group(1))
            params = []
            for line in m.group(2).split('\n'):
                line = line.strip().rstrip(',')
                if not line:
                    continue
                name, ty = line.split(': ', 1)
                params.append((name.strip(), ty.strip()))
            self.acts[n] = (params[3:], m.group(3).strip(), m.group(4))
        if len(self.acts) < 50:
            raise Unsupported('only %d action functions parsed' % len(self.acts))

    def ev(self, n, args):
        if n not in self.acts:
            raise Unsupported('action %d not found' % n)
        params, ret, body = self.acts[n]
        if len(params) != len(args):
            raise Unsupported('arity of action %d' % n)
        env = {}
        for (pname, pty), a in zip(params, args):
            mm = re.match(r'\((\w+), (\w+), (\w+)\)$', pname)
            if mm:
                if mm.group(2) != '_':
                    env[mm.group(2)] = a
            else:
                env[pname] = a
        b = body.strip()
        if b in ('__lookahead.clone()', '*__lookahead'):
            return env['__lookahead']
        if b in ('__lookbehind.clone()', '*__lookbehind'):
            return env['__lookbehind']
        if not b.startswith('let __start') and not re.match(r'__action\d+\(', b):
            lf = Leaf(n, env, b, ret)
            lf.args = list(args)
            lf.params = list(params)
            return lf

        def expr(e):
            e = e.strip()
            mm = re.match(r'&?(\w+)\.(0|2)\.clone\(\)$', e)
            if mm:
                return env[mm.group(1)][int(mm.group(2))]
            mm = re.match(r'&?(\w+)\.clone\(\)$', e)
            if mm:
                return env[mm.group(1)]
            mm = re.match(r'&(\w+)$', e)
            if mm:
                return env[mm.group(1)]
            mm = re.match(r'\((\w+), (\w+), (\w+)\)$', e)
            if mm:
                return (env[mm.group(1)], env[mm.group(2)], env[mm.group(3)])
            if re.match(r'\w+$', e):
                return env[e]
            raise Unsupported('wrapper expression: ' + e)

        def call(txt):
            mm = re.match(r'__action(\d+)\((.*)\)$', txt.strip(), re.S)
            if not mm:
                raise Unsupported('wrapper call: ' + txt[:80])
            a = split_args(mm.group(2))[3:]
            return self.ev(int(mm.group(1)), [expr(x) for x in a])
        stmts = re.split(r';\n', b)
        for st in stmts[:-1]:
            mm = re.match(r'\s*let (\w+) = (.*)$', st.strip(), re.S)
            if not mm:
                raise Unsupported('wrapper statement: ' + st[:80])
            name, rhs = mm.group(1), mm.group(2).strip()
            env[name] = call(rhs) if rhs.startswith('__action') else expr(rhs)
        return call(stmts[-1])


def rhs_symbols(rhs):
    """splits `A, "(", B<C, D>, ","` on top-level commas; quoted terminals may contain any punctuation."""
    rhs = rhs.strip()
    out, cur, depth, k = [], '', 0, 0
    while k < len(rhs):
        ch = rhs[k]
        if ch == '"':
            e = rhs.index('"', k + 2) if rhs[k + 1] == '"' else rhs.index('"', k + 1)
            cur += rhs[k:e + 1]
            k = e + 1
            continue
        if ch in '(<':
            depth += 1
        elif ch in ')>':
            depth -= 1
        if ch == ',' and depth == 0:
            out.append(cur.strip())
            cur = ''
        else:
            cur += ch
        k += 1
    if cur.strip():
        out.append(cur.strip())
    return out


def is_terminal(sym):
    return sym.startswith('"') or re.match(r'^[A-Z_]+$', sym) is not None


class Production:
    """Symbolic instance of one production: spans, layout constraints, evaluated user action."""

    def __init__(self, A, r, lhs, rhs, action):
        self.r, self.lhs, self.rhs, self.action = r, lhs, rhs_symbols(rhs), action
        self.s = [z3.Int('s%d' % i) for i in range(len(self.rhs))]
        self.e = [z3.Int('e%d' % i) for i in range(len(self.rhs))]
        self.la = z3.Int('lookahead')
        self.cons = [self.la >= 0]
        prev = z3.IntVal(0)
        for i, sym in enumerate(self.rhs):
            self.cons.append(self.s[i] >= prev)
            self.cons.append(self.s[i] < self.e[i] if is_terminal(sym) else self.s[i] <= self.e[i])
            prev = self.e[i]
        self.cons.append(self.la >= prev)
        if self.rhs:
            args = [(self.s[i], ('sym', i), self.e[i]) for i in range(len(self.rhs))]
        else:
            args = [self.la, self.la]
        self.leaf = A.ev(action, args)

    def boundaries(self):
        return self.s + self.e + [self.la]

    def idx(self, name):
        """index of the rhs symbol a binding's value came from (None when it is a synthesised value)."""
        t = self.leaf.binds.get(name)
        if isinstance(t, tuple) and len(t) == 3 and isinstance(t[1], tuple) and t[1][0] == 'sym':
            return t[1][1]
        return None

    def span_of(self, name):
        """(start, end) of a binding's triple."""
        t = self.leaf.binds.get(name)
        if isinstance(t, tuple) and len(t) == 3:
            return t[0], t[2]
        return None

    def val(self, expr):
        expr = expr.strip().lstrip('&')
        mm = re.match(r'^(\w+)(?: \+ (\d+))?$', expr)
        if not mm:
            raise Unsupported('offset expression: ' + expr)
        t = self.leaf.binds.get(mm.group(1))
        if t is None:
            t = self.local_position(mm.group(1))
        v = t[1] if isinstance(t, tuple) and len(t) == 3 else t
        if not z3.is_expr(v):
            raise Unsupported('binding %s is not a position' % mm.group(1))
        return v + int(mm.group(2)) if mm.group(2) else v

    def ranges(self):
        """[(what, start term, end term, text)] for every range the user action builds."""
        b = self.leaf.body
        out = []
        for m in re.finditer(r'(\w+): ast::Range::new\(&?lookup, ([^,()]+), ([^,()]+)\)', b):
            try:
                out.append((m.group(1), self.val(m.group(2)), self.val(m.group(3)), m.group(0)))
            except Unsupported as e:
                out.append((m.group(1), None, None, str(e)))
        for m in re.finditer(r'let (\w+) = ast::Range::new\(&?lookup, ([^,()]+), ([^,()]+)\)', b):
            out.append(('let ' + m.group(1), self.val(m.group(2)), self.val(m.group(3)), m.group(0)))
        for m in re.finditer(r'ast::Direction::(\w+)\(ast::Range::new\(&?lookup, ([^,()]+), ([^,()]+)\)\)', b):
            out.append(('direction', self.val(m.group(2)), self.val(m.group(3)), m.group(0)))
        for m in re.finditer(r'ast::Type::(simple_type|non_generic_list|non_generic_map)\((.*?)lookup, ([^,()]+), ([^,()]+)\)', b, re.S):
            out.append(('type.symbol_range', self.val(m.group(3)), self.val(m.group(4)), m.group(0)))
            out.append(('type.full_range', self.val(m.group(3)), self.val(m.group(4)), m.group(0)))
        for m in re.finditer(r'ast::Type::(array|list|map)\((.*?)lookup, ([^,()]+), ([^,()]+), ([^,()]+), ([^,()]+)\)', b, re.S):
            out.append(('type.symbol_range', self.val(m.group(3)), self.val(m.group(4)), m.group(0)))
            out.append(('type.full_range', self.val(m.group(5)), self.val(m.group(6)), m.group(0)))
        seen = set()
        res = []
        for x in out:
            k = (x[0], str(x[1]), str(x[2]), x[3] if x[1] is None else '')
            if k not in seen:
                seen.add(k)
                res.append(x)
        return res

    def javadoc_pos(self):
        m = re.search(r'javadoc::get_javadoc\(input, (\w+)\)', self.leaf.body)
        return self.val(m.group(1)) if m else None


def _positions_in(v, out, depth=0):
    """position values (z3 terms bound as the VALUE of a triple, i.e. `@L`/`@R` captures) inside a value tree."""
    if depth > 6:
        return
    if isinstance(v, Leaf):
        for k, x in v.binds.items():
            _positions_in(x, out, depth + 1)
    elif isinstance(v, tuple) and len(v) == 3 and not (isinstance(v[1], tuple) and v[1] and v[1][0] == 'sym'):
        if z3.is_expr(v[1]):
            out.append(v[1])
        else:
            _positions_in(v[1], out, depth + 1)


def _local_position(self, name):
    """A name that is not a parameter of the user action: accepted only when it is bound by a pattern of a `match` over exactly one
    parameter whose value tree contains exactly one captured position (e.g. `match v.map(|(p, s)| ..) { Some((code_start, Err(e))) => ..`)."""
    b = self.leaf.body
    if re.search(r'\blet\s+(?:mut\s+)?%s\b' % re.escape(name), b):
        raise Unsupported('position `%s` is computed by a let binding in the action (not interpreted)' % name)
    cands = []
    for m in re.finditer(r'match\s+(\w+)\b', b):
        x = m.group(1)
        if x in self.leaf.binds and name in b[m.end():]:
            out = []
            _positions_in(self.leaf.binds[x], out)
            cands += out
    uniq = {str(c): c for c in cands}
    if len(uniq) != 1:
        raise Unsupported('unbound name in action: %s (%d candidate positions)' % (name, len(uniq)))
    return next(iter(uniq.values()))


Production.local_position = _local_position
