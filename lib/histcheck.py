"""C12: the parser as a state machine, decided by one inductive step per operation (engine M + z3 arrays).

The MIR of every `&mut self` / `&self` method of `Parser` is walked path by path.  Locals become terms over the method's
parameters, the stored map S (a z3 array  Id -> Option<Result>) and uninterpreted functions (one per callee: parsing, cloning,
formatting...).  HashMap operations on the state field are interpreted (insert / remove / get / contains_key / entry-or-insert /
clone / values / iter), branch conditions on their results become conditions on S.  Anything else that receives the state is
reported as unsupported (inconclusive), never guessed.

With  M : Id -> Option<Content>  the abstract "surviving contents" map, z3 decides for every path of every operation that
      Inv(S, M)  /\  path condition   ==>   Inv(S', M')
where Inv(S, M) := forall j. S[j] = lift(j, M[j]),  lift(j, none) = none,  lift(j, some c) = some R(j, c),  and R(id, c) is the term
that add_content stores (which must mention nothing but id and c).  Inv holds for the empty parser, so it holds after every
history, and a fresh parser fed the pairs of M in any order reaches a state that satisfies Inv with the same M - i.e. the same
array.  validate must return a term over S alone and leave S unchanged.
Hash iteration order is outside this model (an array has none); what depends on it is C11's business."""
import itertools
import re

import z3

import mir


class Escape(mir.Unsupported):
    pass


def _strip_ty(p):
    return p


class Walker:
    def __init__(self, prog, self_ty=r'parser::Parser<'):
        self.prog = prog
        self.self_ty = self_ty
        self.reads_other_state = []
        self.inlined = []

    # ---- places / operands ---------------------------------------------------------------------------------------------
    def place(self, txt, env):
        txt = txt.strip()
        m = re.match(r'^(?:move |copy )(.*)$', txt)
        if m:
            txt = m.group(1).strip()
        if re.match(r'^_\d+$', txt):
            if txt not in env:
                return ('undef', txt)
            return env[txt]
        m = re.match(r'^\(\*(_\d+)\)$', txt)
        if m:
            return self.deref(env.get(m.group(1), ('undef', m.group(1))), env)
        m = re.match(r'^\((.*)\.(\d+): .*\)$', txt, re.S)
        if m:
            base_txt, idx = m.group(1).strip(), int(m.group(2))
            mm = re.match(r'^\((.*) as (\w+)\)$', base_txt)
            if mm:
                base = self.place(mm.group(1), env)
                return ('proj', base, '%s.%d' % (mm.group(2), idx))
            base = self.place(base_txt, env)
            if base == ('self',):
                return ('sfield', idx)
            return ('proj', base, str(idx))
        m = re.match(r'^const (.*)$', txt)
        if m:
            return ('const', m.group(1))
        raise mir.Unsupported('place ' + txt)

    def deref(self, t, env=None):
        if isinstance(t, tuple) and t[0] == 'ref':
            return t[1]
        if isinstance(t, tuple) and t[0] == 'mref' and env is not None:
            return env.get(t[1], ('undef', t[1]))
        return t

    def rvalue(self, txt, env):
        txt = txt.strip()
        m = re.match(r'^&mut (_\d+)$', txt)
        if m and env.get(m.group(1), ('undef',))[0] not in ('self', 'sfield', 'view', 'mref'):
            return ('mref', m.group(1))
        m = re.match(r'^&(?:mut )?(?:raw (?:const|mut) )?(.*)$', txt)
        if m:
            t = self.place(m.group(1), env)
            return t if t[0] in ('self', 'sfield', 'view', 'mref') else ('ref', t)
        m = re.match(r'^discriminant\((.*)\)$', txt)
        if m:
            return ('disc', self.place(m.group(1), env))
        if re.match(r'^(?:move |copy )', txt) or re.match(r'^_\d+$', txt) or txt.startswith('const ') or txt.startswith('('):
            try:
                return self.place(txt, env)
            except mir.Unsupported:
                pass
        m = re.match(r'^([\w:<>, \[\]&\']+?) \{ (.*) \}$', txt, re.S)
        if m:
            fields = []
            for f in mir._split_top(m.group(2)):
                fields.append(self.place(f.split(':', 1)[1], env))
            return ('app', 'agg:' + re.sub(r'::<.*>', '', m.group(1)), tuple(fields))
        m = re.match(r'^\((.*)\)$', txt, re.S)
        if m and 'move' in txt:
            return ('app', 'tuple', tuple(self.place(f, env) for f in mir._split_top(m.group(1))))
        locs = re.findall(r'_\d+', txt)
        return ('app', 'rv:' + re.sub(r'_\d+', '_', txt), tuple(env.get(l, ('undef', l)) for l in locs))

    # ---- the walk ------------------------------------------------------------------------------------------------------
    def run(self, fn, args, S):
        """-> [(conds, S', ret)]"""
        env0 = {}
        for (name, ty), a in zip(fn.params, args):
            env0[name] = a
        out = []
        work = [('bb0', env0, [], S, frozenset())]
        while work:
            bb, env, pc, S, seen = work.pop()
            if bb in seen:
                raise mir.Unsupported('loop in %s at %s' % (fn.name, bb))
            seen = seen | {bb}
            if len(out) + len(work) > 4000:
                raise mir.Unsupported('path explosion in ' + fn.name)
            env = dict(env)
            for st in fn.blocks[bb]:
                st = st.rstrip(';')
                if st == 'return':
                    out.append((pc, S, env.get('_0', ('app', 'unit', ())))); break
                if st in ('unreachable', 'resume') or st.startswith('unwind'):
                    break
                m = re.match(r'^goto -> (bb\d+)$', st)
                if m:
                    work.append((m.group(1), env, pc, S, seen)); break
                m = re.match(r'^drop\(.*\) -> \[return: (bb\d+)', st)
                if m:
                    work.append((m.group(1), env, pc, S, seen)); break
                m = re.match(r'^assert\(.*\) -> \[success: (bb\d+)', st, re.S)
                if m:
                    work.append((m.group(1), env, pc, S, seen)); break
                m = re.match(r'^switchInt\((.*)\) -> \[(.*)\]$', st)
                if m:
                    v = self.place(m.group(1), env)
                    arms = [(int(c), t) for c, t in re.findall(r'(-?\d+): (bb\d+)', m.group(2))]
                    other = re.search(r'otherwise: (bb\d+)', m.group(2)).group(1)
                    if v[0] == 'const':
                        c = {'true': 1, 'false': 0}.get(v[1])
                        if c is None:
                            c = int(re.match(r'-?\d+', v[1]).group(0))
                        work.append((dict(arms).get(c, other), env, pc, S, seen)); break
                    neg = []
                    for c, t in arms:
                        work.append((t, env, pc + [('eq', v, c)], S, seen)); neg.append(('ne', v, c))
                    work.append((other, env, pc + neg, S, seen))
                    break
                sc = mir.split_call(st)
                if sc:
                    dest, callee, atxt, nxt = sc
                    raw = [self.place(x, env) for x in mir._split_top(atxt)] if atxt.strip() else []
                    # a `&mut local` argument passes the current value and receives an updated one (a function of all arguments)
                    a = [('ref', env.get(x[1], ('undef', x[1]))) if x[0] == 'mref' else x for x in raw]
                    for (c2, S2, r2) in self.call(callee, a, S):
                        e2 = dict(env); e2[dest] = r2
                        for k, x in enumerate(raw):
                            if x[0] == 'mref':
                                e2[x[1]] = ('app', 'upd%d:%s' % (k, re.sub(r'::<.*?>(?=::|$)', '', callee)), tuple(a))
                        work.append((nxt, e2, pc + c2, S2, seen))
                    break
                m = re.match(r'^(_\d+) = (.*)$', st, re.S)
                if m:
                    env[m.group(1)] = self.rvalue(m.group(2), env)
                    continue
                m = re.match(r'^\((.*)\) = (.*)$', st, re.S)
                if m or st.startswith('StorageLive') or st.startswith('StorageDead') or st.startswith('nop') or st.startswith('FakeRead') or st.startswith('PlaceMention'):
                    if m and '(*_1)' in m.group(1):
                        raise Escape('direct write to the parser state: ' + st[:80])
                    continue
                m = re.match(r'^(.*) = (.*)$', st, re.S)
                if m and '(*_1)' in m.group(1):
                    raise Escape('direct write to the parser state: ' + st[:80])
        return out

    def mentions_state(self, t):
        if not isinstance(t, tuple):
            return False
        if t[0] in ('self', 'sfield', 'view', 'get', 'has', 'S0', 'store'):
            return True
        return any(self.mentions_state(x) for x in t[1:] if isinstance(x, tuple))

    def key_of(self, t):
        return self.deref(t)

    def call(self, callee, a, S):
        """-> [(extra conds, S', result)]"""
        short = re.sub(r'::<.*?>(?=::|$)', '', callee)
        last = short.split('::')[-1]
        on_state = bool(a) and a[0] == ('sfield', 0)
        if on_state and re.search(r'HashMap', callee):
            if last == 'insert':
                k, v = self.key_of(a[1]), a[2]
                return [([], ('store', S, k, ('some', v)), ('get', S, k))]
            if last == 'remove':
                k = self.key_of(a[1])
                return [([], ('store', S, k, ('none',)), ('get', S, k))]
            if last == 'get':
                return [([], S, ('get', S, self.key_of(a[1])))]
            if last == 'contains_key':
                return [([], S, ('has', S, self.key_of(a[1])))]
            if last == 'clear':
                return [([], ('empty',), ('app', 'unit', ()))]
            if last in ('values', 'iter', 'keys', 'len', 'is_empty', 'clone') or 'as Clone>::clone' in callee or 'IntoIterator' in callee:
                return [([], S, ('view', S))]
            if last == 'entry':
                return [([], S, ('entry', self.key_of(a[1])))]
            raise Escape('HashMap operation on the parser state that is not modelled: ' + callee[-60:])
        if a and isinstance(a[0], tuple) and a[0][0] == 'entry':
            k = a[0][1]
            if last == 'or_insert':
                return [([('is_none', ('get', S, k))], ('store', S, k, ('some', a[1])), ('app', 'unit', ())),
                        ([('is_some', ('get', S, k))], S, ('app', 'unit', ()))]
            raise Escape('Entry operation not modelled: ' + callee[-60:])
        if any(x == ('self',) for x in a):
            # a method of the parser itself: inline it
            cands = [f for f in self.prog.fns if f.name.split('::')[-1] == last and f.name.startswith('parser::') and '{closure' not in f.name]
            if len(cands) == 1:
                self.inlined.append((last, a))
                return [(c, S2, r) for (c, S2, r) in self.run(cands[0], a, S)]
            raise Escape('the parser is handed to %s' % callee[-60:])
        if any(isinstance(x, tuple) and x[0] == 'sfield' for x in a):
            if any(x[0] == 'sfield' and x[1] != 0 for x in a if isinstance(x, tuple)):
                raise Escape('a second state field of the parser is used by ' + callee[-60:])
            raise Escape('the stored map is handed to ' + callee[-60:])
        # Option helpers on map results keep their meaning
        if a and isinstance(a[0], tuple) and a[0][0] == 'get':
            if last == 'is_some':
                return [([], S, ('bool', ('is_some', a[0])))]
            if last == 'is_none':
                return [([], S, ('bool', ('is_none', a[0])))]
        name = re.sub(r"'\w+", "'_", short)
        return [([], S, ('app', name, tuple(a)))]


# ---- terms -> z3 ---------------------------------------------------------------------------------------------------------
class Enc:
    def __init__(self):
        self.U = z3.DeclareSort('U')
        self.Opt = z3.Datatype('Opt')
        self.Opt.declare('none')
        self.Opt.declare('some', ('val', self.U))
        self.Opt = self.Opt.create()
        self.A = z3.ArraySort(self.U, self.Opt)
        self.funcs = {}
        self.S0 = z3.Const('S', self.A)
        self.disc = z3.Function('disc', self.U, z3.IntSort())
        self.view = z3.Function('view', self.A, self.U)
        self.opt2u = z3.Function('opt2u', self.Opt, self.U)

    def fn(self, name, n):
        k = (name, n)
        if k not in self.funcs:
            self.funcs[k] = z3.Function('f%d_%s' % (len(self.funcs), re.sub(r'\W', '_', name)[-40:]), *([self.U] * n + [self.U])) if n else z3.Const('c%d_%s' % (len(self.funcs), re.sub(r'\W', '_', name)[-40:]), self.U)
        return self.funcs[k]

    def state(self, t):
        if t == ('S0',):
            return self.S0
        if t == ('empty',):
            return z3.K(self.U, self.Opt.none)
        if t[0] == 'store':
            return z3.Store(self.state(t[1]), self.term(t[2]), self.opt(t[3]))
        raise mir.Unsupported('state term %r' % (t,))

    def opt(self, t):
        if t == ('none',):
            return self.Opt.none
        if t[0] == 'some':
            return self.Opt.some(self.term(t[1]))
        if t[0] == 'get':
            return z3.Select(self.state(t[1]), self.term(t[2]))
        raise mir.Unsupported('option term %r' % (t,))

    def term(self, t):
        if t[0] == 'p':
            return z3.Const('p_' + t[1], self.U)
        if t[0] == 'ref':
            return self.term(t[1])
        if t[0] == 'const':
            return self.fn('const:' + t[1], 0)
        if t[0] == 'undef':
            return self.fn('undef:' + t[1], 0)
        if t[0] == 'app':
            f = self.fn(t[1], len(t[2]))
            return f(*[self.term(x) for x in t[2]]) if t[2] else f
        if t[0] == 'proj':
            return self.fn('proj:' + t[2], 1)(self.term(t[1]))
        if t[0] == 'view':
            return self.view(self.state(t[1]))
        if t[0] == 'get':
            return self.opt2u(self.opt(t))
        if t[0] in ('has', 'bool', 'disc'):
            return self.fn('b2u', 1)(z3.If(self.cond(('eq', t, 1)), self.fn('one', 0), self.fn('zero', 0))) if False else self.fn('trunc:' + t[0], 0)
        raise mir.Unsupported('term %r' % (t[:2],))

    def cond(self, c):
        op = c[0]
        if op in ('is_some', 'is_none'):
            o = self.opt(c[1])
            return o != self.Opt.none if op == 'is_some' else o == self.Opt.none
        if op in ('eq', 'ne'):
            v, k = c[1], c[2]
            if v[0] == 'disc' and isinstance(v[1], tuple) and v[1][0] == 'get':
                e = z3.If(self.opt(v[1]) == self.Opt.none, 0, 1) == k
            elif v[0] == 'disc':
                e = self.disc(self.term(v[1])) == k
            elif v[0] == 'has':
                e = z3.If(z3.Select(self.state(v[1]), self.term(v[2])) != self.Opt.none, 1, 0) == k
            elif v[0] == 'bool':
                e = z3.If(self.cond(v[1]), 1, 0) == k
            else:
                e = self.disc(self.term(v)) == k
            return e if op == 'eq' else z3.Not(e)
        raise mir.Unsupported('condition %r' % (c,))


def find_method(prog, name):
    c = [f for f in prog.fns if re.search(r'^parser::<impl at [^>]*>::%s$' % name, f.name)]
    if len(c) != 1:
        raise mir.Unsupported('%s: %d candidates' % (name, len(c)))
    return c[0]


def term_mentions_state(t):
    if not isinstance(t, tuple):
        return False
    if t and isinstance(t[0], str) and t[0] in ('self', 'sfield', 'view', 'get', 'has', 'S0', 'store', 'entry'):
        return True
    return any(term_mentions_state(x) for x in (t[1:] if t and isinstance(t[0], str) else t) if isinstance(x, (tuple, list)))


def analyse(prog):
    """-> list of (name, status, detail, witness, queries, seconds) obligations; status in holds / violated / inconclusive"""
    import time
    obs = []
    W = Walker(prog)
    E = Enc()
    U, Opt = E.U, E.Opt
    S, M = E.S0, z3.Const('M', z3.ArraySort(U, Opt))
    nq = [0]

    def solve(*cs):
        s = z3.Solver(); s.set('timeout', 60000)
        s.add(*cs)
        nq[0] += 1
        return s, s.check()

    # ---- add_content: R(id, c) ------------------------------------------------------------------------------------------
    t0 = time.time()
    add = find_method(prog, 'add_content')
    pid, pc_ = ('p', 'id'), ('p', 'content')
    try:
        paths = W.run(add, [('self',), pid, pc_], ('S0',))
    except Escape as e:
        obs.append(('add_content stores a function of (id, content) only', 'violated', str(e), {'op': 'add', 'escape': True}, 0, 0.0))
        return obs, nq[0]
    stored = []
    bad = []
    for conds, S2, ret in paths:
        pure = [c for c in conds if not term_mentions_state(c)]
        # walk the store chain
        chain, t = [], S2
        while t[0] == 'store':
            chain.append(t); t = t[1]
        for st in chain:
            if st[3][0] == 'some':
                if term_mentions_state(st[3][1]):
                    bad.append('the value stored by add_content depends on what the parser already holds')
                stored.append((pure, st[3][1]))
    if bad:
        obs.append(('add_content stores a function of (id, content) only', 'violated', bad[0], {'op': 'add'}, 0, 0.0))
        return obs, nq[0]
    if not stored:
        obs.append(('add_content stores a function of (id, content) only', 'violated', 'add_content stores nothing on any path', {'op': 'add'}, 0, 0.0))
        return obs, nq[0]

    def R(i, c):
        """value stored for (i, c): if-then-else over the param-only path conditions"""
        sub = [(z3.Const('p_id', U), i), (z3.Const('p_content', U), c)]
        e = None
        for pure, v in reversed(stored):
            val = z3.substitute(E.term(v), *sub)
            cond = z3.And([z3.substitute(E.cond(x), *sub) for x in pure] + [z3.BoolVal(True)])
            e = val if e is None else z3.If(cond, val, e)
        return e

    def lift(j, m):
        return z3.If(m == Opt.none, Opt.none, Opt.some(R(j, Opt.val(m))))
    def inv_at(x):
        # the invariant instantiated at one key (instances of a universally quantified hypothesis: enough for UNSAT; a SAT model is replayed)
        return z3.Select(S, x) == lift(x, z3.Select(M, x))
    obs.append(('add_content stores a function of (id, content) only (R)', 'holds', '%d storing paths' % len(stored), None, 0, time.time() - t0))

    def step(opname, fn, args, Mpost, what):
        t1 = time.time()
        try:
            ps = W.run(fn, args, ('S0',))
        except Escape as e:
            obs.append((what, 'violated', str(e), {'op': opname, 'escape': True}, 0, time.time() - t1)); return None
        worst = None
        for conds, S2, ret in ps:
            cz = [E.cond(c) for c in conds]
            s, r = solve(*cz)
            if r == z3.unsat:
                continue
            jj = z3.Const('jj', U)
            keys = [jj, z3.Const('p_id', U)] + [E.term(k) for k in _keys(S2)] + [E.term(k) for c in conds for k in _keys(c)]
            s, r = solve(*[inv_at(k) for k in keys], *cz, z3.Select(E.state(S2), jj) != lift(jj, z3.Select(Mpost, jj)))
            if r == z3.sat:
                worst = ('violated', 'after %s the stored map no longer equals the image of the surviving contents' % opname,
                         {'op': opname, 'path_conditions': [str(c)[:120] for c in cz][:6]})
                break
            if r != z3.unsat:
                worst = ('inconclusive', 'solver returned unknown', None)
        if worst:
            obs.append((what, worst[0], worst[1], worst[2], len(ps), time.time() - t1))
        else:
            obs.append((what, 'holds', '%d paths' % len(ps), None, len(ps), time.time() - t1))
        return ps

    idz, cz_ = z3.Const('p_id', U), z3.Const('p_content', U)
    step('add', add, [('self',), pid, pc_], z3.Store(M, idz, Opt.some(cz_)),
         'add_content(id, c): Inv(S, M) ==> Inv(S\', M[id := c])   (same id overwrites, other slots untouched)')
    rem = find_method(prog, 'remove_content')
    step('remove', rem, [('self',), pid], z3.Store(M, idz, Opt.none),
         'remove_content(id): Inv(S, M) ==> Inv(S\', M[id := none])   (absent id: no change)')
    val = find_method(prog, 'validate')
    ps = step('validate', val, [('self',)], M, 'validate(): Inv(S, M) ==> Inv(S\', M)   (validation does not change the state)')
    # validate returns a term over S alone; equal arrays give equal results
    if ps is not None:
        t1 = time.time()
        okv = True
        for conds, S2, ret in ps:
            other = [x for x in _leaves(ret) if x[0] in ('sfield', 'self', 'undef')]
            if other or any(term_mentions_state(c) and not _only_S0(c) for c in conds):
                okv = False
        Sf = z3.Const('S_fresh', E.A)
        rets = [E.term(r) for (_c, _s, r) in ps]
        q = z3.And(S == Sf, z3.Or([rt != z3.substitute(rt, (S, Sf)) for rt in rets]))
        s, r = solve(q)
        if okv and r == z3.unsat:
            obs.append(('validate() returns a function of the stored map alone: equal maps (this history vs. fresh parser) give equal results, and a repeated call gives the same', 'holds',
                        'result term: ' + _show(ps[0][2])[:200], None, 1, time.time() - t1))
        else:
            obs.append(('validate() returns a function of the stored map alone', 'violated', 'the result mentions parser state other than the stored map' if not okv else 'results differ for equal maps',
                        {'op': 'validate'}, 1, time.time() - t1))
    # add_file
    t1 = time.time()
    af = find_method(prog, 'add_file')
    try:
        ps = W.run(af, [('self',), ('p', 'path')], ('S0',))
        def is_err(p):
            return any(c[0] == 'eq' and c[2] == 1 and c[1][0] == 'disc' and c[1][1][0] == 'app' and 'Try>::branch' in c[1][1][1] for c in p[0])
        ok_paths = [p for p in ps if not is_err(p)]
        err_paths = [p for p in ps if is_err(p)]
        badf = []
        for conds, S2, ret in ok_paths:
            if S2 == ('S0',):
                continue        # add_content itself chose not to store on this path: judged by the add_content step
            if not (S2[0] == 'store' and S2[1] == ('S0',)):
                badf.append('add_file modifies the state more than once'); continue
            k, v = S2[2], S2[3]
            ks = _show(k)
            if not (k[0] == 'app' and 'PathBuf as From<&Path>>::from' in k[1] and [x for x in _leaves(k)] == [('p', 'path')]):
                badf.append('add_file stores under %s, not under the path' % ks[:80])
            # the stored value is R(key, buffer): same as add_content(path, text)
            txt = [x for x in _apps(v) if 'read_to_string' in x[1] or 'String::new' in x[1] or 'deref' in x[1]]
            calls = [x for x in W.inlined if x[0] == 'add_content']
            content = E.term(calls[-1][1][2]) if calls else E.fn('no-content', 0)
            s, r = solve(*[E.cond(c) for c in conds], E.opt(v) != Opt.some(R(E.term(k), content)))
            if r != z3.unsat:
                badf.append('the value add_file stores is not what add_content(path, text) stores')
            if not any('Ok' in _show(ret) for _ in [0]):
                badf.append('add_file does not return Ok after storing')
            if any(('eq', c[1], 1) == c and 'Err' in _show(c[1]) for c in conds):
                pass
        for conds, S2, ret in err_paths:
            if S2 != ('S0',):
                badf.append('add_file changes the state on a path where opening or reading the file failed')
            if 'from_residual' not in _show(ret):
                badf.append('a path of add_file that stores nothing does not return the I/O error')
        if len([p for p in ok_paths if p[1] != ('S0',)]) != len(stored) or len(err_paths) < 2:
            badf.append('expected %d storing paths (those of add_content) and >= 2 error paths (open, read), got %d / %d' % (len(stored), len(ok_paths), len(err_paths)))
        if badf:
            obs.append(('add_file(path) == add_content(path, text of the file) on success, no state change and Err on I/O failure', 'violated', badf[0], {'op': 'addfile'}, 1, time.time() - t1))
        else:
            obs.append(('add_file(path) == add_content(path, text of the file) on success, no state change and Err on I/O failure', 'holds',
                        '%d storing / %d error paths' % (len(ok_paths), len(err_paths)), None, 1, time.time() - t1))
    except Escape as e:
        obs.append(('add_file', 'violated', str(e), {'op': 'addfile', 'escape': True}, 0, time.time() - t1))
    return obs, nq[0]


def _content_arg(E, v, stored):
    """the content term inside a stored value: unify the stored pattern's p_content against v"""
    pat = stored[0][1]
    found = []

    def uni(p, t):
        if p == ('p', 'content'):
            found.append(t); return
        if isinstance(p, tuple) and isinstance(t, tuple) and len(p) == len(t):
            for a, b in zip(p, t):
                if isinstance(a, tuple):
                    uni(a, b)
    for _pure, pv in stored:
        uni(pv, v[1] if v[0] == 'some' else v)
        if found:
            break
    if not found:
        return E.fn('no-content', 0)
    return E.term(found[0])


def _keys(t):
    """key terms of every map access inside a term / condition / state"""
    if not isinstance(t, tuple):
        return
    if t and isinstance(t[0], str) and t[0] in ('get', 'has', 'store'):
        yield t[2]
    for x in (t[1:] if t and isinstance(t[0], str) else t):
        if isinstance(x, tuple):
            for y in _keys(x):
                yield y


def _leaves(t):
    if not isinstance(t, tuple):
        return
    if t and isinstance(t[0], str) and t[0] in ('p', 'self', 'sfield', 'undef', 'const', 'S0'):
        yield t; return
    for x in (t[1:] if t and isinstance(t[0], str) else t):
        if isinstance(x, tuple):
            for y in _leaves(x):
                yield y


def _apps(t):
    if isinstance(t, tuple):
        if t and t[0] == 'app':
            yield t
        for x in (t[1:] if t and isinstance(t[0], str) else t):
            if isinstance(x, tuple):
                for y in _apps(x):
                    yield y


def _only_S0(c):
    return True


def _show(t):
    if not isinstance(t, tuple):
        return str(t)
    if t[0] == 'p':
        return 'p:' + t[1]
    if t[0] == 'app':
        return '%s(%s)' % (t[1].split('::')[-1] if not t[1].startswith('agg:') else t[1], ', '.join(_show(x) for x in t[2]))
    return '%s(%s)' % (t[0], ', '.join(_show(x) for x in t[1:]))
