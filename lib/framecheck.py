"""Frame / information-flow obligations over the MIR of src/parser.rs and validation::validate (engine M: CFG path enumeration
with z3 path feasibility).  They establish that the parser's only state is a finite map id -> F(id, content) manipulated by
insert / remove / clone, and that a file's validation result is a function of its own stored parse result and of the key -> kind
map restricted to the keys of its own imports."""
import re

import z3

import mir


def feasible_paths(fn):
    out = []
    for pc, ev in mir.cfg_paths(fn):
        s = z3.Solver()
        s.add(*pc)
        if s.check() == z3.sat:
            out.append((pc, ev))
    return out


def find_fn(prog, pat):
    c = [f for f in prog.fns if re.search(pat, f.name) and '::verif' not in f.name]
    if len(c) != 1:
        raise mir.Unsupported('%s: %d candidates' % (pat, len(c)))
    return c[0]


def state_aliases(ev, state_pat):
    """locals that hold a reference to the state field on this path"""
    al = set()
    for (_b, c, a, d) in ev:
        if c == '=' and re.search(state_pat, a):
            al.add(d)
    return al


def uses(ev, aliases, state_pat):
    """calls on this path whose arguments mention the state (directly or through an alias)"""
    out = []
    for (_b, c, a, d) in ev:
        if c == '=':
            continue
        toks = set(re.findall(r'_\d+', a))
        if toks & aliases or re.search(state_pat, a):
            out.append((c, a))
    return out


STATE = r'\(\(\*_1\)\.0: std::collections::HashMap<'


def add_content(prog):
    f = find_fn(prog, r'^parser::<impl at [^>]*>::add_content$')
    paths = feasible_paths(f)
    bad = []
    for pc, ev in paths:
        al = state_aliases(ev, STATE)
        us = uses(ev, al, STATE)
        ins = [u for u in us if re.search(r'HashMap::<.*>::insert$', u[0])]
        if len(us) != 1 or len(ins) != 1:
            bad.append('the stored map is used %d times on a path (expected exactly one insert): %s' % (len(us), [u[0][-40:] for u in us])); continue
        args = mir._split_top(ins[0][1])
        defs = {d: (c, a) for (_b, c, a, d) in ev}
        # key = the id parameter
        k = args[1].split()[-1]
        if not (k == '_2' or (defs.get(k) and defs[k][0] == '=' and re.search(r'= move _2$', defs[k][1]))):
            bad.append('the value is not stored under the caller\'s id (%s)' % args[1])
        v = args[2].split()[-1]
        dv = defs.get(v)
        src = dv[1] if dv else ''
        while dv and dv[0] == '=' and re.search(r'= move (_\d+)$', src):
            dv = defs.get(re.search(r'= move (_\d+)$', src).group(1))
            src = dv[1] if dv else ''
        m = re.search(r'ParseFileResult::<ID> \{ id: move (_\d+), ast: move (_\d+), diagnostics: move (_\d+) \}', src)
        if not m:
            bad.append('the stored value is not a ParseFileResult aggregate (%s)' % src[:80]); continue
        idsrc = defs.get(m.group(1))
        if not (idsrc and 'Clone>::clone' in idsrc[0] and re.search(r'_\d+', idsrc[1]) and defs.get(re.search(r'_\d+', idsrc[1]).group(0), ('', ''))[1].endswith('&_2')):
            bad.append('the stored result is not tagged with a clone of the caller\'s id')
        parse = [(c, a) for (_b, c, a, _d) in ev if c.endswith('OptAidlParser::parse')]
        if len(parse) != 1 or 'copy _3' not in parse[0][1]:
            bad.append('the content is not what is parsed')
    return (not bad), len(paths), bad


def remove_content(prog):
    f = find_fn(prog, r'^parser::<impl at [^>]*>::remove_content$')
    paths = feasible_paths(f)
    bad = []
    for pc, ev in paths:
        al = state_aliases(ev, STATE)
        us = uses(ev, al, STATE)
        if len(us) != 1 or not re.search(r'HashMap::<.*>::remove::<', us[0][0]):
            bad.append('remove_content uses the stored map %d times: %s' % (len(us), [u[0][-40:] for u in us])); continue
        defs = {d: (c, a) for (_b, c, a, d) in ev}
        k = mir._split_top(us[0][1])[1].split()[-1]
        if not (defs.get(k) and defs[k][1].endswith('&_2')):
            bad.append('the removed key is not the caller\'s id')
    return (not bad), len(paths), bad


def validate_entry(prog):
    f = find_fn(prog, r'^parser::<impl at [^>]*>::validate$')
    bad = []
    if not f.params[0][1].startswith('&parser::Parser') or f.params[0][1].startswith('&mut'):
        bad.append('validate does not take the parser by shared reference (%s)' % f.params[0][1])
    paths = feasible_paths(f)
    for pc, ev in paths:
        calls = [(c, a) for (_b, c, a, _d) in ev if c != '=']
        names = [c for c, _a in calls]
        if not any(c.endswith('collect_item_keys') for c in names) or not any('as Clone>::clone' in c for c in names) or not any(re.search(r'(^|::)validate::<ID>$', c) for c in names):
            bad.append('validate is not validation::validate(collect_item_keys(self), clone of the stored map): %s' % [c[-30:] for c in names])
        for c, a in calls:
            if re.search(r'insert|remove|clear|retain|drain|get_mut|entry', c.split('::')[-1]):
                bad.append('validate modifies a map: ' + c[-40:])
    return (not bad), len(paths), bad


def collect_keys(prog):
    c1 = [f for f in prog.fns if re.search(r'collect_item_keys::\{closure#1\}$', f.name)]
    c0 = [f for f in prog.fns if re.search(r'collect_item_keys::\{closure#0\}$', f.name)]
    bad = []
    if len(c1) != 1 or len(c0) != 1:
        raise mir.Unsupported('collect_item_keys closures: %d/%d' % (len(c0), len(c1)))
    t0 = ' '.join(' '.join(b) for b in c0[0].blocks.values())
    t1 = ' '.join(' '.join(b) for b in c1[0].blocks.values())
    if not re.search(r'_0 = &\(\(\*_2\)\.1: std::option::Option<ast::Aidl>\)', t0):
        bad.append('the key map is not collected from the stored trees')
    if not (re.search(r'Aidl::get_key\(copy _2\)', t1) and re.search(r'Item::get_kind\(', t1) and re.search(r'_0 = \(move _\d+, move _\d+\)', t1)):
        bad.append('an entry of the key map is not (get_key(file), kind of its item)')
    outer = find_fn(prog, r'^parser::<impl at [^>]*>::collect_item_keys$')
    t = ' '.join(' '.join(b) for b in outer.blocks.values())
    if not (re.search(r'HashMap::<.*>::values\(', t) and 'flat_map' in t and '>::collect::<' in t):
        bad.append('collect_item_keys is not values().flat_map(..).map(..).collect()')
    return (not bad), 3, bad


def add_file(prog):
    f = find_fn(prog, r'^parser::<impl at [^>]*>::add_file$')
    paths = feasible_paths(f)
    bad, ok_paths, err_paths = [], 0, 0
    for pc, ev in paths:
        calls = [(c, a, d) for (_b, c, a, d) in ev if c != '=']
        names = [c for c, _a, _d in calls]
        adds = [x for x in calls if x[0].endswith('add_content')]
        opened = any(c.startswith('File::open') or '::File::open' in c for c in names)
        read = any('read_to_string' in c for c in names)
        pcs = ' '.join(str(c) for c in pc)
        if adds:
            ok_paths += 1
            if not (opened and read):
                bad.append('add_content reached without opening and reading the file')
            # both `?` took the Continue arm
            if re.search(r'disc:_\d+ == 1', pcs):
                bad.append('add_content reached on an error path: ' + pcs[:120])
            a = mir._split_top(adds[0][1])
            defs = {d: (c, aa) for (_b, c, aa, d) in ev}
            kid = a[1].split()[-1]
            if not (defs.get(kid) and 'PathBuf as From<&Path>>::from' in defs[kid][0]):
                bad.append('the file is not added under its path')
            if not re.search(r'Result::<\(\), std::io::Error>::Ok', ' '.join(x[2] for x in ev if x[1] == '=')):
                bad.append('success path does not return Ok')
        else:
            err_paths += 1
            if not any('from_residual' in c for c in names):
                bad.append('a path without add_content does not return the I/O error')
    if ok_paths != 1 or err_paths < 2:
        bad.append('expected one success path and two error paths (open, read), got %d / %d' % (ok_paths, err_paths))
    return (not bad), len(paths), bad


# -----------------------------------------------------------------------------------------------------------------------------
def validate_closure_flow(prog):
    """Q1-Q3: the per-file closure captures only the key map; the key map flows only into resolve_types and check_imports."""
    outer = find_fn(prog, r'(^|::)validation::validate$|^validate$')
    cap = None
    for b in outer.blocks.values():
        for st in b:
            m = re.search(r'= \{closure@[^}]*\} \{ (.*) \};', st)
            if m:
                cap = [x.split(':')[0].strip() for x in mir._split_top(m.group(1))]
    bad = []
    if cap is None:
        # a closure without captures is printed without braces
        cap = []
    if cap not in (['defined'], []):
        bad.append('the per-file closure captures %s (only the key map `defined` is expected)' % cap)
    cl = [f for f in prog.fns if re.search(r'(^|::)validate::\{closure#0\}$', f.name)]
    if len(cl) != 1:
        raise mir.Unsupported('validate closure: %d candidates' % len(cl))
    paths = feasible_paths(cl[0])
    for pc, ev in paths:
        al = set()
        for (_b, c, a, d) in ev:
            if c == '=' and re.search(r'\(\(\*_1\)\.0: &std::collections::HashMap<std::string::String, ast::ResolvedItemKind>\)', a):
                al.add(d)
        for (_b, c, a, d) in ev:
            if c == '=':
                continue
            if set(re.findall(r'_\d+', a)) & al and not re.search(r'validation::(resolve_types|check_imports)$', c):
                bad.append('the key map is handed to %s' % c[-40:])
    t = ' '.join(' '.join(b) for b in cl[0].blocks.values())
    if re.search(r'static|thread_local|LocalKey', t):
        bad.append('the per-file closure touches global state')
    return (not bad), len(paths), bad


def no_globals(prog):
    """mutable global state anywhere in the crate's MIR (the verif-hooks recorder is the only allowed one)"""
    bad = []
    n = 0
    for f in prog.fns:
        if '::verif' in f.name or 'EXPECTED' in f.name or f.name.startswith('rules::aidl::__parse') or 'record_expected' in f.name or 'take_expected' in f.name:
            continue
        n += 1
        for b in f.blocks.values():
            for st in b:
                if re.search(r'static mut|thread_local|LocalKey<|OnceCell|OnceLock|LazyLock|Mutex<|RwLock<|Atomic[A-Z]\w+::|RefCell<|\bCell<', st):
                    if 'record_expected' in st or 'EXPECTED' in st:
                        continue
                    bad.append('%s: %s' % (f.name[-50:], st[:100]))
    return (not bad), n, bad


def defined_uses(prog):
    """every function that receives the key map: which calls take it.  resolve_types -> (its closure ->) resolve_type only;
    resolve_type / check_imports -> HashMap::get / contains_key only."""
    bad, n = [], 0
    MAPTY = r'&std::collections::HashMap<std::string::String, ast::ResolvedItemKind>'

    def map_params(f):
        return [p for p, ty in f.params if re.sub(r"'\w+ ", '', ty).replace("&'_ ", '&') in (MAPTY.replace('\\', ''), '&HashMap<String, ResolvedItemKind>', '&HashMap<String, ast::ResolvedItemKind>')
                or re.fullmatch(r"&(?:'\w+ )?(?:std::collections::)?HashMap<(?:std::string::)?String, (?:ast::)?ResolvedItemKind>", ty)]
    for name, allowed in ((r'(^|::)validation::resolve_types$', r'walk_types_mut'), (r'(^|::)validation::resolve_type$', r'HashMap::<.*>::get::<'),
                          (r'(^|::)validation::check_imports$', r'HashMap::<.*>::contains_key::<')):
        fs = [f for f in prog.fns if re.search(name, f.name) and '::verif' not in f.name]
        if len(fs) != 1:
            raise mir.Unsupported('%s: %d candidates' % (name, len(fs)))
        f = fs[0]
        mp = map_params(f)
        if len(mp) != 1:
            raise mir.Unsupported('%s: key-map parameter not identified (%s)' % (f.name, f.params))
        todo = [(f, mp[0])] + [(g, None) for g in prog.fns if g.name.startswith(f.name + '::{closure')]
        for g, param in todo:
            n += 1
            stmts = [st.rstrip(';') for b in g.blocks.values() for st in b]
            al = {param} if param else set()
            changed = True
            while changed:          # flow-insensitive alias closure (handles loops)
                changed = False
                for st in stmts:
                    sc = mir.split_call(st)
                    if sc:
                        dest, c, a, _n = sc
                        if set(re.findall(r'_\d+', a)) & al and ('Deref' in c or c.endswith('::deref')) and dest not in al:
                            al.add(dest); changed = True
                        continue
                    m = re.match(r'^(_\d+) = (.*)$', st, re.S)
                    if not m or m.group(1) in al:
                        continue
                    rhs = m.group(2)
                    if param is None and re.search(r'\(\(\*_1\)\.\d+: ' + MAPTY + r'\)', rhs):
                        al.add(m.group(1)); changed = True
                    elif set(re.findall(r'_\d+', rhs)) & al and re.match(r'^(?:&|copy |move |&\(\*)', rhs):
                        al.add(m.group(1)); changed = True
            for st in stmts:
                sc = mir.split_call(st)
                if not sc:
                    continue
                dest, c, a, _n = sc
                if not (set(re.findall(r'_\d+', a)) & al):
                    continue
                if re.search(allowed, c) or (g is not f and re.search(r'(^|::)resolve_type$', c)) or re.search(r'walk_types_mut', c) or 'Deref' in c or c.endswith('::deref'):
                    continue
                bad.append('%s hands the key map to %s' % (g.name.split('::')[-1] if '{closure' not in g.name else g.name[-40:], c[-50:]))
    return (not bad), n, sorted(set(bad))
