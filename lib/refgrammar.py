"""Reference grammar for C03, written from the property's description of the language (NOT from src/aidl.lalrpop):
package; imports; forward declarations; exactly one item; member forms; type forms; value forms; annotations; trailing commas.
Compiled to CNF once; `Cyk` builds a bounded CYK membership formula over z3 bit-vector token variables."""
import z3


class G:
    def __init__(self):
        self.rules = {}
        self.cnt = 0

    def add(self, A, *rhs):
        self.rules.setdefault(A, []).append(list(rhs))

    def fresh(self, hint):
        self.cnt += 1
        return '%s#%d' % (hint, self.cnt)

    def star(self, X):
        A = self.fresh('star'); self.add(A); self.add(A, X, A); return A

    def plus(self, X):
        A = self.fresh('plus'); self.add(A, X); self.add(A, X, A); return A

    def opt(self, *xs):
        A = self.fresh('opt'); self.add(A); self.add(A, *xs); return A

    def seq(self, *xs):
        A = self.fresh('seq'); self.add(A, *xs); return A

    def commasep(self, X):
        A = self.fresh('cs'); self.add(A); self.add(A, X); self.add(A, X, '","', A); return A


def reference():
    g = G()
    g.add('QName', 'IDENT'); g.add('QName', 'IDENT', '"."', 'QName')
    g.add('Package', 'PACKAGE', 'QName', '";"')
    g.add('ImportPath', 'IDENT', '"."', 'IDENT'); g.add('ImportPath', 'IDENT', '"."', 'ImportPath')
    g.add('Import', 'IMPORT', 'ImportPath', '";"')
    for v in ['INTEGER', 'FLOAT', 'QUOTED_STRING', 'BOOLEAN']:
        g.add('SimpleValue', v)
    g.add('AnnotParam', 'IDENT'); g.add('AnnotParam', 'IDENT', '"="', 'SimpleValue')
    g.add('Annot', 'ANNOTATION'); g.add('Annot', 'ANNOTATION', '"("', g.commasep('AnnotParam'), '")"')
    An = g.star('Annot')
    g.add('DeclParc', An, 'PARCELABLE', 'QName', '";"')
    for t in ['VOID', 'PRIMITIVE', 'STRING', 'CHAR_SEQUENCE', 'LIST', 'MAP', 'QName']:
        g.add('Type', t)
    g.add('Type', 'Type', '"["', '"]"'); g.add('Type', 'LIST', '"<"', 'Type', '">"'); g.add('Type', 'MAP', '"<"', 'Type', '","', 'Type', '">"')
    g.add('Value', 'SimpleValue'); g.add('Value', '"{"', '"}"'); g.add('Value', 'IDENT', '"."', 'IDENT')
    g.add('Value', '"{"', g.plus('Value'), g.star(g.seq('","', 'Value')), g.opt('","'), '"}"')
    g.add('Arg', g.opt('DIRECTION'), An, 'Type', g.opt('IDENT'))
    g.add('Method', An, g.opt('ONEWAY'), 'Type', 'IDENT', '"("', g.commasep('Arg'), '")"', g.opt('"="', 'INTEGER'), '";"')
    g.add('Const', An, 'CONST', 'Type', 'IDENT', '"="', 'Value', '";"')
    g.add('Field', An, 'Type', 'IDENT', g.opt('"="', 'Value'), '";"')
    g.add('EnumEl', An, 'IDENT', g.opt('"="', 'SimpleValue'))
    g.add('IfaceEl', 'Method'); g.add('IfaceEl', 'Const'); g.add('ParcEl', 'Field'); g.add('ParcEl', 'Const')
    g.add('IfaceBody', g.star('IfaceEl')); g.add('ParcBody', g.star('ParcEl')); g.add('EnumBody', g.commasep('EnumEl'))
    g.add('IfaceEls', g.plus('IfaceEl')); g.add('ParcEls', g.plus('ParcEl')); g.add('EnumElsC', g.plus(g.seq('EnumEl', '","')))
    g.add('Item', An, g.opt('ONEWAY'), 'INTERFACE', 'IDENT', '"{"', 'IfaceBody', '"}"')
    g.add('Item', An, 'PARCELABLE', 'IDENT', '"{"', 'ParcBody', '"}"')
    g.add('Item', An, 'ENUM', 'IDENT', '"{"', 'EnumBody', '"}"')
    g.add('Aidl', 'Package', g.star('Import'), g.star('DeclParc'), 'Item')
    return g


def to_cnf(g, terminals):
    isT = lambda x: x in terminals
    out = {}
    cnt = [0]

    def add(A, r):
        out.setdefault(A, []).append(r)
    for A, rs in g.rules.items():
        for r in rs:
            cur, r = A, list(r)
            while len(r) > 2:
                cnt[0] += 1
                B = 'bin#%d' % cnt[0]
                add(cur, [r[0], B]); cur = B; r = r[1:]
            add(cur, r)
    rules = out
    nullable, ch = set(), True
    while ch:
        ch = False
        for A, rs in rules.items():
            if A not in nullable and any(all(x in nullable for x in r) for r in rs):
                nullable.add(A); ch = True
    out = {}
    for A, rs in rules.items():
        for r in rs:
            if len(r) == 0:
                continue
            if len(r) == 1:
                out.setdefault(A, set()).add(tuple(r))
            else:
                x, y = r
                out.setdefault(A, set()).add((x, y))
                if x in nullable:
                    out[A].add((y,))
                if y in nullable:
                    out[A].add((x,))
    rules = out
    unit = {A: {A} for A in set(rules) | {x for rs in rules.values() for r in rs for x in r if not isT(x)}}
    ch = True
    while ch:
        ch = False
        for A in unit:
            for B in list(unit[A]):
                for r in rules.get(B, ()):
                    if len(r) == 1 and not isT(r[0]) and r[0] not in unit[A]:
                        unit[A].add(r[0]); ch = True
    term_rules, bin_rules = {}, {}
    for A in unit:
        for B in unit[A]:
            for r in rules.get(B, ()):
                if len(r) == 1 and isT(r[0]):
                    term_rules.setdefault(A, set()).add(r[0])
                elif len(r) == 2:
                    bin_rules.setdefault(A, set()).add(r)
    return term_rules, bin_rules, nullable


class Cyk:
    """Bounded CYK over a list of z3 BV6 token terms (concrete prefix/suffix folded by simplification)."""

    def __init__(self, tix):
        self.tix = tix
        self.terminals = set(tix)
        self.term_rules, self.bin_rules, self.nullable = to_cnf(reference(), self.terminals)

    def derives_concrete(self, start, toks_names):
        """Plain CYK on a concrete terminal-name sequence."""
        n = len(toks_names)
        if n == 0:
            return start in self.nullable
        memo = {}

        def d(X, i, j):
            key = (X, i, j)
            if key in memo:
                return memo[key]
            if X in self.terminals:
                r = (j == i + 1 and toks_names[i] == X)
            elif j == i + 1:
                r = toks_names[i] in self.term_rules.get(X, ())
            else:
                r = False
                for (B, C) in self.bin_rules.get(X, ()):
                    for k in range(i + 1, j):
                        if d(B, i, k) and d(C, k, j):
                            r = True; break
                    if r:
                        break
            memo[key] = r
            return r
        return d(start, 0, n)

    def formula(self, solver, toks, start='Aidl'):
        N = len(toks)
        Dm = {}
        tix = self.tix

        def teq(i, X):
            return z3.simplify(toks[i] == z3.BitVecVal(tix[X], 6))

        def d(X, i, j):
            key = (X, i, j)
            if key in Dm:
                return Dm[key]
            if X in self.terminals:
                v = teq(i, X) if j == i + 1 else z3.BoolVal(False)
                Dm[key] = v
                return v
            alts = []
            if j == i + 1:
                for a in self.term_rules.get(X, ()):
                    e = teq(i, a)
                    if not z3.is_false(e):
                        alts.append(e)
            else:
                for (B, C) in self.bin_rules.get(X, ()):
                    for k in range(i + 1, j):
                        l = d(B, i, k)
                        if z3.is_false(l):
                            continue
                        r = d(C, k, j)
                        if z3.is_false(r):
                            continue
                        alts.append(z3.And(l, r))
            if not alts:
                Dm[key] = z3.BoolVal(False)
                return Dm[key]
            if any(z3.is_true(a) for a in alts):
                Dm[key] = z3.BoolVal(True)
                return Dm[key]
            v = z3.Bool('d_%s_%d_%d' % (X, i, j))
            solver.add(v == z3.Or(alts))
            Dm[key] = v
            return v
        if N == 0:
            return z3.BoolVal(start in self.nullable)
        return d(start, 0, N)
