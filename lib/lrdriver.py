"""Engine P, part 2: model of lalrpop_util 0.19.8 `state_machine::Parser` (states only, no semantic values) including
`error_recovery` and `accepts`, over the tables of tables.py.

`parse` runs it concretely; `explore` runs it by path-forking symbolic execution: each symbolic token carries a domain of
terminals, every table look-up on a symbolic token partitions the domain by the looked-up value and forks, so stacks are
concrete on every path and a path stands for the box (product of domains) of all token assignments that follow it.
The model is validated against the real parser on every run (translation validation, see check code)."""
from tables import goto


class Done(Exception):
    def __init__(self, ok):
        self.ok = ok


def run_driver(T, n, lookup):
    """Driver over `n` tokens; token values are only observed through lookup(i, f) = f(token_i).
    Returns (accepted, errors, trace): errors = [('recovered'|'final', 'tok'|'eof'|'extra', index|None)],
    trace = [(reduce index, position, stack depth after)]."""
    ACT, EOFA, NT, ERR, RED, ACCEPT = T.action, T.eof, T.nterm, T.err, T.red, T.accept
    states = [0]
    starts = []          # start token index of every symbol on the stack (parallel to states[1:])
    errors = []
    pos = [0]
    trace = []

    def action(s, i):
        return lookup(i, lambda t: ACT[s * NT + t])

    def reduce(r):
        if r in ACCEPT:
            return True
        pop, nt = RED[r]
        la = pos[0] - 1 if look_held[0] else pos[0]      # index of the lookahead token (n at EOF)
        if pop:
            st = starts[-pop]
            del states[-pop:]
            del starts[-pop:]
        else:
            st = la
        states.append(goto(T, states[-1], nt))
        starts.append(st)
        trace.append((r, st, la - 1))                    # extent [first token, last token] (empty when st > end)
        return False

    look_held = [False]

    def next_token():
        if pos[0] < n:
            pos[0] += 1
            look_held[0] = True
            return pos[0] - 1
        look_held[0] = False
        return None

    def accepts(error_state, sts, i):
        sts = list(sts) + [error_state]
        while True:
            top = sts[-1]
            a = EOFA[top] if i is None else action(top, i)
            if a == 0:
                return False
            if a > 0:
                return True
            r = -(a + 1)
            if r in ACCEPT:
                return True
            p, nt = RED[r]
            if p:
                del sts[-p:]
            sts.append(goto(T, sts[-1], nt))

    def error_recovery(look):
        err = ('tok', look) if look is not None else ('eof', None)
        while True:
            a = ACT[states[-1] * NT + ERR]
            if a < 0:
                if reduce(-(a + 1)):
                    raise Done(True)
            else:
                break
        states_len = len(states)
        while True:
            found = None
            for top in range(states_len - 1, -1, -1):
                a = ACT[states[top] * NT + ERR]
                if a > 0 and accepts(a - 1, states[:top + 1], look):
                    found = top
                    break
            if found is not None:
                break
            if look is None:
                errors.append(('final',) + err)
                raise Done(False)
            look = next_token()
        del states[found + 1:]
        del starts[found:]
        states.append(ACT[states[found] * NT + ERR] - 1)
        starts.append(err[1] if err[1] is not None else n)
        errors.append(('recovered',) + err)
        trace.append(('recover', err[1] if err[1] is not None else n, (look - 1) if look is not None else n - 1))
        return look

    def parse_eof():
        while True:
            a = EOFA[states[-1]]
            if a < 0:
                if reduce(-(a + 1)):
                    return True
            else:
                error_recovery(None)

    try:
        while True:
            look = next_token()
            if look is None:
                return (parse_eof(), errors, trace)
            while True:
                a = action(states[-1], look)
                if a > 0:
                    states.append(a - 1)
                    starts.append(look)
                    look_held[0] = False
                    break
                elif a < 0:
                    if reduce(-(a + 1)):
                        errors.append(('final', 'extra', look))
                        return (False, errors, trace)
                else:
                    look = error_recovery(look)
                    if look is None:
                        return (parse_eof(), errors, trace)
    except Done as d:
        return (d.ok, errors, trace)


def parse(T, toks):
    return run_driver(T, len(toks), lambda i, f: f(toks[i]))


def explore(T, mk_tokens, on_path, limit=10 ** 8, first_split=None):
    """mk_tokens() -> list of tokens: int (concrete) or set (symbolic domain). on_path(doms, result) per path.
    first_split = (k, j): explore only the paths whose FIRST fork takes alternative j of ... (not used; splitting is done
    by the caller through the domain of the first symbolic token)."""
    work = [[]]
    npaths = 0
    while work:
        decisions = work.pop()
        toks = mk_tokens()
        doms = [({t} if isinstance(t, int) else set(t)) for t in toks]
        used = [0]

        def lookup(i, f, decisions=decisions):
            d = doms[i]
            if len(d) == 1:
                return f(next(iter(d)))
            groups = {}
            for t in sorted(d):
                groups.setdefault(f(t), set()).add(t)
            if len(groups) == 1:
                return next(iter(groups))
            keys = sorted(groups)
            idx = used[0]
            if idx < len(decisions):
                c = decisions[idx]
            else:
                c = 0
                for alt in range(1, len(keys)):
                    work.append(decisions[:idx] + [alt])
                decisions.append(0)
            used[0] += 1
            doms[i] = groups[keys[c]]
            return keys[c]
        res = run_driver(T, len(toks), lookup)
        npaths += 1
        on_path(doms, res)
        if npaths >= limit:
            break
    return npaths
