"""Engine L: the generated lexer table (`__intern_token`: 37 patterns in priority order, after lalrpop expanded character
classes) -> z3 regular expressions; whole-token obligations of C03 over an unbounded word w."""
import re
import time

import z3

MAXC = 0x2FFFF


def rust_unescape(s):
    out, k = [], 0
    while k < len(s):
        c = s[k]
        if c == '\\':
            n = s[k + 1]
            if n == 'u':
                e = s.index('}', k)
                out.append(chr(int(s[k + 3:e], 16)))
                k = e + 1
                continue
            out.append({'n': '\n', 'r': '\r', 't': '\t', '0': '\0', '\\': '\\', '"': '"', "'": "'"}[n])
            k += 2
        else:
            out.append(c)
            k += 1
    return ''.join(out)


def patterns(path):
    src = open(path).read()
    i = src.index('mod __intern_token {')
    j = src.index('__lalrpop_util::lexer::MatcherBuilder::new', i)
    body = src[i:j]
    entries = re.findall(r'\("((?:[^"\\]|\\.)*)", (true|false)\),', body)
    return [(rust_unescape(p), skip == 'true') for p, skip in entries]


def ch(c):
    return min(ord(c), MAXC)


class P:
    """regex-syntax subset that lalrpop emits (escapes already literal): alternation, concatenation, * + ?, classes, groups."""

    def __init__(self, s):
        self.s, self.k = s, 0

    def peek(self):
        return self.s[self.k] if self.k < len(self.s) else None

    def eat(self):
        c = self.s[self.k]
        self.k += 1
        return c

    def alt(self):
        xs = [self.cat()]
        while self.peek() == '|':
            self.eat()
            xs.append(self.cat())
        return xs[0] if len(xs) == 1 else z3.Union(*xs)

    def cat(self):
        xs = []
        while self.peek() is not None and self.peek() not in '|)':
            xs.append(self.rep())
        if not xs:
            return z3.Re('')
        return xs[0] if len(xs) == 1 else z3.Concat(*xs)

    def rep(self):
        a = self.atom()
        while self.peek() in ('*', '+', '?'):
            q = self.eat()
            a = z3.Star(a) if q == '*' else z3.Plus(a) if q == '+' else z3.Option(a)
        return a

    def atom(self):
        c = self.eat()
        if c == '(':
            if self.s.startswith('?:', self.k):
                self.k += 2
            a = self.alt()
            assert self.eat() == ')'
            return a
        if c == '[':
            neg = False
            if self.peek() == '^':
                neg = True
                self.eat()
            rs = []
            while self.peek() != ']':
                lo = self.eat()
                if lo == '\\':
                    lo = self.eat()
                if self.peek() == '-' and self.s[self.k + 1] != ']':
                    self.eat()
                    hi = self.eat()
                    if hi == '\\':
                        hi = self.eat()
                else:
                    hi = lo
                if ch(lo) <= MAXC:
                    rs.append(z3.Range(chr(ch(lo)), chr(min(ord(hi), MAXC))))
            self.eat()
            r = rs[0] if len(rs) == 1 else z3.Union(*rs)
            if neg:
                r = z3.Intersect(z3.AllChar(z3.ReSort(z3.StringSort())), z3.Complement(r))
            return r
        if c == '\\':
            return z3.Re(self.eat())
        if c == '^':
            return z3.Re('')
        if c == '.':
            return z3.AllChar(z3.ReSort(z3.StringSort()))
        return z3.Re(c)


REF_KEYWORDS = ['package', 'import', 'interface', 'parcelable', 'enum', 'oneway', 'const', 'in', 'out', 'inout', 'void', 'byte', 'short', 'int', 'long', 'float', 'double',
                'boolean', 'char', 'String', 'CharSequence', 'List', 'Map', 'true', 'false']
REF_RESERVED = ('break case catch char class continue default do double else enum false float for goto if int long new private protected public return short static '
                'switch this throw true try void volatile while').split()


def member(r, w):
    s = z3.Solver()
    s.add(z3.InRe(z3.StringVal(w), r))
    return s.check() == z3.sat


def literal_alternatives(pat):
    """['a', 'b', ..] when the pattern is `^(lit)` or `^((a|b|c))` over plain literals (possibly with escapes), else None."""
    m = re.match(r'^\^\((.*)\)$', pat, re.S)
    if not m:
        return None
    body = m.group(1)
    if body.startswith('(') and body.endswith(')'):
        body = body[1:-1]
    alts, cur, k = [], '', 0
    while k < len(body):
        c = body[k]
        if c == '\\' and k + 1 < len(body):
            cur += body[k + 1]; k += 2; continue
        if c == '|':
            alts.append(cur); cur = ''; k += 1; continue
        if c in '()[]*+?.{}^$':
            return None
        cur += c; k += 1
    alts.append(cur)
    return alts


def leftmost_first_winner(pats, word):
    """Index of the pattern that wins on input `word` followed by a non-identifier character, under the generated lexer's rule:
    each pattern's match is its leftmost-first match (for an alternation of literals: the FIRST alternative that is a prefix),
    the longest match wins, ties go to the higher index.  Only literal-alternation patterns and the three identifier-ish class
    patterns are considered (others cannot match an identifier-shaped word)."""
    best, blen = None, -1
    for k, (p, skip) in enumerate(pats):
        alts = literal_alternatives(p)
        if alts is not None:
            ln = next((len(a) for a in alts if word.startswith(a)), -1)
        elif re.match(r'^\^\(\[A-Z_a-z\]\[0-9A-Z_a-z\]\*\)$', p):
            mm = re.match(r'[A-Za-z_][A-Za-z0-9_]*', word)
            ln = len(mm.group(0)) if mm else -1
        else:
            continue
        if ln >= blen and ln > 0:
            best, blen = k, ln
    return best, blen


def obligations(path):
    """-> list of (name, status 'holds'|'violated'|'inconclusive', witness, seconds)"""
    pats = patterns(path)
    res = []
    for p, _skip in pats:
        try:
            res.append(P(p).alt())
        except Exception:
            res.append(None)
    ident = [k for k, r in enumerate(res) if r is not None and member(r, 'foo_1') and not member(r, '1') and not member(r, '@foo_1')]
    out = []
    if len(ident) != 1 or any(r is None for r in res):
        return [('lexer table shape', 'inconclusive', 'IDENT candidates %s, unparsed patterns %d' % (ident, sum(r is None for r in res)), 0.0)], pats
    ID = ident[0]
    higher = [res[k] for k in range(ID + 1, len(res)) if not pats[k][1]]
    w = z3.String('w')
    words = sorted(set(REF_KEYWORDS + REF_RESERVED))
    t0 = time.time()
    s = z3.Solver()
    s.set('timeout', 120000)
    s.add(z3.Or([w == z3.StringVal(k) for k in words]), z3.InRe(w, res[ID]), z3.And([z3.Not(z3.InRe(w, r)) for r in higher]))
    r1 = s.check()
    out.append(('no AIDL keyword or reserved Java/C++ word wins as IDENT (whole-token, priority order of the generated table)',
                'holds' if r1 == z3.unsat else 'violated' if r1 == z3.sat else 'inconclusive', str(s.model()[w]).strip('"') if r1 == z3.sat else None, time.time() - t0))
    # leftmost-first refinement: inside ONE pattern the regex crate takes the first alternative that matches, so `(in|inout|out)`
    # would lex `inout` as `in` + identifier although `inout` is in the pattern's language.  Finite computation per reference word.
    lost = []
    for kw in words:
        k, ln = leftmost_first_winner(pats, kw)
        if k is None or k == ID or ln != len(kw):
            lost.append(kw)
    out.append(('every keyword / reserved word is matched in full by a non-IDENT pattern under leftmost-first alternative order (%d words)' % len(words),
                'holds' if not lost else 'violated', lost[0] if lost else None, 0.0))
    t0 = time.time()
    s = z3.Solver()
    s.set('timeout', 120000)
    identre = z3.Concat(z3.Union(z3.Range('a', 'z'), z3.Range('A', 'Z'), z3.Re('_')), z3.Star(z3.Union(z3.Range('a', 'z'), z3.Range('A', 'Z'), z3.Range('0', '9'), z3.Re('_'))))
    s.add(z3.And([w != z3.StringVal(k) for k in words]), z3.InRe(w, identre), z3.Or(z3.Not(z3.InRe(w, res[ID])), z3.Or([z3.InRe(w, r) for r in higher])))
    r2 = s.check()
    out.append(('every other identifier-shaped word [A-Za-z_][A-Za-z0-9_]* lexes as IDENT (unbounded length)',
                'holds' if r2 == z3.unsat else 'violated' if r2 == z3.sat else 'inconclusive', str(s.model()[w]).strip('"') if r2 == z3.sat else None, time.time() - t0))
    return out, pats
