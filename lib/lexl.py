"""Engine L: the generated lexer table (`__intern_token`: 37 patterns in priority order, after lalrpop expanded character
classes) -> z3 regular expressions; whole-token obligations of C03 over an unbounded word w."""
import re
import time

import z3

MAXC = 0x2FFFF


def rust_unescape(s):
    out, k = [], 0
    while k < len(s):
        c = s[k]
        if c == '\\':
            n = s[k + 1]
            if n == 'u':
                e = s.index('}', k)
                out.append(chr(int(s[k + 3:e], 16)))
                k = e + 1
                continue
            out.append({'n': '\n', 'r': '\r', 't': '\t', '0': '\0', '\\': '\\', '"': '"', "'": "'"}[n])
            k += 2
        else:
            out.append(c)
            k += 1
    return ''.join(out)


def patterns(path):
    src = open(path).read()
    i = src.index('mod __intern_token {')
    j = src.index('__lalrpop_util::lexer::MatcherBuilder::new', i)
    body = src[i:j]
    entries = re.findall(r'\("((?:[^"\\]|\\.)*)", (true|false)\),', body)
    return [(rust_unescape(p), skip == 'true') for p, skip in entries]


def ch(c):
    return min(ord(c), MAXC)


class P:
    """regex-syntax subset that lalrpop emits (escapes already literal): alternation, concatenation, * + ?, classes, groups."""

    def __init__(self, s):
        self.s, self.k = s, 0

    def peek(self):
        return self.s[self.k] if self.k < len(self.s) else None

    def eat(self):
        c = self.s[self.k]
        self.k += 1
        return c

    def alt(self):
        xs = [self.cat()]
        while self.peek() == '|':
            self.eat()
            xs.append(self.cat())
        return xs[0] if len(xs) == 1 else z3.Union(*xs)

    def cat(self):
        xs = []
        while self.peek() is not None and self.peek() not in '|)':
            xs.append(self.rep())
        if not xs:
            return z3.Re('')
        return xs[0] if len(xs) == 1 else z3.Concat(*xs)

    def rep(self):
        a = self.atom()
        while self.peek() in ('*', '+', '?'):
            q = self.eat()
            a = z3.Star(a) if q == '*' else z3.Plus(a) if q == '+' else z3.Option(a)
        return a

    def atom(self):
        c = self.eat()
        if c == '(':
            if self.s.startswith('?:', self.k):
                self.k += 2
            a = self.alt()
            assert self.eat() == ')'
            return a
        if c == '[':
            neg = False
            if self.peek() == '^':
                neg = True
                self.eat()
            rs = []
            while self.peek() != ']':
                lo = self.eat()
                if lo == '\\':
                    lo = self.eat()
                if self.peek() == '-' and self.s[self.k + 1] != ']':
                    self.eat()
                    hi = self.eat()
                    if hi == '\\':
                        hi = self.eat()
                else:
                    hi = lo
                if ch(lo) <= MAXC:
                    rs.append(z3.Range(chr(ch(lo)), chr(min(ord(hi), MAXC))))
            self.eat()
            r = rs[0] if len(rs) == 1 else z3.Union(*rs)
            if neg:
                r = z3.Intersect(z3.AllChar(z3.ReSort(z3.StringSort())), z3.Complement(r))
            return r
        if c == '\\':
            return z3.Re(self.eat())
        if c == '^':
            return z3.Re('')
        if c == '.':
            return z3.AllChar(z3.ReSort(z3.StringSort()))
        return z3.Re(c)


REF_KEYWORDS = ['package', 'import', 'interface', 'parcelable', 'enum', 'oneway', 'const', 'in', 'out', 'inout', 'void', 'byte', 'short', 'int', 'long', 'float', 'double',
                'boolean', 'char', 'String', 'CharSequence', 'List', 'Map', 'true', 'false']
REF_RESERVED = ('break case catch char class continue default do double else enum false float for goto if int long new private protected public return short static '
                'switch this throw true try void volatile while').split()


def member(r, w):
    s = z3.Solver()
    s.add(z3.InRe(z3.StringVal(w), r))
    return s.check() == z3.sat


def obligations(path):
    """-> list of (name, status 'holds'|'violated'|'inconclusive', witness, seconds)"""
    pats = patterns(path)
    res = []
    for p, _skip in pats:
        try:
            res.append(P(p).alt())
        except Exception:
            res.append(None)
    ident = [k for k, r in enumerate(res) if r is not None and member(r, 'foo_1') and not member(r, '1') and not member(r, '@foo_1')]
    out = []
    if len(ident) != 1 or any(r is None for r in res):
        return [('lexer table shape', 'inconclusive', 'IDENT candidates %s, unparsed patterns %d' % (ident, sum(r is None for r in res)), 0.0)], pats
    ID = ident[0]
    higher = [res[k] for k in range(ID + 1, len(res)) if not pats[k][1]]
    w = z3.String('w')
    words = sorted(set(REF_KEYWORDS + REF_RESERVED))
    t0 = time.time()
    s = z3.Solver()
    s.set('timeout', 120000)
    s.add(z3.Or([w == z3.StringVal(k) for k in words]), z3.InRe(w, res[ID]), z3.And([z3.Not(z3.InRe(w, r)) for r in higher]))
    r1 = s.check()
    out.append(('no AIDL keyword or reserved Java/C++ word wins as IDENT (whole-token, priority order of the generated table)',
                'holds' if r1 == z3.unsat else 'violated' if r1 == z3.sat else 'inconclusive', str(s.model()[w]).strip('"') if r1 == z3.sat else None, time.time() - t0))
    t0 = time.time()
    s = z3.Solver()
    s.set('timeout', 120000)
    identre = z3.Concat(z3.Union(z3.Range('a', 'z'), z3.Range('A', 'Z'), z3.Re('_')), z3.Star(z3.Union(z3.Range('a', 'z'), z3.Range('A', 'Z'), z3.Range('0', '9'), z3.Re('_'))))
    s.add(z3.And([w != z3.StringVal(k) for k in words]), z3.InRe(w, identre), z3.Or(z3.Not(z3.InRe(w, res[ID])), z3.Or([z3.InRe(w, r) for r in higher])))
    r2 = s.check()
    out.append(('every other identifier-shaped word [A-Za-z_][A-Za-z0-9_]* lexes as IDENT (unbounded length)',
                'holds' if r2 == z3.unsat else 'violated' if r2 == z3.sat else 'inconclusive', str(s.model()[w]).strip('"') if r2 == z3.sat else None, time.time() - t0))
    return out, pats
