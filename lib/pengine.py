"""Engine P glue: tables of the current tree, translation validation of the driver model against the real parser,
frame helpers shared by C03 and C14."""
import random
import re

import lrdriver
import replay
import tables


def load():
    return tables.extract(replay.generated_parser())


def error_prods(T):
    """reduce indices of the `!` (error) productions, by lhs."""
    return {r: lhs for r, (lhs, rhs, _a) in T.prod.items() if rhs.strip() == 'error'}


def native_run(T, seqs, names=None):
    """Runs token sequences (lists of terminal indices) through the real parser (one replay process).
    names[k] (optional) = dict token index -> lexeme override.
    Returns per sequence: dict(ast=bool, errors=[(recovered|final, token index | 'eof' | None)], members=[names], text=..)"""
    files, meta = {}, {}
    for k, toks in enumerate(seqs):
        ov = (names[k] if names else None) or {}
        out, spans, pos = [], [], 0
        for i, t in enumerate(toks):
            lx = ov.get(i, tables.LEX[T.terms[t]])
            if i:
                out.append(' ')
                pos += 1
            spans.append((pos, pos + len(lx)))
            out.append(lx)
            pos += len(lx)
        fid = 's%05d.aidl' % k
        files[fid] = ''.join(out)
        meta[fid] = spans
    r = replay.project(files)
    if r.get('panic') or 'crash' in r:
        raise RuntimeError('native run failed: %s' % str(r)[:300])
    res = []
    for k in range(len(seqs)):
        fid = 's%05d.aidl' % k
        fr = r['files'][fid]['parse']
        spans = meta[fid]
        errs = []
        for d in fr['diags']:
            if d['kind'] != 'Error':
                continue
            msg = d['message']
            if not ('Unrecognized' in msg or 'Extra token' in msg or 'Invalid token' in msg):
                continue      # e.g. invalid transact code: not a syntax-recovery event
            how = 'recovered' if re.match(r'^Invalid [a-z ]+ - ', msg) else 'final'
            s, e = d['range'][0], d['range'][1]
            idx = None
            for i, (a, b) in enumerate(spans):
                if a == s and b == e:
                    idx = i
            if 'EOF' in msg:
                idx = 'eof'
            errs.append((how, idx))
        a = fr['ast']
        res.append({'ast': a is not None, 'errors': errs, 'members': [m['name'] for m in a['members']] if a else None,
                    'member_spans': [(m['full'][0], m['full'][1]) for m in a['members']] if a else None,
                    'diag_ranges': [(d['range'][0], d['range'][1]) for d in fr['diags'] if d['kind'] == 'Error'],
                    'text': files[fid], 'spans': spans, 'expected': r['files'][fid]['expected'],
                    'messages': [d['message'] for d in fr['diags']]})
    return res


def model_errors(errors):
    out = []
    for e in errors:
        how, what, idx = e
        out.append((how, 'eof' if what == 'eof' else idx))
    return out


def item_dropped(T, trace):
    ep = error_prods(T)
    return any(r != 'recover' and ep.get(r) == 'OptItem' for (r, _a, _b) in trace)


def validate_model(T, seqs):
    """Translation validation: the model run concretely must agree with the real parser on tree presence and on the ordered
    list of syntax errors (kind, offending token). Returns (number compared, list of disagreements)."""
    nat = native_run(T, seqs)
    bad = []
    for toks, nr in zip(seqs, nat):
        ok, errors, trace = lrdriver.parse(T, toks)
        want_ast = ok and not item_dropped(T, trace)
        me = model_errors(errors)
        if want_ast != nr['ast'] or me != nr['errors']:
            bad.append({'text': nr['text'], 'model': {'ast': want_ast, 'errors': me}, 'native': {'ast': nr['ast'], 'errors': nr['errors']}})
    return len(seqs), bad


def S(T, *xs):
    return [T.tix[x] for x in xs]


def random_sequences(T, seed, n):
    rnd = random.Random(seed)
    nt = T.nterm - 1
    frames = [(S(T, 'PACKAGE', 'IDENT', '";"', 'INTERFACE', 'IDENT', '"{"'), S(T, '"}"')),
              (S(T, 'PACKAGE', 'IDENT', '";"', 'PARCELABLE', 'IDENT', '"{"'), S(T, '"}"')),
              (S(T, 'PACKAGE', 'IDENT', '";"', 'ENUM', 'IDENT', '"{"'), S(T, '"}"')),
              (S(T, 'PACKAGE', 'IDENT', '";"'), []), ([], [])]
    good = [S(T, 'VOID', 'IDENT', '"("', '")"', '";"'), S(T, 'PRIMITIVE', 'IDENT', '";"'), S(T, 'IDENT', '","'),
            S(T, 'CONST', 'PRIMITIVE', 'IDENT', '"="', 'INTEGER', '";"'), S(T, 'IMPORT', 'IDENT', '"."', 'IDENT', '";"'),
            S(T, 'LIST', '"<"', 'STRING', '">"', 'IDENT', '"("', 'DIRECTION', 'PRIMITIVE', '"["', '"]"', 'IDENT', '")"', '"="', 'INTEGER', '";"')]
    out = []
    for _ in range(n):
        pre, suf = rnd.choice(frames)
        mid = []
        for _ in range(rnd.randint(0, 3)):
            if rnd.random() < 0.5:
                mid += rnd.choice(good)
            else:
                mid += [rnd.randrange(nt) for _ in range(rnd.randint(1, 4))]
        out.append(pre + mid + suf)
    return out
