"""z3 helper: string queries of this framework are small, but z3's sequence solver occasionally wanders off on a query it
answers instantly under another random seed (observed: the same 13 assertions 'unknown' after 20 s, 'sat' in 0.01 s on retry).
check() therefore tries a ladder of (timeout, seed) pairs and returns the first definite answer."""
import z3

LADDER = ((1500, 0), (1500, 1), (3000, 2), (6000, 3), (12000, 4), (30000, 5))


def check(assertions, total_ms=60000):
    spent = 0
    r = z3.unknown
    last = None
    for (t, seed) in LADDER:
        if spent >= total_ms:
            break
        t = min(t, total_ms - spent)
        s = z3.Solver()
        s.set('timeout', t)
        s.set('random_seed', seed)
        s.add(*assertions)
        r = s.check()
        last = s
        spent += t
        if r != z3.unknown:
            return r, s
    return r, last
