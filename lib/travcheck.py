"""Traversal obligations decided with engine T (lib/tmir.py) on the MIR of the current tree.

Inductive structure (see DESIGN.md, engine T):
  STEP   for each recursive type walker `visit_type`:  assuming the recursive calls behave as specified (visit the child's
         subtree completely in reference order, or stop at the first Break and return it), one call on a node with 0..3
         children visits  [children..., node] for arrays and [node, children...] otherwise, with the same Break behaviour.
         => by induction on the depth, `visit_type(t)` emits the reference order of the whole subtree of t, for any depth.
  OUTER  for each public walker, with `visit_type` replaced by that summary: for every tree within the width bounds
         (imports, members, arguments <= 2) and every filter level the event sequence is the reference pre-order, and a
         Break from the callback stops the walk at once and is returned.
  find_symbol / filter_symbols / find_symbol_at_line_col are executed the same way on top of OUTER.
"""
import re

import z3

import mir
import tmir

LEVELS = ['ItemsOnly', 'ItemsAndItemElements', 'All']


class Setup:
    def __init__(self, txt=None):
        self.txt = txt or mir.dump_mir()
        self.prog = tmir.parse_program(self.txt)
        self.structs, self.enums = mir.layouts()
        src = open(mir.os.path.join(mir.REPO, 'src/traverse.rs')).read()
        m = re.search(r'pub enum SymbolFilter \{(.*?)\n\}', src, re.S)
        body = re.sub(r'//[^\n]*', '', m.group(1)) if m else ''
        self.enums['SymbolFilter'] = re.findall(r'^\s*(\w+),', body, re.M)
        if self.enums['SymbolFilter'] != LEVELS:
            raise mir.Unsupported('SymbolFilter variants are %s' % self.enums['SymbolFilter'])

    def fn(self, name):
        c = [f for f in self.prog.fns if f.name == name or f.name.endswith('::' + name)]
        c = [f for f in c if '{closure' not in f.name.split(name)[-1] and '::verif::' not in f.name and not f.name.startswith('verif::')]
        if len(c) != 1:
            raise mir.Unsupported('function %s: %d candidates' % (name, len(c)))
        return c[0]

    def fidx(self, struct, field):
        return self.structs[struct].index(field)


def ev_node(e):
    """(kind, node path) of an event"""
    if e[0] == 'subtree':
        return ('subtree', e[2].path)
    if e[0] == 'call':
        if len(e[2]) >= 2:
            return ('args', tuple(x.path if hasattr(x, 'path') else str(x) for x in e[2]))
        a = e[2][0] if e[2] else None
        if isinstance(a, tuple) and a[0] == 'enum' and a[1] == 'Symbol':
            return (a[2], tuple(x.path if hasattr(x, 'path') else str(x) for x in a[3]))
        if hasattr(a, 'path'):
            return ('node', a.path)
        if isinstance(a, tuple) and a[0] == 'tuple':
            return ('args', tuple(x.path if hasattr(x, 'path') else str(x) for x in a[1]))
        return ('?', str(a))
    if e[0] == 'push':
        a = e[2]
        if isinstance(a, tuple) and a[0] == 'enum':
            return ('push', (a[2], tuple(x.path if hasattr(x, 'path') else str(x) for x in a[3])))
        return ('push', str(a))
    if e[0] == 'opaque':
        return ('opaque:' + e[1], tuple(x.path if hasattr(x, 'path') else str(x)[:30] for x in e[2]))
    return (e[0], None)


def model_of(st):
    import zutil
    r, s = zutil.check(list(st.pc), 60000)
    if r != z3.sat:
        return None
    return s.model()


def check_break_semantics(events, ret, R, cf=True):
    """events: executed callback/summary events with results; R: reference sequence of nodes.  Returns error text or None."""
    got = [ev_node(e) for e in events if e[0] in ('call', 'subtree')]
    if got != R[:len(got)]:
        k = next((i for i in range(min(len(got), len(R))) if got[i] != R[i]), min(len(got), len(R)))
        return 'visit #%d is %s, reference order has %s' % (k, got[k] if k < len(got) else 'nothing', R[k] if k < len(R) else 'nothing')
    res = [e[-1] for e in events if e[0] in ('call', 'subtree')]
    if not cf:
        if len(got) != len(R):
            return 'visited %d of %d nodes' % (len(got), len(R))
        return None
    if 'Break' in res[:-1]:
        return 'the walk continued after a Break at visit #%d' % res.index('Break')
    if res and res[-1] == 'Break':
        idx = [i for i, e in enumerate(events) if e[0] in ('call', 'subtree')][-1]
        if not (isinstance(ret, tuple) and ret[:3] == ('enum', 'ControlFlow', 'Break') and ret[3] and ret[3][0] == ('breakval', idx)):
            return 'a Break from visit #%d is not what the walker returns (%r)' % (len(res) - 1, ret[:4] if isinstance(ret, tuple) else ret)
        return None
    if len(got) != len(R):
        return 'visited %d of %d nodes without any Break' % (len(got), len(R))
    if not (isinstance(ret, tuple) and ret[:3] == ('enum', 'ControlFlow', 'Continue')):
        return 'complete walk does not return Continue'
    return None


def step_obligation(S, fname, cf):
    """Inductive step for one recursive type walker.  Returns (ok, paths, detail)."""
    fn = S.fn(fname)
    mut = 'walk_types_mut' in fname
    ex = tmir.Exec(S.prog, S.enums, S.structs, max_len=3, summaries=[r'visit_type'])
    t = ex.obj('t', 'Type')
    f = ex.obj('f', 'F')
    paths = ex.run_fn(fn, [t, f], tmir.State())
    gi = S.fidx('Type', 'generic_types')
    ki = S.fidx('Type', 'kind')
    arr = S.enums['TypeKind'].index('Array')
    bad = []
    seen_shapes = set()
    for st, ret in paths:
        m = model_of(st)
        if m is None:
            continue
        n = st.lens.get('t.%d' % gi)
        kd = m.eval(z3.Int('t.%d#disc' % ki), True).as_long()
        is_arr = (kd == arr) and not mut
        me = [('Type', ('t',))] if fname.startswith('walk_symbols') else [('node', 't')]
        if n is None:
            # legitimate only when the node itself was visited first and the callback broke there
            res = [e[-1] for e in st.events if e[0] in ('call', 'subtree')]
            if is_arr or res != ['Break']:
                bad.append('the children of the node were never iterated')
                continue
            n = 0
        else:
            seen_shapes.add((is_arr, n))
        kids = [('subtree', 't.%d[%d]' % (gi, k)) for k in range(n)]
        R = kids + me if is_arr else me + kids
        err = check_break_semantics(st.events, ret, R, cf=bool(cf))
        if err:
            bad.append('%s node with %d children: %s' % ('array' if is_arr else 'non-array', n, err))
    want = {(a, n) for a in ((False,) if mut else (True, False)) for n in range(4)}
    if not want <= seen_shapes:
        bad.append('shapes not reached: %s' % sorted(want - seen_shapes))
    return (not bad), len(paths), bad


# ---------------------------------------------------------------------------------------------------------------------------
# reference pre-order for the outer walkers, from the tree a path describes
# ---------------------------------------------------------------------------------------------------------------------------
def tree_of(S, st, m, root='ast'):
    """concrete description of the tree on this path (only what the path constrains; unconstrained vectors are empty)."""
    A = S.fidx

    def dv(path, ty):
        v = m.eval(z3.Int(path + '#disc'), True).as_long()
        names = S.enums[ty]
        return names[v] if 0 <= v < len(names) else names[0]

    def ln(path):
        return st.lens.get(path, 0)
    t = {'package': '%s.%d' % (root, A('Aidl', 'package')), 'imports': ['%s.%d[%d]' % (root, A('Aidl', 'imports'), k) for k in range(ln('%s.%d' % (root, A('Aidl', 'imports'))))]}
    ip = '%s.%d' % (root, A('Aidl', 'item'))
    kind = dv(ip, 'Item')
    t['kind'] = kind
    node = '%s@%s.0' % (ip, kind)
    t['item'] = node
    els = []
    ep = '%s.%d' % (node, A(kind, 'elements'))
    for k in range(ln(ep)):
        e = '%s[%d]' % (ep, k)
        if kind == 'Enum':
            els.append(('EnumElement', e))
            continue
        ev = dv(e, 'InterfaceElement' if kind == 'Interface' else 'ParcelableElement')
        n2 = '%s@%s.0' % (e, ev)
        if ev == 'Method':
            ap = '%s.%d' % (n2, A('Method', 'args'))
            args = []
            for j in range(ln(ap)):
                a = '%s[%d]' % (ap, j)
                args.append((a, '%s.%d' % (a, A('Arg', 'arg_type'))))
            els.append(('Method', n2, '%s.%d' % (n2, A('Method', 'return_type')), args))
        elif ev == 'Const':
            els.append(('Const', n2, '%s.%d' % (n2, A('Const', 'const_type'))))
        else:
            els.append(('Field', n2, '%s.%d' % (n2, A('Field', 'field_type'))))
    t['elements'] = els
    return t


def ref_symbols(S, t, level):
    R = []
    if level == 'All':
        R.append(('Package', (t['package'],)))
        R += [('Import', (i,)) for i in t['imports']]
    kind = t['kind']
    R.append((kind, (t['item'], t['package'])))
    if level == 'ItemsOnly':
        return R
    for e in t['elements']:
        if e[0] == 'EnumElement':
            R.append(('EnumElement', (e[1], t['item'])))
        elif e[0] == 'Method':
            R.append(('Method', (e[1], t['item'])))
            if level == 'All':
                R.append(('subtree', e[2]))
                for (a, ty) in e[3]:
                    R.append(('Arg', (a, e[1])))
                    R.append(('subtree', ty))
        elif e[0] == 'Const':
            R.append(('Const', (e[1], 'owner')))
            if level == 'All':
                R.append(('subtree', e[2]))
        else:
            R.append(('Field', (e[1], t['item'])))
            if level == 'All':
                R.append(('subtree', e[2]))
    return R


def norm_const_owner(node):
    if node[0] == 'Const':
        return ('Const', (node[1][0], 'owner'))
    return node


def ref_types(t):
    R = []
    for e in t['elements']:
        if e[0] == 'Method':
            R.append(('subtree', e[2]))
            R += [('subtree', ty) for (_a, ty) in e[3]]
        elif e[0] in ('Const', 'Field'):
            R.append(('subtree', e[2]))
    return R


def level_of(m):
    v = m.eval(z3.Int('filter#disc'), True).as_long()
    return LEVELS[v] if 0 <= v < 3 else LEVELS[0]



def outer_shapes(S, max_len):
    """pre-seeded vector lengths for the outer walkers: imports, members and the argument list of every potential method."""
    import itertools
    A = S.fidx
    shapes = []
    for ni in range(max_len + 1):
        for ne in range(max_len + 1):
            for na in itertools.product(range(max_len + 1), repeat=ne):
                lens = {'ast.%d' % A('Aidl', 'imports'): ni}
                for kind in ('Interface', 'Parcelable', 'Enum'):
                    lens['ast.%d@%s.0.%d' % (A('Aidl', 'item'), kind, A(kind, 'elements'))] = ne
                for k in range(ne):
                    lens['ast.%d@Interface.0.%d[%d]@Method.0.%d' % (A('Aidl', 'item'), A('Interface', 'elements'), k, A('Method', 'args'))] = na[k]
                shapes.append(lens)
    return shapes


def type_roots(S, focus_name):
    A = S.fidx
    i, p = 'ast.%d@Interface.0.%d[0]' % (A('Aidl', 'item'), A('Interface', 'elements')), 'ast.%d@Parcelable.0.%d[0]' % (A('Aidl', 'item'), A('Parcelable', 'elements'))
    return {'return type': ['%s@Method.0.%d' % (i, A('Method', 'return_type'))],
            'argument type': ['%s@Method.0.%d[0].%d' % (i, A('Method', 'args'), A('Arg', 'arg_type'))],
            'constant type': ['%s@Const.0.%d' % (i, A('Const', 'const_type')), '%s@Const.0.%d' % (p, A('Const', 'const_type'))],
            'field type': ['%s@Field.0.%d' % (p, A('Field', 'field_type'))]}[focus_name]


def deep_shapes(S, focus_name):
    """pre-seeded lengths for the DEEP runs: one import, one member, one argument; the focused type has n1 <= 2 parameters,
    each with n2 <= 1 parameters (leaves below); every other type is a leaf (bounded by deep_bounds)."""
    import itertools
    A = S.fidx
    g = A('Type', 'generic_types')
    base = {'ast.%d' % A('Aidl', 'imports'): 1}
    for kind in ('Interface', 'Parcelable', 'Enum'):
        base['ast.%d@%s.0.%d' % (A('Aidl', 'item'), kind, A(kind, 'elements'))] = 1
    base['ast.%d@Interface.0.%d[0]@Method.0.%d' % (A('Aidl', 'item'), A('Interface', 'elements'), A('Method', 'args'))] = 1
    shapes = []
    for n1 in range(3):
        for n2 in itertools.product(range(2), repeat=n1):
            lens = dict(base)
            for root in type_roots(S, focus_name):
                lens['%s.%d' % (root, g)] = n1
                for i in range(n1):
                    lens['%s.%d[%d].%d' % (root, g, i, g)] = n2[i]
                    for j in range(n2[i]):
                        lens['%s.%d[%d].%d[%d].%d' % (root, g, i, g, j, g)] = 0
            shapes.append(lens)
    return shapes


def leaf_bounds(S):
    """every type is a leaf (no generic parameters): used by the runs whose subject is not the type recursion"""
    g = S.fidx('Type', 'generic_types')
    G = r'\.%d' % g
    return {other + r'(%s\[\d+\])*%s$' % (G, G): 0 for other in focuses(S).values()}


def initial(lens):
    st = tmir.State()
    st.lens.update(lens)
    return st


def outer_symbols(S, max_len=2):
    """walk_symbols_with_control_flow with an opaque callback.  Returns (ok, paths, shapes, detail)."""
    fn = S.fn('walk_symbols_with_control_flow')
    ex = tmir.Exec(S.prog, S.enums, S.structs, max_len=max_len, summaries=[r'visit_type'], len_bounds=leaf_bounds(S))
    ast, flt, f = ex.obj('ast', 'Aidl'), ex.obj('filter', 'SymbolFilter'), ex.obj('f', 'F')
    paths = []
    for lens in outer_shapes(S, max_len):
        paths += ex.run_fn(fn, [ast, flt, f], initial(lens))
    bad, shapes = [], set()
    for st, ret in paths:
        m = model_of(st)
        if m is None:
            continue
        t = tree_of(S, st, m)
        level = level_of(m)
        R = ref_symbols(S, t, level)
        ev = []
        for e in st.events:
            ev.append(e)
        got_events = [(e[0], e[1], e[2], e[-1]) for e in ev]
        # normalise Const owner payload
        evn = []
        for e in st.events:
            evn.append(e)
        err = check_break_semantics_norm(st.events, ret, R)
        shapes.add((level, t['kind'], len(t['imports']), tuple(x[0] for x in t['elements'])))
        if err:
            bad.append('%s %s imports=%d members=%s: %s' % (level, t['kind'], len(t['imports']), [x[0] for x in t['elements']], err))
    return (not bad), len(paths), len(shapes), bad


def check_break_semantics_norm(events, ret, R):
    class E(tuple):
        pass
    ev2 = []
    for e in events:
        ev2.append(e)
    got = [norm_const_owner(ev_node(e)) for e in events if e[0] in ('call', 'subtree')]
    if got != R[:len(got)]:
        k = next((i for i in range(min(len(got), len(R))) if got[i] != R[i]), min(len(got), len(R)))
        return 'visit #%d is %s, reference order has %s' % (k, got[k] if k < len(got) else 'nothing', R[k] if k < len(R) else 'nothing')
    res = [e[-1] for e in events if e[0] in ('call', 'subtree')]
    if 'Break' in res[:-1]:
        return 'the walk continued after a Break at visit #%d (%s)' % (res.index('Break'), got[res.index('Break')])
    if res and res[-1] == 'Break':
        idx = [i for i, e in enumerate(events) if e[0] in ('call', 'subtree')][-1]
        if not (isinstance(ret, tuple) and ret[:3] == ('enum', 'ControlFlow', 'Break') and ret[3] and ret[3][0] == ('breakval', idx)):
            return 'a Break from visit #%d (%s) is not what the walker returns' % (len(res) - 1, got[-1])
        return None
    if len(got) != len(R):
        return 'visited %d of %d nodes without any Break; first missing %s' % (len(got), len(R), R[len(got)])
    if not (isinstance(ret, tuple) and ret[:3] == ('enum', 'ControlFlow', 'Continue')):
        return 'complete walk does not return Continue'
    return None


def derived_find(S, max_len=2):
    """find_symbol with an opaque predicate: result = first symbol (reference order) for which the predicate holds; None if none."""
    fn = S.fn('find_symbol')
    ex = tmir.Exec(S.prog, S.enums, S.structs, max_len=max_len, summaries=[r'visit_type'], len_bounds=leaf_bounds(S))
    ast, flt, f = ex.obj('ast', 'Aidl'), ex.obj('filter', 'SymbolFilter'), ex.obj('p', 'F')
    paths = []
    for lens in outer_shapes(S, max_len):
        paths += ex.run_fn(fn, [ast, flt, f], initial(lens))
    bad = []
    npk = 0
    for st, ret in paths:
        m = model_of(st)
        if m is None:
            continue
        t = tree_of(S, st, m)
        level = level_of(m)
        R = ref_symbols(S, t, level)
        got = [norm_const_owner(ev_node(e)) for e in st.events if e[0] in ('call', 'subtree')]
        res = [e[-1] for e in st.events if e[0] in ('call', 'subtree')]
        hit = [i for i, r in enumerate(res) if r in ('true', 'Break')]
        where = '%s %s members=%s' % (level, t['kind'], [x[0] for x in t['elements']])
        if got != R[:len(got)]:
            bad.append('%s: predicate is offered %s, reference order %s' % (where, got[:6], R[:6])); continue
        if hit:
            if hit[0] != len(res) - 1:
                bad.append('%s: the search went on after the predicate held at #%d (%s)' % (where, hit[0], got[hit[0]])); continue
            if not (isinstance(ret, tuple) and ret[:3] == ('enum', 'Option', 'Some')):
                bad.append('%s: predicate held at %s but the result is None' % (where, got[hit[0]])); continue
            if got[hit[0]][0] == 'Package':
                npk += 1
            v = ret[3][0]
            if got[hit[0]][0] != 'subtree':
                rn = norm_const_owner((v[2], tuple(x.path if hasattr(x, 'path') else str(x) for x in v[3]))) if isinstance(v, tuple) and v[0] == 'enum' else None
                if rn != got[hit[0]]:
                    bad.append('%s: predicate held at %s but %s is returned' % (where, got[hit[0]], rn))
        else:
            if len(got) != len(R):
                bad.append('%s: predicate never held but only %d of %d symbols were offered' % (where, len(got), len(R))); continue
            if not (isinstance(ret, tuple) and ret[:3] == ('enum', 'Option', 'None')):
                bad.append('%s: predicate never held but the result is not None' % where)
    if npk == 0:
        bad.append('no path on which the predicate selects the package (vacuity)')
    return (not bad), len(paths), bad


def derived_filter(S, max_len=2):
    fn = S.fn('filter_symbols')
    ex = tmir.Exec(S.prog, S.enums, S.structs, max_len=max_len, summaries=[r'visit_type'], len_bounds=leaf_bounds(S))
    ast, flt, f = ex.obj('ast', 'Aidl'), ex.obj('filter', 'SymbolFilter'), ex.obj('p', 'F')
    paths = []
    for lens in outer_shapes(S, max_len):
        paths += ex.run_fn(fn, [ast, flt, f], initial(lens))
    bad = []
    for st, ret in paths:
        m = model_of(st)
        if m is None:
            continue
        t = tree_of(S, st, m)
        level = level_of(m)
        R = ref_symbols(S, t, level)
        seq = [e for e in st.events if e[0] in ('call', 'subtree', 'push')]
        offered, pushed, want = [], [], []
        for e in seq:
            if e[0] == 'push':
                pushed.append(norm_const_owner(ev_node(e)[1]))
            else:
                n = norm_const_owner(ev_node(e))
                offered.append(n)
                if e[-1] == 'true':
                    want.append(n)
                if e[0] == 'subtree' and e[-1] == 'Break':
                    bad.append('a summarised subtree reports Break although the callback never breaks'); break
        where = '%s %s members=%s' % (level, t['kind'], [x[0] for x in t['elements']])
        if offered != R:
            bad.append('%s: predicate offered %d symbols, reference has %d' % (where, len(offered), len(R))); continue
        if pushed != want:
            bad.append('%s: result %s, expected the matching symbols %s' % (where, pushed[:4], want[:4]))
        if not (hasattr(ret, 'path') and ret.path.startswith('vec#')):
            bad.append('%s: result is not the collected vector' % where)
    return (not bad), len(paths), bad


def outer_types(S, fname, max_len=2):
    """walk_types / walk_types_mut with an opaque callback."""
    fn = S.fn(fname)
    ex = tmir.Exec(S.prog, S.enums, S.structs, max_len=max_len, summaries=[r'visit_type'], len_bounds=leaf_bounds(S))
    ast, f = ex.obj('ast', 'Aidl'), ex.obj('f', 'F')
    paths = []
    for lens in outer_shapes(S, max_len):
        paths += ex.run_fn(fn, [ast, f], initial(lens))
    bad, shapes = [], set()
    for st, ret in paths:
        m = model_of(st)
        if m is None:
            continue
        t = tree_of(S, st, m)
        R = ref_types(t) if t['kind'] != 'Enum' else []
        got = [ev_node(e) for e in st.events if e[0] in ('call', 'subtree')]
        shapes.add((t['kind'], tuple(x[0] for x in t['elements'])))
        if got != R:
            bad.append('%s members=%s: types offered %s, reference %s' % (t['kind'], [x[0] for x in t['elements']], got[:5], R[:5]))
    return (not bad), len(paths), len(shapes), bad


def outer_methods_args(S, fname, max_len=2):
    fn = S.fn(fname)
    ex = tmir.Exec(S.prog, S.enums, S.structs, max_len=max_len, len_bounds=leaf_bounds(S))
    ast, f = ex.obj('ast', 'Aidl'), ex.obj('f', 'F')
    paths = []
    for lens in outer_shapes(S, max_len):
        paths += ex.run_fn(fn, [ast, f], initial(lens))
    bad = []
    for st, ret in paths:
        m = model_of(st)
        if m is None:
            continue
        t = tree_of(S, st, m)
        if fname == 'walk_methods':
            R = [('node', e[1]) for e in t['elements'] if e[0] == 'Method'] if t['kind'] == 'Interface' else []
        else:
            R = [('args', (e[1], a)) for e in t['elements'] if e[0] == 'Method' for (a, _ty) in e[3]] if t['kind'] == 'Interface' else []
        got = [ev_node(e) for e in st.events if e[0] == 'call']
        if got != R:
            bad.append('%s members=%s: yielded %s, reference %s' % (t['kind'], [x[0] for x in t['elements']], got[:5], R[:5]))
    return (not bad), len(paths), bad


def closure_calls(S, owner, callee_pat):
    """The closure that `owner` hands to the type walker calls `callee_pat` on exactly the node it is given, first thing."""
    fns = [f for f in S.prog.fns if re.search(r'(^|::)%s::\{closure#0\}$' % re.escape(owner), f.name)]
    if len(fns) != 1:
        raise mir.Unsupported('%s closure: %d candidates' % (owner, len(fns)))
    f = fns[0]
    calls = []
    for bb in sorted(f.blocks, key=lambda b: int(b[2:])):
        for stt in f.blocks[bb]:
            sc = mir.split_call(stt.rstrip(';'))
            if sc:
                calls.append((sc[1], sc[2]))
    first = next(((c, a) for (c, a) in calls if re.search(callee_pat, c)), None)
    if first is None:
        return False, 'closure never calls %s' % callee_pat
    arg0 = first[1].split(',')[0].strip()
    # the first argument must be the closure's own parameter _2 (possibly through one reborrow `_k = &mut (*_2)` / `copy _2`)
    txt = ' '.join(' '.join(b) for b in f.blocks.values())
    m = re.match(r'^(?:copy|move) (_\d+)$', arg0)
    if not m:
        return False, 'unexpected first argument %s' % arg0
    loc = m.group(1)
    ok = loc == '_2' or re.search(r'%s = &(?:mut )?\(\*_2\)' % re.escape(loc), txt) or re.search(r'%s = (?:copy|move) _2\b' % re.escape(loc), txt)
    if not ok:
        return False, 'first argument of %s is %s' % (first[0].split('::')[-1], arg0)
    # ... and it does so on EVERY path through the closure (no early return / cache hit that skips the call)
    try:
        paths = mir.cfg_paths(f)
    except mir.Unsupported as e:
        return False, 'paths of the closure cannot be enumerated (%s)' % e
    n = 0
    for pc, ev in paths:
        sv = z3.Solver(); sv.add(*pc)
        if sv.check() != z3.sat:
            continue
        n += 1
        if not any(c != '=' and re.search(callee_pat, c) for (_b, c, _a, _d) in ev):
            return False, 'a path through the closure does not call %s on its node (calls: %s)' % (callee_pat.rstrip('$'), [c.split('::')[-1][:24] for (_b, c, _a, _d) in ev if c != '='][:6])
    return True, 'first argument of %s is %s, on all %d feasible paths' % (first[0].split('::')[-1], arg0, n)


def lookup_closure(S):
    """find_symbol_at_line_col(ast, filter, lc) = find_symbol(ast, filter, |s| range_contains(s.get_range(), lc))"""
    f = S.fn('find_symbol_at_line_col')
    cl = [g for g in S.prog.fns if g.name.endswith('find_symbol_at_line_col::{closure#0}')]
    if len(cl) != 1:
        raise mir.Unsupported('lookup closure: %d candidates' % len(cl))
    body = ' '.join(' '.join(b) for b in f.blocks.values())
    cbody = ' '.join(' '.join(b) for b in cl[0].blocks.values())
    ok1 = re.search(r'find_symbol::<.*>\(copy _1, move _2,', body) or re.search(r'find_symbol::<.*>\((?:copy|move) _1, (?:copy|move) _2,', body)
    ok2 = re.search(r'Symbol::<.*>::get_range\((?:copy|move) _2\)', cbody) and re.search(r'range_contains\((?:copy|move) _\d+, (?:copy|move) _\d+\)', cbody)
    return bool(ok1 and ok2), 'find_symbol call: %s; closure = range_contains(get_range(symbol), position): %s' % (bool(ok1), bool(ok2))


# ---------------------------------------------------------------------------------------------------------------------------
# Bounded-depth variant without summaries: works whatever the code shape (inline macro or recursive helper)
# ---------------------------------------------------------------------------------------------------------------------------
def focuses(S):
    """type positions: regex matching the path of the type root"""
    return {'return type': r'@Method\.0\.%d' % S.fidx('Method', 'return_type'), 'argument type': r'\[\d+\]\.%d' % S.fidx('Arg', 'arg_type'),
            'constant type': r'@Const\.0\.%d' % S.fidx('Const', 'const_type'), 'field type': r'@Field\.0\.%d' % S.fidx('Field', 'field_type')}


def deep_bounds(S, focus, width1=2, width2=1):
    """vector-length bounds: the focused type position may nest two levels (width1 children, each with width2 children);
    every other type is a leaf.  Python dicts keep insertion order: first match wins."""
    g = S.fidx('Type', 'generic_types')
    G = r'\.%d' % g
    d = {focus + r'(%s\[\d+\]){2}%s$' % (G, G): 0, focus + r'%s\[\d+\]%s$' % (G, G): width2, focus + r'%s$' % G: width1}
    for other in focuses(S).values():
        d[other + r'(%s\[\d+\])*%s$' % (G, G)] = 0
    return d


def type_order(S, st, path, arrays, m, mut=False):
    """reference order of the subtree rooted at type node `path` for the tree of this path."""
    g = S.fidx('Type', 'generic_types')
    k = S.fidx('Type', 'kind')
    n = st.lens.get('%s.%d' % (path, g), 0)
    kids = []
    for i in range(n):
        kids += type_order(S, st, '%s.%d[%d]' % (path, g, i), arrays, m, mut)
    kd = m.eval(z3.Int('%s.%d#disc' % (path, k)), True).as_long()
    is_arr = (kd == S.enums['TypeKind'].index('Array')) and not mut
    return kids + [path] if is_arr else [path] + kids


def expand(S, st, m, R, sym=True, mut=False):
    out = []
    for r in R:
        if r[0] == 'subtree':
            for p in type_order(S, st, r[1], None, m, mut):
                out.append(('Type', (p,)) if sym else ('node', p))
        else:
            out.append(r)
    return out


def deep_symbols(S, focus_name, elements=1, width1=2, width2=1):
    fn = S.fn('walk_symbols_with_control_flow')
    focus = focuses(S)[focus_name]
    lb = deep_bounds(S, focus, width1, width2)
    lb[r'^ast\.%d$' % S.fidx('Aidl', 'imports')] = 1
    lb[r'\.%d$' % S.fidx('Method', 'args')] = 1
    ex = tmir.Exec(S.prog, S.enums, S.structs, max_len=elements, summaries=[], len_bounds=lb)
    ast, flt, f = ex.obj('ast', 'Aidl'), ex.obj('filter', 'SymbolFilter'), ex.obj('f', 'F')
    paths = []
    for lens in deep_shapes(S, focus_name):
        paths += ex.run_fn(fn, [ast, flt, f], initial(lens))
    bad, deep = [], 0
    for st, ret in paths:
        m = model_of(st)
        if m is None:
            continue
        t = tree_of(S, st, m)
        level = level_of(m)
        R = expand(S, st, m, ref_symbols(S, t, level))
        if any(len(x[1]) == 1 and x[0] == 'Type' and x[1][0].count('[') >= 3 for x in R):
            deep += 1
        err = check_break_semantics_norm(st.events, ret, R)
        if err:
            bad.append('%s %s members=%s: %s' % (level, t['kind'], [x[0] for x in t['elements']], err))
    if not deep:
        bad.append('no path with a type nested two levels deep (vacuity)')
    return (not bad), len(paths), bad


def deep_types(S, fname, focus_name, elements=1, width1=2, width2=1):
    fn = S.fn(fname)
    mut = 'mut' in fname
    focus = focuses(S)[focus_name]
    lb = deep_bounds(S, focus, width1, width2)
    lb[r'\.%d$' % S.fidx('Method', 'args')] = 1
    ex = tmir.Exec(S.prog, S.enums, S.structs, max_len=elements, summaries=[], len_bounds=lb)
    ast, f = ex.obj('ast', 'Aidl'), ex.obj('f', 'F')
    paths = []
    for lens in deep_shapes(S, focus_name):
        paths += ex.run_fn(fn, [ast, f], initial(lens))
    bad, deep = [], 0
    for st, ret in paths:
        m = model_of(st)
        if m is None:
            continue
        t = tree_of(S, st, m)
        R = expand(S, st, m, ref_types(t) if t['kind'] != 'Enum' else [], sym=False, mut=mut)
        got = [ev_node(e) for e in st.events if e[0] == 'call']
        if any(x[1].count('[') >= 3 for x in R):
            deep += 1
        if mut:
            # the resolver order is not part of the property: every node exactly once
            if sorted(got) != sorted(R):
                miss = [x for x in R if x not in got]
                bad.append('%s members=%s: %d of %d type nodes offered; missing %s' % (t['kind'], [x[0] for x in t['elements']], len(got), len(R), miss[:2]))
        elif got != R:
            bad.append('%s members=%s: types offered %s, reference %s' % (t['kind'], [x[0] for x in t['elements']], got[:6], R[:6]))
    if not deep:
        bad.append('no path with a type nested two levels deep (vacuity)')
    return (not bad), len(paths), bad
