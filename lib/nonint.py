"""C13: non-interference of the per-file validation step, by self-composition (engine T + z3 strings).

`resolve_type` and `check_imports` - the only two functions that receive the shared key -> kind map - are executed twice from
their MIR on the SAME file-side inputs (written name / import list / forward declarations / resolved set: shared z3 variables)
and two DIFFERENT key maps A and B (separate variables, any sizes within the bound).  For every pair of paths (pa, pb) whose
observable outcomes differ, z3 decides
        pc(pa) /\ pc(pb) /\ (for every import i of the file: A[i] = B[i])      -- must be UNSAT
i.e. two projects that agree on "is a file registered under this import, and with which kind" cannot be told apart by the file.
Hash order is quantified away inside each run (find over a hash set returns any matching element)."""
import re

import z3

import time

import mir
import tmir
import travcheck as tc


def consts_of(e, acc=None):
    acc = {} if acc is None else acc
    seen = set()
    todo = [e]
    while todo:
        x = todo.pop()
        if x.get_id() in seen:
            continue
        seen.add(x.get_id())
        if z3.is_const(x) and x.decl().kind() == z3.Z3_OP_UNINTERPRETED:
            acc[x.decl().name()] = x
        else:
            todo.extend(x.children())
    return acc


def rename(exprs, shared, prefix):
    """every uninterpreted constant whose name is not in `shared` gets the prefix (private to one copy of the composition)"""
    cs = {}
    for e in exprs:
        if z3.is_expr(e):
            consts_of(e, cs)
    sub = [(c, z3.Const(prefix + n, c.sort())) for n, c in cs.items() if n not in shared and not n.startswith(prefix)]
    return [z3.substitute(e, *sub) if z3.is_expr(e) else e for e in exprs]


def lookup(K, i):
    """0 = not registered, d+1 = registered with kind discriminant d"""
    e = z3.IntVal(0)
    for k, d in reversed(K):
        e = z3.If(k == i, d + 1, e)
    return e


def diag_texts(s2):
    """message / hint / context strings of the diagnostics of a path, as z3 strings (absent = the empty marker)"""
    out = []
    for e in s2.events:
        if e[0] not in ('push', 'diag'):
            continue
        d = e[2] if e[0] == 'push' else e[1]
        if not (isinstance(d, tuple) and d[0] == 'struct'):
            continue
        f = dict(zip(d[3], d[2]))
        for name in ('message', 'hint', 'context_message'):
            v = f.get(name)
            if isinstance(v, tuple) and v[0] == 'enum' and v[1] == 'Option':
                v = v[3][0] if v[2] == 'Some' else z3.StringVal('<none>')
            if isinstance(v, tuple) and v[0] == 'fmt':
                v = mir.fmt_to_z3(v)
            out.append(v if z3.is_expr(v) else z3.StringVal(str(v)))
    return out


def resolve_copy(S, tag, n_imports, n_declared, n_defined, prefix=None, unambiguous=False):
    fn = [g for g in S.prog.fns if (re.search(r'(^|::)validation::resolve_type$', g.name) or g.name == 'resolve_type') and '::verif' not in g.name]
    if len(fn) != 1:
        raise mir.Unsupported('resolve_type: %d candidates' % len(fn))
    ex = tmir.Exec(S.prog, S.enums, S.structs)
    T = S.structs['Type']
    ni, ki = T.index('name'), T.index('kind')
    t = ex.obj('t', 'Type')
    N = z3.String('t.%d' % ni)
    ex.memo['t.%d' % ni] = N
    imports, declared, defined, diags = ex.obj('imports', 'HashSet'), ex.obj('declared', 'HashSet'), ex.obj('defined', 'HashMap'), ex.obj('diags', 'Vec')
    I = [z3.String('I%d' % k) for k in range(n_imports)]
    D = [z3.String('D%d' % k) for k in range(n_declared)]
    K = [(z3.String('K%s%d' % (tag, k)), ex.obj('kind%s%d' % (tag, k), 'ResolvedItemKind')) for k in range(n_defined)]
    ex.memo[('coll', 'imports')] = I
    ex.memo[('coll', 'declared')] = D
    ex.memo[('coll', 'defined')] = K
    st = tmir.State()
    kinds = S.enums['TypeKind']
    st.pc += [z3.Int('t.%d#disc' % ki) == kinds.index('Unresolved')]
    if len(I) > 1:
        st.pc += [z3.Distinct(*I)]
    if unambiguous:
        import resolvecheck
        for x in range(len(I)):
            for y in range(x):
                st.pc += [z3.Not(z3.And(resolvecheck.matches(N, I[x]), resolvecheck.matches(N, I[y])))]
    if len(K) > 1:
        st.pc += [z3.Distinct(*[k for k, _v in K])]
    rk = S.enums['ResolvedItemKind']
    Kd = []
    for (k, kv) in K:
        d = z3.Int(kv.path + '#disc')
        st.pc += [z3.Or(d == rk.index('Interface'), d == rk.index('Parcelable'), d == rk.index('Enum'))]
        Kd.append((k, d))
    paths = ex.run_fn(fn[0], [t, imports, declared, defined, diags], st)
    shared = {'t.%d' % ni, 't.%d#disc' % ki} | {'I%d' % k for k in range(n_imports)} | {'D%d' % k for k in range(n_declared)} | \
             {'K%s%d' % (tag, k) for k in range(n_defined)} | {'kind%s%d#disc' % (tag, k) for k in range(n_defined)}
    out = []
    for s2, ret in paths:
        if tc.model_of(s2) is None:
            continue
        kind = s2.heap.get(('field', 't', ki))
        ndg = len([e for e in s2.events if e[0] in ('push', 'diag')])
        dtexts = diag_texts(s2)
        if kind is None:
            oc = ('unresolved', None, None, ndg)
        elif kind[0] == 'enum' and kind[2] == 'AndroidType':
            oc = ('android', str(kind[3][0]), None, ndg)
        elif kind[0] == 'enum' and kind[2] == 'ResolvedItem':
            key, rkind = kind[3][0], kind[3][1]
            if isinstance(rkind, tuple) and rkind[0] == 'variant':
                kd = z3.IntVal(rk.index(rkind[1].split('::')[-1]))
            elif hasattr(rkind, 'path'):
                kd = z3.Int(rkind.path + '#disc')
            else:
                raise mir.Unsupported('kind term %r' % (rkind,))
            oc = ('item', key if z3.is_expr(key) else z3.StringVal(str(key)), kd, ndg)
        else:
            oc = ('other:' + str(kind[:3]), None, None, ndg)
        pcs = rename(list(s2.pc) + [x for x in oc[1:3] if z3.is_expr(x)] + dtexts, shared, (prefix or tag) + '!')
        npc = len(s2.pc)
        ren = pcs[npc:]
        dren = ren[len(ren) - len(dtexts):] if dtexts else []
        oc2 = [oc[0]]
        r_i = 0
        for x in oc[1:3]:
            if z3.is_expr(x):
                oc2.append(ren[r_i]); r_i += 1
            else:
                oc2.append(x)
        oc2.append(oc[3])
        oc2.append(tuple(dren))
        out.append((pcs[:npc], tuple(oc2)))
    return out, I, Kd


def resolve_pair(S, n_imports, n_declared, na, nb):
    """-> (pairs examined, queries, violations)"""
    A, I, KA = resolve_copy(S, 'A', n_imports, n_declared, na, unambiguous=True)
    B, _I, KB = resolve_copy(S, 'B', n_imports, n_declared, nb, unambiguous=True)
    agree = [lookup(KA, i) == lookup(KB, i) for i in I]
    N = z3.String('t.%d' % S.structs['Type'].index('name'))
    # the file itself is unambiguous: at most one of its imports matches the written name (with two matching imports the
    # implementation picks one in hash order - a property of the file alone, reported under C11, not an influence of other files)
    import resolvecheck
    for a in range(len(I)):
        for b in range(a):
            agree.append(z3.Not(z3.And(resolvecheck.matches(N, I[a]), resolvecheck.matches(N, I[b]))))
    nq, viol, pairs = 0, [], 0
    for pa, oa in A:
        if tmir.DEADLINE[0] is not None and time.time() > tmir.DEADLINE[0]:
            raise mir.Unsupported('time cap of the task reached while comparing path pairs')
        for pb, ob in B:
            pairs += 1
            differ = []
            if oa[0] != ob[0] or oa[3] != ob[3]:
                differ = [z3.BoolVal(True)]
            else:
                for x, y in zip(list(oa[1:3]) + list(oa[4]), list(ob[1:3]) + list(ob[4])):
                    if z3.is_expr(x) and z3.is_expr(y):
                        if not x.eq(y):
                            differ.append(x != y)
                    elif x != y:
                        differ = [z3.BoolVal(True)]; break
            if not differ:
                continue
            import zutil
            r, s = zutil.check(list(pa) + list(pb) + list(agree) + [z3.Or(differ)], 60000); nq += 1
            if r == z3.sat:
                m = s.model()
                viol.append({'what': 'two key maps that agree on every import of the file give different results for a type reference',
                             'name': str(m.eval(N, True)), 'imports': [str(m.eval(i, True)) for i in I],
                             'mapA': [(str(m.eval(k, True)), str(m.eval(d, True))) for k, d in KA], 'mapB': [(str(m.eval(k, True)), str(m.eval(d, True))) for k, d in KB],
                             'resultA': oa[0], 'resultB': ob[0]})
                if len(viol) >= 3:
                    return pairs, nq, viol
            elif r != z3.unsat:
                viol.append({'what': 'solver returned unknown'})
    return pairs, nq, viol


# ---- check_imports ----------------------------------------------------------------------------------------------------------
def imports_copy(S, tag, n, nres, ndef):
    import c06
    fn = [g for g in S.prog.fns if re.search(r'(^|::)validation::check_imports$', g.name) and '::verif' not in g.name]
    if len(fn) != 1:
        raise mir.Unsupported('check_imports: %d candidates' % len(fn))
    ex = tmir.Exec(S.prog, S.enums, S.structs)
    ex.explicit_new = True
    ex.models = {r'Import::get_qualified_name$': c06.qmodel}
    imps = ex.obj('imps', 'Vec<Import>')
    resolved, defined, diags = ex.obj('resolved', 'HashSet'), ex.obj('defined', 'HashMap'), ex.obj('diags', 'Vec')
    R = [z3.String('R%d' % k) for k in range(nres)]
    K = [(z3.String('K%s%d' % (tag, k)), ex.obj('kind%s%d' % (tag, k), 'ResolvedItemKind')) for k in range(ndef)]
    ex.memo[('coll', 'resolved')] = R
    ex.memo[('coll', 'defined')] = K
    st = tmir.State()
    st.lens['imps'] = n
    if len(K) > 1:
        st.pc += [z3.Distinct(*[k for k, _v in K])]
    rk = S.enums['ResolvedItemKind']
    for (_k, kv) in K:
        d = z3.Int(kv.path + '#disc')
        st.pc += [z3.Or(d == rk.index('Interface'), d == rk.index('Parcelable'), d == rk.index('Enum'))]
    Q = [z3.String('imps[%d]#q' % a) for a in range(n)]
    paths = ex.run_fn(fn[0], [imps, resolved, defined, diags], st)
    shared = {'imps[%d]#q' % a for a in range(n)} | {'R%d' % k for k in range(nres)} | {'K%s%d' % (tag, k) for k in range(ndef)} | {'kind%s%d#disc' % (tag, k) for k in range(ndef)}
    out = []
    for s2, ret in paths:
        if tc.model_of(s2) is None:
            continue
        D = [x for x in (c06.diag_fields(e) for e in s2.events if e[0] in ('push', 'diag')) if x]
        # observable outcome: the multiset of (severity, range, related ranges, first word of the message)
        oc = tuple(sorted((d['kind'], d['range'], tuple(d['related']), re.sub(r'[^A-Za-z ].*', '', d['msg'])[:24]) for d in D))
        cs = {}
        for e in s2.pc:
            consts_of(e, cs)
        shared2 = shared | {n_ for n_ in cs if n_.startswith('imps[')}
        out.append((rename(list(s2.pc), shared2, tag + '!'), oc))
    Kd = [(k, z3.Int(v.path + '#disc')) for k, v in K]
    return out, Q, Kd


def imports_pair(S, n, nres, na, nb):
    A, Q, KA = imports_copy(S, 'A', n, nres, na)
    B, _Q, KB = imports_copy(S, 'B', n, nres, nb)
    agree = [(lookup(KA, q) != 0) == (lookup(KB, q) != 0) for q in Q]
    nq, viol, pairs = 0, [], 0
    for pa, oa in A:
        if tmir.DEADLINE[0] is not None and time.time() > tmir.DEADLINE[0]:
            raise mir.Unsupported('time cap of the task reached while comparing path pairs')
        for pb, ob in B:
            pairs += 1
            if oa == ob:
                continue
            import zutil
            r, s = zutil.check(list(pa) + list(pb) + list(agree), 60000); nq += 1
            if r == z3.sat:
                m = s.model()
                viol.append({'what': 'two key maps that agree on every import of the file give different import diagnostics',
                             'imports': [str(m.eval(q, True)) for q in Q], 'mapA': [str(m.eval(k, True)) for k, _d in KA], 'mapB': [str(m.eval(k, True)) for k, _d in KB],
                             'diagsA': [x[:2] + x[3:] for x in oa], 'diagsB': [x[:2] + x[3:] for x in ob]})
                if len(viol) >= 3:
                    return pairs, nq, viol
            elif r != z3.unsat:
                viol.append({'what': 'solver returned unknown'})
    return pairs, nq, viol


# ---- C11: independence of the hash-order choices inside one file ---------------------------------------------------------------
def choice_pair_resolve(S, n_imports, n_declared, n_defined):
    """resolve_type twice on the SAME inputs (same key map, same sets) with independent hash orders: outcomes must agree"""
    A, I, K = resolve_copy(S, 'A', n_imports, n_declared, n_defined, prefix='A')
    B, _I, _K = resolve_copy(S, 'A', n_imports, n_declared, n_defined, prefix='B')
    N = z3.String('t.%d' % S.structs['Type'].index('name'))
    nq, viol, pairs = 0, [], 0
    for pa, oa in A:
        if tmir.DEADLINE[0] is not None and time.time() > tmir.DEADLINE[0]:
            raise mir.Unsupported('time cap of the task reached while comparing path pairs')
        for pb, ob in B:
            pairs += 1
            differ = []
            if oa[0] != ob[0] or oa[3] != ob[3]:
                differ = [z3.BoolVal(True)]
            else:
                for x, y in zip(list(oa[1:3]) + list(oa[4]), list(ob[1:3]) + list(ob[4])):
                    if z3.is_expr(x) and z3.is_expr(y):
                        if not x.eq(y):
                            differ.append(x != y)
                    elif x != y:
                        differ = [z3.BoolVal(True)]; break
            if not differ:
                continue
            import zutil
            r, s = zutil.check(list(pa) + list(pb) + [z3.Or(differ)], 60000); nq += 1
            if r == z3.sat:
                m = s.model()
                viol.append({'what': 'the classification of a type reference depends on the iteration order of the import set',
                             'name': str(m.eval(N, True)), 'imports': [str(m.eval(i, True)) for i in I], 'keys': [str(m.eval(k, True)) for k, _d in K],
                             'resultA': oa[0], 'resultB': ob[0]})
                if len(viol) >= 2:
                    return pairs, nq, viol
            elif r != z3.unsat:
                viol.append({'what': 'solver returned unknown'})
    return pairs, nq, viol


def declared_copy(S, prefix, n, nimp, nres):
    import c06
    fn = [g for g in S.prog.fns if re.search(r'(^|::)validation::check_declared_parcelables$', g.name) and '::verif' not in g.name]
    if len(fn) != 1:
        raise mir.Unsupported('check_declared_parcelables: %d candidates' % len(fn))
    ex = tmir.Exec(S.prog, S.enums, S.structs)
    ex.explicit_new = True
    ex.models = {r'Import::get_qualified_name$': c06.qmodel}
    decl = ex.obj('decl', 'Vec<Import>')
    imports, resolved, diags = ex.obj('imports', 'HashMap'), ex.obj('resolved', 'HashSet'), ex.obj('diags', 'Vec')
    R = [z3.String('R%d' % k) for k in range(nres)]
    IM = [(z3.String('IK%d' % k), ex.obj('imp%d' % k, 'Import')) for k in range(nimp)]
    ex.memo[('coll', 'resolved')] = R
    ex.memo[('coll', 'imports')] = IM
    st = tmir.State()
    st.lens['decl'] = n
    if nimp > 1:
        st.pc += [z3.Distinct(*[k for k, _v in IM])]
    paths = ex.run_fn(fn[0], [decl, imports, resolved, diags], st)
    out = []
    for s2, ret in paths:
        if tc.model_of(s2) is None:
            continue
        D = [x for x in (c06.diag_fields(e) for e in s2.events if e[0] in ('push', 'diag')) if x]
        oc = tuple(sorted((d['kind'], d['range'], tuple(d['related']), d['msg']) for d in D))
        cs = {}
        for e in s2.pc:
            consts_of(e, cs)
        shared = {n_ for n_ in cs if n_.startswith('decl[') or n_.startswith('imp') or n_.startswith('IK') or re.match(r'R\d+$', n_)}
        out.append((rename(list(s2.pc), shared, prefix + '!'), oc, [d['range'] for d in D]))
    return out


def choice_pair_declared(S, n, nimp, nres):
    A = declared_copy(S, 'A', n, nimp, nres)
    B = declared_copy(S, 'B', n, nimp, nres)
    nq, viol, pairs = 0, [], 0
    for pa, oa, _r in A:
        if tmir.DEADLINE[0] is not None and time.time() > tmir.DEADLINE[0]:
            raise mir.Unsupported('time cap of the task reached while comparing path pairs')
        for pb, ob, _r2 in B:
            pairs += 1
            if oa == ob:
                continue
            import zutil
            r, s = zutil.check(list(pa) + list(pb), 60000); nq += 1
            if r == z3.sat:
                viol.append({'what': 'the diagnostics of the forward declarations depend on the iteration order of the import map',
                             'diagsA': [x[:3] for x in oa], 'diagsB': [x[:3] for x in ob]})
                if len(viol) >= 2:
                    return pairs, nq, viol
            elif r != z3.unsat:
                viol.append({'what': 'solver returned unknown'})
    return pairs, nq, viol


def hash_ordered_ranges(S):
    """diagnostics pushed while iterating a hash container: on every path their ranges are pairwise distinct statements, so
    the stable final sort cannot leave a hash-dependent tie"""
    bad, n = [], 0
    for out in (imports_copy(S, 'A', 2, 1, 1)[0], declared_copy(S, 'A', 2, 2, 1)):
        for p in out:
            n += 1
            rg = p[2] if len(p) > 2 else [x[1] for x in p[1]]
            if len(set(rg)) != len(rg):
                bad.append('two diagnostics of one path share the range %s' % [r for r in rg if rg.count(r) > 1][0])
    return n, bad
