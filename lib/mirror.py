"""C02, mirror obligations over the symbolically evaluated grammar actions (lib/content.py).

For every production (error productions excluded: C14) and every path of its user action:
  M1 linearity     every content-carrying symbol of the right-hand side (identifier-like / literal terminals, every nonterminal
                   that carries a value) occurs exactly once in the node that is built - nothing is dropped or duplicated -
                   or decides a constant through the path condition (direction keyword -> Direction variant);
  M2 verbatim      token text reaches the tree unchanged: only through constructors, Option / Vec wrappers, '.'-joins of
                   qualified names, and integer parsing of the transact code;
  M3 order         wherever several inputs land in one sequence (vec![..], push, flatten, join, format) they keep source order;
  M4 fields        the field a child lands in is the one the property names for it (table SPEC below, written from the statement);
  M5 positions     no captured position reaches anything but a Range or the documentation look-up;
  M6 constants     Direction: in -> In, out -> Out, inout -> InOut, absent -> Unspecified, and the `unreachable!` arm is
                   infeasible for every word of the DIRECTION token pattern (z3 regex); oneway flag = presence of the keyword;
                   transact code = the parsed INTEGER;
  M8 names         z3 strings: Package / Type names = the identifiers joined by '.', Import = (all but last joined, last),
                   forward declaration = split of the qualified name at its LAST dot - for 1..3 identifiers of arbitrary text.
"""
import itertools
import re
import time

import z3

import acteval
import content
import lexl
import mir
import tables
from mir import Unsupported

CONTENT_TERMINALS = {'IDENT', 'INTEGER', 'FLOAT', 'QUOTED_STRING', 'BOOLEAN', 'ANNOTATION', 'PRIMITIVE', 'DIRECTION', 'VOID', 'STRING', 'CHAR_SEQUENCE'}
KEYWORD_CONSTANT = {'LIST': 'List', 'MAP': 'Map'}        # keyword tokens whose text is replaced by a fixed name

# (struct, field) -> grammar symbols allowed as its source (prefix match on the symbol text)
SPEC = {
    ('Aidl', 'package'): ['Package'], ('Aidl', 'imports'): ['Import'], ('Aidl', 'declared_parcelables'): ['DeclaredParcelable'], ('Aidl', 'item'): ['OptItem'],
    ('Package', 'name'): ['QualifiedName'],
    ('Import', 'path'): ['(<IDENT> ".")', 'QualifiedName'], ('Import', 'name'): ['IDENT', 'QualifiedName'],
    ('Interface', 'name'): ['IDENT'], ('Interface', 'elements'): ['OptInterfaceElement'], ('Interface', 'annotations'): ['OptAnnotation'],
    ('Parcelable', 'name'): ['IDENT'], ('Parcelable', 'elements'): ['OptParcelableElement'], ('Parcelable', 'annotations'): ['OptAnnotation'],
    ('Enum', 'name'): ['IDENT'], ('Enum', 'elements'): ['CommaSeparated<OptEnumElement>'], ('Enum', 'annotations'): ['OptAnnotation'],
    ('Method', 'name'): ['IDENT'], ('Method', 'return_type'): ['Type'], ('Method', 'args'): ['CommaSeparated<Arg>'], ('Method', 'annotations'): ['OptAnnotation'],
    ('Method', 'transact_code'): ['INTEGER'],
    ('Arg', 'name'): ['IDENT'], ('Arg', 'arg_type'): ['Type'], ('Arg', 'direction'): ['Direction'], ('Arg', 'annotations'): ['OptAnnotation'],
    ('Const', 'name'): ['IDENT'], ('Const', 'const_type'): ['Type'], ('Const', 'value'): ['Value'], ('Const', 'annotations'): ['OptAnnotation'],
    ('Field', 'name'): ['IDENT'], ('Field', 'field_type'): ['Type'], ('Field', 'value'): ['Value'], ('Field', 'annotations'): ['OptAnnotation'],
    ('EnumElement', 'name'): ['IDENT'], ('EnumElement', 'value'): ['EnumValue'],
    ('Annotation', 'name'): ['ANNOTATION'], ('Annotation', 'key_values'): ['CommaSeparated<AnnotationParam>'],
    ('Type', 'name'): ['QualifiedName', 'PRIMITIVE', 'VOID', 'STRING', 'CHAR_SEQUENCE'], ('Type', 'generic_types'): ['Type'],
}
# children the statement does not ask the tree to carry (it lists forward declarations only by name and order)
NOT_CLAIMED = {('DeclaredParcelable', 'OptAnnotation+')}
WRAPPERS_OK = {'struct', 'some', 'vec', 'push', 'tuple', 'enumv', 'optmap', 'unwrap', 'flatten', 'to_map', 'ok'}
STRING_OPS_OK = {'format', 'fmtargs', 'fmtarg', 'array', 'join', 'rsplit_l', 'rsplit_r', 'split_l', 'split_r'}


def is_error_production(rhs):
    return any(s.strip() == 'error' for s in rhs)


def occurrences(t, path=(), under='content', acc=None, wrappers=()):
    """[(kind, index, context, field path, wrapper heads)]"""
    acc = [] if acc is None else acc
    if not isinstance(t, tuple) or not t:
        return acc
    h = t[0]
    if h in ('tok', 'nt'):
        acc.append((h, t[1], under, path, wrappers)); return acc
    if h == 'pos':
        acc.append(('pos', None, under, path, wrappers)); return acc
    if h == 'range':
        for x in t[1:]:
            occurrences(x, path, 'range', acc, wrappers)
        return acc
    if h == 'doc':
        for x in t[1]:
            occurrences(x, path, 'doc', acc, wrappers)
        return acc
    if h == 'struct':
        for k, v in t[2]:
            occurrences(v, path + ((t[1], k),), under, acc, wrappers + (h,))
        return acc
    rest = t[2:] if h == 'optmap' else t[1:]        # optmap(o, f(unwrap(o))): the option itself is not a second use
    for x in rest:
        if isinstance(x, tuple):
            if x and isinstance(x[0], str):
                occurrences(x, path, under, acc, wrappers + (h,))
            else:
                for y in x:
                    occurrences(y, path, under, acc, wrappers + (h,))
    return acc


def cond_inputs(conds):
    acc = []
    for c in conds:
        occurrences(c if isinstance(c, tuple) else (), (), 'cond', acc)
    return acc


def sequence_order(t, bad, where=''):
    """inputs inside one sequence-like node must appear in increasing rhs order"""
    if not isinstance(t, tuple) or not t:
        return
    h = t[0]
    if h in ('vec', 'array', 'push', 'fmtargs', 'join', 'format', 'flatten', 'tuple'):
        idx = [o[1] for o in occurrences(t) if o[0] in ('tok', 'nt') and o[2] == 'content']
        if idx != sorted(idx):
            bad.append('%s: inputs %s are not in source order' % (h, idx))
    if h == 'struct':
        for _k, v in t[2]:
            sequence_order(v, bad)
        return
    for x in t[1:]:
        if isinstance(x, tuple):
            if x and isinstance(x[0], str):
                sequence_order(x, bad)
            else:
                for y in x:
                    sequence_order(y, bad)


class Analysis:
    def __init__(self, gen_path, prog):
        self.T = tables.extract(gen_path)
        self.A = acteval.Actions(gen_path)
        self.E = content.ActionEval(prog)
        self.gen = gen_path
        self.results = {}     # r -> (lhs, rhs symbols, [(conds, value)])
        self.unsupported = []
        for r, (lhs, rhs, act) in sorted(self.T.prod.items()):
            try:
                P = acteval.Production(self.A, r, lhs, rhs, act)
                if not isinstance(P.leaf, acteval.Leaf):
                    continue
                if is_error_production(P.rhs):
                    continue
                self.results[r] = (lhs, P.rhs, content.eval_leaf(self.E, P.leaf, P.rhs))
            except (Unsupported, acteval.Unsupported) as e:
                self.unsupported.append('%s = %s: %s' % (lhs, rhs[:50], str(e)[:120]))
        self.nonempty = self.emptiness()

    def emptiness(self):
        """nonterminals whose value is a vector that can never be empty (X+ lists)"""
        ne = set()
        changed = True
        while changed:
            changed = False
            by = {}
            for r, (lhs, rhs, res) in self.results.items():
                by.setdefault(lhs, []).append((rhs, res))
            for lhs, prods in by.items():
                if lhs in ne:
                    continue
                ok = True
                for rhs, res in prods:
                    for conds, v in res:
                        if v[0] == 'push' or (v[0] == 'vec' and len(v[1]) > 0):
                            continue
                        if v[0] == 'nt' and rhs[v[1]] in ne:
                            continue
                        ok = False
                if ok and prods:
                    ne.add(lhs); changed = True
        return ne

    def pattern_of_terminal(self, name):
        src = open(self.gen).read()
        pats = lexl.patterns(self.gen)
        t = self.T.terms.index(name)
        m = re.search(r'Token\((\d+), _\) if true => Some\(%d\),' % t, src)
        if not m:
            raise Unsupported('terminal %s not found in __token_to_integer' % name)
        return pats[int(m.group(1))][0]

    def feasible(self, rhs, conds):
        for c in conds:
            if c[0] == 'isempty':
                v, want = c[1], c[2]
                if v[0] == 'vec':
                    if (len(v[1]) == 0) != want:
                        return False
                elif v[0] == 'push' and want:
                    return False
                elif v[0] == 'nt' and want and rhs[v[1]] in self.nonempty:
                    return False
        return True

    # ---- M1..M5 ------------------------------------------------------------------------------------------------------------
    def structural(self):
        """-> {role key: [witness]}, number of (production, path) pairs examined"""
        viol = {}
        n = 0
        for r, (lhs, rhs, res) in sorted(self.results.items()):
            for conds, v in res:
                if not self.feasible(rhs, conds):
                    continue
                n += 1
                occ = occurrences(v)
                cocc = cond_inputs(conds)
                prod = '%s = %s' % (lhs, ', '.join(rhs))
                # M5 (anonymous macro symbols such as ("=" <@L> <INTEGER>) only pair a position with a token for their parent)
                for o in occ:
                    if o[0] == 'pos' and o[2] == 'content' and not lhs.startswith('('):
                        viol.setdefault('position-in-content:%s' % lhs, []).append({'production': prod, 'field': str(o[3][-1:] or '')})
                # M1
                for i, sym in enumerate(rhs):
                    term = acteval.is_terminal(sym)
                    if term and sym not in CONTENT_TERMINALS:
                        continue
                    if (lhs, sym) in NOT_CLAIMED:
                        continue
                    mine = [o for o in occ if o[0] in ('tok', 'nt') and o[1] == i and o[2] == 'content']
                    # the two halves of one split of a string are one use of it
                    halves = [o for o in mine if o[4] and o[4][-1] in ('rsplit_l', 'rsplit_r', 'split_l', 'split_r')]
                    cnt = len(mine) - (1 if len(halves) == 2 and {halves[0][4][-1][-1], halves[1][4][-1][-1]} == {'l', 'r'} else 0)
                    in_cond = any(o[0] in ('tok', 'nt') and o[1] == i for o in cocc)
                    if cnt == 0 and not in_cond:
                        # a nonterminal without a value of its own (pure position capture) would have no leaf either: those are not in rhs
                        viol.setdefault('dropped:%s<-%s' % (lhs, sym), []).append({'production': prod, 'built': content.show(v)[:200]})
                    elif cnt > 1:
                        viol.setdefault('duplicated:%s<-%s' % (lhs, sym), []).append({'production': prod, 'built': content.show(v)[:200]})
                # M2
                for o in occ:
                    if o[0] == 'tok' and o[2] == 'content':
                        badw = [w for w in o[4] if w not in WRAPPERS_OK and w not in STRING_OPS_OK and w != 'parse' and w != 'downcast']
                        if badw:
                            viol.setdefault('not-verbatim:%s<-%s' % (lhs, rhs[o[1]]), []).append({'production': prod, 'through': badw, 'built': content.show(v)[:200]})
                        if 'parse' in o[4] and rhs[o[1]] != 'INTEGER':
                            viol.setdefault('not-verbatim:%s<-%s' % (lhs, rhs[o[1]]), []).append({'production': prod, 'through': ['parse']})
                # M3
                bad = []
                sequence_order(v, bad)
                for b in bad:
                    viol.setdefault('order:%s' % lhs, []).append({'production': prod, 'detail': b, 'built': content.show(v)[:200]})
                # M4
                for o in occ:
                    if o[0] in ('tok', 'nt') and o[2] == 'content' and o[3]:
                        st, field = o[3][-1]
                        allowed = SPEC.get((st, field))
                        if allowed is None:
                            continue
                        sym = rhs[o[1]]
                        if not any(sym.startswith(a) for a in allowed):
                            viol.setdefault('field:%s.%s<-%s' % (st, field, sym), []).append({'production': prod, 'built': content.show(v)[:200]})
                # every SPEC field of a built struct is fed by an input or a constant the statement allows
        return viol, n

    # ---- error productions (used by C03 / C14) -----------------------------------------------------------------------------
    def error_productions(self):
        """every `X = error` production's action pushes at least one diagnostic on every path (a recovered syntax error is never silent)
        -> (paths examined, [problems])"""
        bad, n = [], 0
        for r, (lhs, rhs, act) in sorted(self.T.prod.items()):
            try:
                P = acteval.Production(self.A, r, lhs, rhs, act)
            except acteval.Unsupported as e:
                continue
            if not isinstance(P.leaf, acteval.Leaf) or not is_error_production(P.rhs):
                continue
            try:
                res = content.eval_leaf(self.E, P.leaf, P.rhs)
            except Unsupported as e:
                bad.append('%s = error: action outside the evaluator (%s)' % (lhs, str(e)[:100])); continue
            for conds, v in res:
                n += 1
                if not (isinstance(v, tuple) and v and v[0] in ('ok', 'some', 'none')):
                    bad.append('%s = error: the action may return something other than Ok (%s): a user error would reach the caller without a diagnostic' % (lhs, content.show(v)[:60]))
                if not any(c == ('pushed_diag',) for c in conds):
                    why = [c for c in conds if c and c[0] == 'maybe_diag' and c[2] is False]
                    if why and why[0][1] == 'from_error_recovery' and self.recovery_none_only_for_user():
                        continue      # None only for ParseError::User, which nothing in the crate constructs
                    bad.append('%s = error: a path of the action pushes no diagnostic%s' % (lhs, (' (%s returned None)' % why[0][1]) if why else ''))
        return n, bad

    def recovery_none_only_for_user(self):
        """from_error_recovery(..) is from_parse_error(lookup, recovery.error).map(closure): it is None exactly when from_parse_error is,
        i.e. (C03's obligation on from_parse_error) only for ParseError::User - and no User error is constructed anywhere in the crate"""
        if hasattr(self, '_rnofu'):
            return self._rnofu
        prog = self.E.prog
        f = [g for g in prog.fns if re.search(r'<impl at [^>]*>::from_error_recovery$', g.name) and '::verif' not in g.name]
        ok = False
        if len(f) == 1:
            calls = []
            for b in f[0].blocks.values():
                for st in b:
                    sc = mir.split_call(st.rstrip(';'))
                    if sc:
                        calls.append(re.sub(r'::<.*?>(?=::|$)', '', sc[1]).split('::')[-1])
            core = [c for c in calls if c not in ('clone', 'deref', 'to_owned', 'as_ref')]
            ok = core == ['from_parse_error', 'map'] or core == ['from_parse_error', 'map'][:len(core)] and len(core) == 2
        users = 0
        for g in prog.fns:
            if '::verif' in g.name or 'aidl.rs:' in g.name:
                continue      # the generated `to_triple` glue wraps an Err returned by a fallible user action: those actions are checked to return Ok below
            for b in g.blocks.values():
                for st in b:
                    if re.search(r'ParseError::<[^;]*>::User\b|ParseError::User\b', st) and '=' in st and 'discriminant' not in st and 'as User' not in st:
                        if re.search(r'= [^;]*ParseError(::<[^;]*>)?::User \{', st) or re.search(r'= [^;]*ParseError(::<[^;]*>)?::User\(', st):
                            users += 1
        import c03
        try:
            tot = c03.from_parse_error_total(prog)[0]
        except Exception:
            tot = False
        self._rnofu = bool(ok and users == 0 and tot)
        return self._rnofu

    # ---- ranges (used by C04) --------------------------------------------------------------------------------------------------
    def range_endpoints(self):
        """every endpoint of every Range a grammar action builds must be a position the grammar captured (`@L` / `@R`), never
        a value read out of a child node, a literal or the result of arithmetic.  -> {role: [witness]}, ranges examined"""
        viol, n = {}, 0

        def visit(t, lhs, prod, field):
            nonlocal n
            if not isinstance(t, tuple) or not t:
                return
            if t[0] == 'range':
                n += 1
                for which, e in (('start', t[1]), ('end', t[2])):
                    if not (isinstance(e, tuple) and e[0] == 'pos'):
                        viol.setdefault('range-endpoint-not-captured:%s.%s' % (lhs, field or '?'), []).append({'production': prod, 'endpoint': which, 'value': content.show(e)[:120]})
                return
            if t[0] == 'struct':
                for k, v in t[2]:
                    visit(v, lhs, prod, k)
                return
            for x in t[1:]:
                if isinstance(x, tuple):
                    if x and isinstance(x[0], str):
                        visit(x, lhs, prod, field)
                    else:
                        for y in x:
                            visit(y, lhs, prod, field)
        for r, (lhs, rhs, res) in sorted(self.results.items()):
            for conds, v in res:
                if self.feasible(rhs, conds):
                    visit(v, lhs, '%s = %s' % (lhs, ', '.join(rhs)), None)
        return viol, n

    # ---- M6 ----------------------------------------------------------------------------------------------------------------
    def constants(self):
        viol = {}
        nq = 0
        pats = lexl.patterns(self.gen)
        # Direction
        want = {'in': 'In', 'out': 'Out', 'inout': 'InOut'}
        seen = {}
        for r, (lhs, rhs, res) in self.results.items():
            if lhs != 'Direction':
                continue
            for conds, v in res:
                if v[0] != 'enumv' or v[1] != 'Direction':
                    viol.setdefault('direction:not-a-direction', []).append({'built': content.show(v)}); continue
                if not rhs:
                    if v[2] != 'Unspecified':
                        viol.setdefault('direction:absent->%s' % v[2], []).append({'built': content.show(v)})
                    continue
                pos = [c[1][2][1] for c in conds if c[0] == 'cond' and c[2] is True and c[1][0] == 'streq' and c[1][2][0] == 'lit']
                if len(pos) != 1 or want.get(pos[0]) != v[2]:
                    viol.setdefault('direction:%s->%s' % (pos[0] if pos else '?', v[2]), []).append({'conds': [str(c) for c in conds][:4]})
                else:
                    seen[pos[0]] = v[2]
        if set(seen) != set(want) and 'Direction' in [x[0] for x in self.results.values()]:
            viol.setdefault('direction:keywords-covered=%s' % sorted(seen), []).append({})
        # panic arms: infeasible for every word of the token's pattern
        dirpat = [p for p, _s in pats if set(lexl.literal_alternatives(p) or []) == {'in', 'out', 'inout'}]
        for pc, what in self.E.panics:
            if any(c[0] == 'parse_ok' for c in pc):
                continue
            toks = [c for c in pc if c[0] == 'cond' and c[1][0] == 'streq' and c[1][1][0] == 'tok' and c[1][2][0] == 'lit']
            if len(toks) != len(pc) or len(dirpat) != 1:
                viol.setdefault('panic-arm', []).append({'where': what, 'conds': [str(c)[:80] for c in pc][:4]}); continue
            w = z3.String('w')
            s = z3.Solver(); s.set('timeout', 20000)
            import layout
            s.add(z3.InRe(w, layout.regex_of(dirpat[0])))
            for c in toks:
                eq = w == z3.StringVal(c[1][2][1])
                s.add(eq if c[2] else z3.Not(eq))
            nq += 1
            r = s.check()
            if r != z3.unsat:
                viol.setdefault('panic-arm-reachable', []).append({'where': what, 'word': str(s.model().eval(w, True)) if r == z3.sat else 'unknown'})
        # `.parse::<uN>().expect(..)` / unwrap on a token: the Err arm must be infeasible for every word of the token's pattern
        for pc, what in self.E.panics:
            po = [c for c in pc if c[0] == 'parse_ok' and c[2] is False]
            if not po:
                continue
            tok = po[0][1][1]
            ty = po[0][1][2] if len(po[0][1]) > 2 else '?'
            lim = {'u8': 2 ** 8, 'u16': 2 ** 16, 'u32': 2 ** 32, 'u64': 2 ** 64, 'usize': 2 ** 64, 'i32': 2 ** 31, 'i64': 2 ** 63}.get(ty)
            w = z3.String('w')
            s = z3.Solver(); s.set('timeout', 30000)
            import layout
            # which lexer pattern produces the terminal is read from the generated `__token_to_integer`
            s.add(z3.InRe(w, layout.regex_of(self.pattern_of_terminal('INTEGER'))))
            if lim is None or not (isinstance(tok, tuple) and tok[0] == 'tok'):
                viol.setdefault('panic-arm-reachable', []).append({'where': what, 'word': 'unsupported numeric type %s' % ty}); continue
            s.add(z3.Or(z3.StrToInt(w) >= lim, z3.StrToInt(w) < 0))
            nq += 1
            r = s.check()
            if r != z3.unsat:
                viol.setdefault('panic-arm-reachable', []).append({'where': what, 'word': s.model().eval(w, True).as_string() if r == z3.sat else 'unknown', 'kind': 'transact-code'})
        # oneway flag and transact code
        for r, (lhs, rhs, res) in self.results.items():
            if lhs not in ('Method', 'Interface'):
                continue
            has_kw = 'ONEWAY' in rhs
            for conds, v in res:
                if v[0] != 'struct':
                    continue
                f = dict(v[2])
                if f.get('oneway') != ('bool', has_kw):
                    viol.setdefault('oneway-flag:%s' % lhs, []).append({'production': '%s = %s' % (lhs, ', '.join(rhs)), 'oneway': content.show(f.get('oneway'))})
                if lhs == 'Method':
                    tc = f.get('transact_code')
                    has_code = 'INTEGER' in rhs
                    ok_parse = any(c[0] == 'eq' and c[1][0] == 'disc' and c[1][1][0] == 'parse' and c[2] == 0 for c in conds)
                    if not has_code and tc != ('none',):
                        viol.setdefault('transact-code:invented', []).append({'built': content.show(tc)})
                    if has_code and ok_parse:
                        i = rhs.index('INTEGER')
                        good = tc is not None and tc[0] == 'some' and [o[:2] for o in occurrences(tc)] == [('tok', i)] and 'parse' in content.show(tc)
                        if not good:
                            viol.setdefault('transact-code:not-the-number', []).append({'built': content.show(tc)})
        return viol, nq

    # ---- M8 ----------------------------------------------------------------------------------------------------------------
    def sem(self, t, env):
        """z3 string of a string-valued term; env: ('nt'|'tok', i) -> z3 String or python list of z3 Strings (identifier lists)"""
        h = t[0]
        if h in ('tok', 'nt'):
            v = env[(h, t[1])]
            if isinstance(v, list):
                raise Unsupported('list used as a string')
            return v
        if h == 'lit':
            return z3.StringVal(t[1])
        if h == 'join':
            lst, sep = t[1], t[2]
            if lst[0] == 'nt':
                els = env[('nt', lst[1])]
            elif lst[0] == 'vec':
                els = [self.sem(x, env) for x in lst[1]]
            else:
                raise Unsupported('join over ' + lst[0])
            sepv = z3.StringVal(sep[1]) if sep[0] in ('lit', 'char') else None
            if sepv is None:
                raise Unsupported('join separator')
            parts = []
            for k, e in enumerate(els):
                if k:
                    parts.append(sepv)
                parts.append(e)
            return z3.Concat(*parts) if len(parts) > 1 else (parts[0] if parts else z3.StringVal(''))
        if h == 'format':
            fa = t[1]
            if fa[0] != 'fmtargs':
                raise Unsupported('format arguments')
            tm = fa[1][0]
            arr = fa[1][1]
            if tm[0] != 'const' or arr[0] != 'array':
                raise Unsupported('format template')
            raw = re.match(r'^b"(.*)"$', tm[1], re.S).group(1)
            pieces = mir.decode_template(raw)
            args = [self.sem(x[1], env) for x in arr[1]]
            parts, k = [], 0
            for p in pieces:
                if p[0] == 'lit':
                    parts.append(z3.StringVal(p[1]))
                else:
                    parts.append(args[k]); k += 1
            return z3.Concat(*parts) if len(parts) > 1 else parts[0]
        raise Unsupported('string term ' + h)

    def names(self):
        """z3 string obligations for the qualified-name family; identifier lists instantiated with 1..2 (quick) elements"""
        viol = {}
        nq = 0
        dot = z3.StringVal('.')

        def joined(parts):
            out = []
            for k, p in enumerate(parts):
                if k:
                    out.append(dot)
                out.append(p)
            return z3.Concat(*out) if len(out) > 1 else out[0]

        def solve(*cs):
            nonlocal nq
            import zutil
            nq += 1
            return zutil.check(list(cs), 30000)
        for r, (lhs, rhs, res) in sorted(self.results.items()):
            prod = '%s = %s' % (lhs, ', '.join(rhs))
            if lhs == 'QualifiedName' or (lhs == 'Value' and rhs == ['IDENT', '"."', 'IDENT']):
                for k in ((1, 2, 3) if any(s.startswith('(<IDENT>') for s in rhs) else (0,)):
                    env, parts = {}, []
                    for i, sym in enumerate(rhs):
                        if sym.startswith('(<IDENT>'):
                            env[('nt', i)] = [z3.String('id%d_%d' % (i, j)) for j in range(k)]
                            parts += env[('nt', i)]
                        elif sym == 'IDENT':
                            env[('tok', i)] = z3.String('id%d' % i)
                            parts.append(env[('tok', i)])
                    for conds, v in res:
                        if not self.feasible(rhs, conds):
                            continue
                        try:
                            got = self.sem(v, env)
                        except Unsupported as e:
                            viol.setdefault('names:unsupported', []).append({'production': prod, 'detail': str(e)}); continue
                        rr, s = solve(got != joined(parts))
                        if rr != z3.unsat:
                            viol.setdefault('qualified-name:%s' % lhs, []).append({'production': prod, 'identifiers': [str(s.model().eval(p, True)) for p in parts] if rr == z3.sat else 'unknown',
                                                                                 'built': str(s.model().eval(got, True)) if rr == z3.sat else ''})
            if lhs == 'Import':
                for k in (1, 2, 3):
                    env, parts = {}, []
                    for i, sym in enumerate(rhs):
                        if sym.startswith('(<IDENT>'):
                            env[('nt', i)] = [z3.String('id%d_%d' % (i, j)) for j in range(k)]
                            parts += env[('nt', i)]
                        elif sym == 'IDENT':
                            env[('tok', i)] = z3.String('id%d' % i)
                            parts.append(env[('tok', i)])
                    for conds, v in res:
                        f = dict(v[2]) if v[0] == 'struct' else {}
                        try:
                            path, name = self.sem(f['path'], env), self.sem(f['name'], env)
                        except (Unsupported, KeyError) as e:
                            viol.setdefault('names:unsupported', []).append({'production': prod, 'detail': str(e)}); continue
                        rr, s = solve(z3.Or(path != joined(parts[:-1]), name != parts[-1]))
                        if rr != z3.unsat:
                            viol.setdefault('import-name', []).append({'production': prod, 'identifiers': [str(s.model().eval(p, True)) for p in parts] if rr == z3.sat else 'unknown'})
            if lhs == 'DeclaredParcelable':
                qi = [i for i, sym in enumerate(rhs) if sym == 'QualifiedName']
                if len(qi) != 1:
                    viol.setdefault('names:unsupported', []).append({'production': prod, 'detail': 'no QualifiedName symbol'}); continue
                q = z3.String('qn')
                for conds, v in res:
                    f = dict(v[2]) if v[0] == 'struct' else {}
                    cz = []
                    try:
                        for c in conds:
                            if c[0] == 'contains':
                                e = z3.Contains(q, z3.StringVal(c[2][1]))
                                cz.append(e if c[3] else z3.Not(e))

                        def part(t):
                            if t[0] in ('rsplit_l', 'rsplit_r', 'split_l', 'split_r'):
                                l, rr_ = z3.String('L'), z3.String('R')
                                cz.append(q == z3.Concat(l, dot, rr_))
                                cz.append(z3.Not(z3.Contains(rr_ if t[0].startswith('rsplit') else l, dot)))
                                return l if t[0].endswith('_l') else rr_
                            if t[0] == 'nt':
                                return q
                            return self.sem(t, {})
                        path, name = part(f['path']), part(f['name'])
                    except (Unsupported, KeyError) as e:
                        viol.setdefault('names:unsupported', []).append({'production': prod, 'detail': str(e)}); continue
                    # specification: name = text after the LAST dot (no dot inside), path = text before it; no dot: path empty
                    spec = z3.If(z3.Contains(q, dot), z3.And(q == z3.Concat(path, dot, name), z3.Not(z3.Contains(name, dot))), z3.And(path == z3.StringVal(''), name == q))
                    rr, s = solve(*cz, z3.Not(spec))
                    if rr != z3.unsat:
                        viol.setdefault('declared-parcelable-name', []).append({'production': prod, 'qualified_name': str(s.model().eval(q, True)) if rr == z3.sat else 'unknown'})
        return viol, nq


def silent_recovery_obligation(run, engine='A'):
    """shared by C03 and C14: obligation + native confirmation"""
    import native, replay
    title = 'every error production of the grammar pushes at least one diagnostic on every path of its action (a recovered syntax error is never silent)'
    try:
        An = Analysis(replay.generated_parser(), mir.Program(mir.dump_mir()))
        n, bad = An.error_productions()
    except (Unsupported, RuntimeError) as e:
        run.inconclusive(title, engine, str(e)); return
    if not n:
        run.inconclusive(title, engine, 'no error production found'); return
    if bad:
        cnt, nb = native.sweep_silent_recovery()
        run.violated(title, engine, 'silent-recovery', {'detail': bad[:3], 'native': nb[:2]}, bool(nb), queries=n, detail=bad[0])
    else:
        run.holds(title, engine, queries=n, bound='all paths of the %d error-production actions' % n)
