"""Engine T: event-trace symbolic execution of the traversal code's MIR (closures, slice iterators, ControlFlow), with
inductive summaries for recursive calls.

The tree is symbolic: nodes are `Obj(path)` created lazily, enum discriminants and vector lengths are z3 integers that the
executor forks on (feasibility by z3), so one path = one tree shape class within the stated width bounds.  Calls into std
are modelled:
   <Vec<T> as Deref>::deref / slice::iter / iter_mut / into_iter      -> iterator over elem_0 .. elem_{n-1} of that vector
   Iterator::next / for_each / try_for_each                           -> their documented semantics (in order, stop at Break)
   <ControlFlow as Try>::branch / FromResidual::from_residual          -> `?`
   <F as FnMut>::call_mut(f, args)                                     -> the closure's MIR body when f is a closure of the crate;
                                                                           an EVENT when f is the caller-supplied callback (its
                                                                           result is symbolic: the path forks Continue / Break)
   calls listed in `summaries`                                         -> one EVENT ('subtree', node) + fork Continue / Break
                                                                           (induction hypothesis for the recursive walker)
The result of a run is the list of paths: (path condition, lens, events, return value)."""
import re
import time

import z3

import mir
from mir import Obj, Unsupported, split_call, _split_top, norm_ty

CF = ['Continue', 'Break']
OPT = ['None', 'Some']
MAX_PATHS = 3000000


DEADLINE = [None]      # wall-clock cap for the current task (set by the caller; Unsupported when exceeded)


class State:
    __slots__ = ('pc', 'events', 'lens', 'iters', 'niter', 'ncall', 'heap', 'facts')

    def __init__(self):
        self.pc, self.events, self.lens, self.iters, self.niter, self.ncall = [], [], {}, {}, 0, 0
        self.heap, self.facts = {}, {}

    def copy(self):
        s = State()
        s.pc, s.events, s.lens, s.iters, s.niter, s.ncall = list(self.pc), list(self.events), dict(self.lens), dict(self.iters), self.niter, self.ncall
        s.heap, s.facts = dict(self.heap), dict(self.facts)
        return s


class TObj(Obj):
    def __init__(self, path, ty=None):
        Obj.__init__(self, path)
        self.ty = ty


def parse_program(txt):
    """functions plus promoted constants (`const NAME: TYPE = { .. }`), keyed by name."""
    prog = mir.Program(txt)
    consts = {}
    lines = txt.split('\n')
    i = 0
    while i < len(lines):
        l = lines[i]
        m = re.match(r'^const (.+?): (.+?) = \{$', l)
        if not m:
            i += 1
            continue
        name = m.group(1)
        blocks, cur = {}, None
        i += 1
        while i < len(lines) and lines[i] != '}':
            s = lines[i]
            mm = re.match(r'^    (bb\d+)( \(cleanup\))?: \{$', s)
            if mm:
                cur = mm.group(1)
                blocks[cur] = []
            elif cur is not None and s.startswith('        '):
                blocks[cur].append(s.strip())
            elif s == '    }':
                cur = None
            i += 1
        consts[name] = mir.Fn(l, name, [], m.group(2), blocks, {})
        i += 1
    prog.consts = consts
    return prog


class Exec:
    def __init__(self, prog, enums, structs, max_len=2, summaries=(), callback_ret=None, len_bounds=None, opaque=()):
        self.prog, self.enums, self.structs = prog, enums, structs
        self.max_len = max_len
        self.len_bounds = len_bounds or {}       # regex on vector path -> max length
        self.summaries = summaries               # regexes of callee names replaced by the induction hypothesis
        self.opaque = opaque                     # regexes of crate callees recorded as events ('opaque', name, args), result unit
        self.memo = {}
        self.closures = {}
        for f in prog.fns:
            if f.params and '{closure@' in f.params[0][1]:
                m = re.search(r'\{closure@([^}]*)\}', f.params[0][1])
                self.closures.setdefault(m.group(1), f)
        self.npaths = 0
        self.panics = []
        self.explicit_new = False      # model HashMap::new() results explicitly (C06) instead of abstractly (C09)
        self.models = {}               # callee regex -> python function(exec, args, state) -> value  (stated in the evidence when used)

    # ------------------------------------------------------------------------------------------------- symbolic heap
    def obj(self, path, ty=None):
        if path not in self.memo:
            self.memo[path] = TObj(path, ty)
        o = self.memo[path]
        if ty and not getattr(o, 'ty', None):
            o.ty = ty
        return o

    def leaf(self, path, ty):
        t = norm_ty(ty)
        if t in ('usize', 'u32', 'u64'):
            return self.memo.setdefault(path, z3.Int(path))
        if t == 'bool':
            return self.memo.setdefault(path, z3.Bool(path))
        if t in ('String', '&String', '&str', '&&str'):
            return self.memo.setdefault(path, z3.String(path))
        if t.startswith('(') and t.endswith(')') and ',' in t:
            comps = _split_top(ty.strip()[1:-1])
            return ('tuple', [self.leaf('%s.%d' % (path, k), c) for k, c in enumerate(comps)])
        return self.obj(path, t.lstrip('&'))

    def disc(self, v, st):
        if isinstance(v, tuple) and v[0] == 'enum':
            names = {'ControlFlow': CF, 'Option': OPT, 'Entry': ['Occupied', 'Vacant']}.get(v[1]) or self.enums.get(v[1])
            if names is None or v[2] not in names:
                raise Unsupported('discriminant of %r' % (v[:3],))
            return z3.IntVal(names.index(v[2]))
        if isinstance(v, tuple) and v[0] == 'variant':
            ty, var = v[1].split('::')[-2], v[1].split('::')[-1]
            return z3.IntVal(self.enums[ty].index(var))
        if isinstance(v, Obj):
            p = v.path + '#disc'
            d = self.memo.setdefault(p, z3.Int(p))
            ty = getattr(v, 'ty', None)
            n = len(self.enums[ty]) if ty in self.enums else None
            if n and ('dom', p) not in st.lens:
                st.pc += [d >= 0, d < n]
                st.lens[('dom', p)] = n
            return d
        raise Unsupported('discriminant of %r' % (v,))

    def vec_len(self, v, st):
        """concrete length of a vector on this path: forks are produced by the caller via `choose_len`."""
        if not isinstance(v, Obj):
            raise Unsupported('length of %r' % (v,))
        return st.lens.get(v.path)

    def bound_for(self, path):
        for pat, n in self.len_bounds.items():
            if re.search(pat, path):
                return n
        return self.max_len

    # ------------------------------------------------------------------------------------------------- places/operands
    def place(self, s, env, st):
        s = s.strip()
        if re.match(r'^_\d+$', s):
            if s not in env:
                raise Unsupported('read of unset local ' + s)
            v = env[s]
            if isinstance(v, tuple) and v and v[0] == 'owncell':
                return st.heap[v[1]]
            return v
        if s.startswith('(') and mir.Interp._match(s, 0) == len(s) - 1:
            inner = s[1:-1].strip()
            if inner.startswith('*'):
                v = self.place(inner[1:], env, st)
                if isinstance(v, tuple) and v[0] == 'cell':
                    return st.heap[v[1]]
                return v
            if inner.startswith('('):
                e = mir.Interp._match(inner, 0)
                head, rest = inner[:e + 1], inner[e + 1:]
            else:
                m = re.match(r'^(_\d+)(.*)$', inner, re.S)
                if not m:
                    raise Unsupported('place ' + s)
                head, rest = m.group(1), m.group(2)
            base = self.place(head, env, st)
            m = re.match(r'^ as (\w+)$', rest)
            if m:
                return self.downcast(base, m.group(1))
            m = re.match(r'^\.(\d+): (.*)$', rest, re.S)
            if m:
                if isinstance(base, Obj) and ('field', base.path, int(m.group(1))) in st.heap:
                    return st.heap[('field', base.path, int(m.group(1)))]
                return self.field(base, int(m.group(1)), m.group(2))
            raise Unsupported('place ' + s)
        if s.startswith('*'):
            v = self.place(s[1:], env, st)
            if isinstance(v, tuple) and v[0] == 'cell':
                return st.heap[v[1]]
            return v
        raise Unsupported('place ' + s)

    def downcast(self, base, variant):
        if isinstance(base, tuple) and base[0] == 'enum':
            if base[2] != variant:
                raise Unsupported('downcast of %s to %s' % (base[2], variant))
            return ('payload', base[3])
        if isinstance(base, Obj):
            return self.obj('%s@%s' % (base.path, variant), variant)
        raise Unsupported('downcast of %r' % (base,))

    def field(self, base, idx, ty):
        if isinstance(base, tuple) and base[0] in ('tuple', 'payload'):
            return base[1][idx]
        if isinstance(base, tuple) and base[0] == 'closure':
            return base[2][idx]
        if isinstance(base, tuple) and base[0] == 'struct':
            return base[2][idx]
        if isinstance(base, Obj):
            return self.leaf('%s.%d' % (base.path, idx), ty)
        raise Unsupported('field %d of %r' % (idx, base))

    def operand(self, s, env, st):
        s = s.strip()
        if getattr(self, 'auto_cells', False):
            # a `&mut local` of a plain value (enum / option / scalar) becomes a heap cell so that writes through the reference
            # (closure captures, `*r = v`) are seen by later reads of the local
            m = re.match(r'^&mut (_\d+)$', s)
            if m and m.group(1) in env:
                v = env[m.group(1)]
                if isinstance(v, tuple) and v and v[0] == 'owncell':
                    return ('cell', v[1])
                if (isinstance(v, tuple) and v and v[0] in ('enum', 'variant')) or z3.is_expr(v):
                    st.ncall += 1
                    nm = 'auto#%d#%s' % (st.ncall, m.group(1))
                    st.heap[nm] = v
                    env[m.group(1)] = ('owncell', nm)
                    return ('cell', nm)
        for pre in ('no_retag copy ', 'copy ', 'move ', '&mut ', '&raw const ', '&raw mut ', '&'):
            if s.startswith(pre):
                return self.operand(s[len(pre):], env, st)
        m = re.match(r'^const (-?\d+)_(?:usize|u32|u64|isize|i32|u8|i16|i64|u16)$', s)
        if m:
            return z3.IntVal(int(m.group(1)))
        if s == 'const true':
            return z3.BoolVal(True)
        if s == 'const false':
            return z3.BoolVal(False)
        if s == 'const ()' or s.startswith('const ZeroSized'):
            mm = re.search(r'\{closure@([^}]*)\}', s)
            if mm:
                return ('closure', mm.group(1), [])
            return ('unit',)
        m = re.match(r'^const "(.*)"$', s, re.S)
        if m:
            txt = m.group(1)
            return z3.StringVal(eval('"' + txt.replace('"', '\\"') + '"') if '\\' in txt else txt)
        m = re.match(r'^const b"(.*)"$', s, re.S)
        if m:
            return ('tmpl', mir.decode_template(m.group(1)))
        m = re.match(r"^const '(.)'$", s)
        if m:
            return ('char', m.group(1))
        m = re.match(r'^const (.*promoted\[\d+\])$', s)
        if m:
            return self.const_value(m.group(1))
        if s.startswith('const '):
            return ('opaque', s)
        return self.place(s, env, st)

    def const_value(self, name):
        base = re.sub(r'::<[^>]*>', '', name)
        cands = [f for n, f in self.prog.consts.items() if n == name or re.sub(r'::<[^>]*>', '', n) == base or base.endswith(n) or n.endswith(base.split('::', 1)[-1])]
        if len(cands) != 1:
            raise Unsupported('promoted constant %s: %d candidates' % (name, len(cands)))
        paths = self.run_fn(cands[0], [], State())
        if len(paths) != 1:
            raise Unsupported('promoted constant with control flow')
        return paths[0][1]

    def rvalue(self, s, env, st):
        s = s.strip()
        m = re.match(r'^discriminant\((.*)\)$', s)
        if m:
            return self.disc(self.place(m.group(1), env, st), st)
        m = re.match(r'^\{closure@([^}]*)\}(?: \{ (.*) \})?$', s)
        if m:
            fields = []
            if m.group(2):
                for fld in _split_top(m.group(2)):
                    k, v = fld.split(': ', 1)
                    fields.append(self.operand(v, env, st))
            return ('closure', m.group(1), fields)
        m = re.match(r'^(?:[\w:]*::)?(ControlFlow|Option|Symbol|ConstOwner)::<[^(]*>::(\w+)(?:\((.*)\))?$', s) or re.match(r'^(?:std::ops::|std::option::)?(ControlFlow|Option)::<.*?>::(\w+)(?:\((.*)\))?$', s)
        if m:
            args = [self.operand(x, env, st) for x in _split_top(m.group(3))] if m.group(3) else []
            return ('enum', m.group(1), m.group(2), args)
        m = re.match(r'^\((.*)\)$', s, re.S)
        if m and mir.Interp._match(s, 0) == len(s) - 1 and not re.search(r'\): [^)]*$', s) and not s.startswith('(*'):
            inner = m.group(1).strip()
            if inner.endswith(','):
                inner = inner[:-1]
            if not re.search(r'^\(?\*?_\d+\)? as ', inner) and not re.match(r'^_\d+\.\d+: ', inner):
                try:
                    return ('tuple', [self.operand(x, env, st) for x in _split_top(inner)] if inner else [])
                except Unsupported:
                    pass
        m = re.match(r'^(Eq|Ne|Lt|Le|Gt|Ge|Add|Sub)\((.*)\)$', s)
        if m:
            a, b = [self.operand(x, env, st) for x in _split_top(m.group(2))]
            return {'Eq': a == b, 'Ne': a != b, 'Lt': a < b, 'Le': a <= b, 'Gt': a > b, 'Ge': a >= b, 'Add': a + b, 'Sub': a - b}[m.group(1)]
        m = re.match(r'^Not\((.*)\)$', s)
        if m:
            return z3.Not(self.operand(m.group(1), env, st))
        m = re.match(r'^\[(.*)\]$', s, re.S)
        if m:
            return ('vec', [self.operand(x, env, st) for x in _split_top(m.group(1))])
        m = re.match(r'^([A-Za-z_][\w:]*?)(?:::<[^{]*>)? \{ (.*) \}$', s, re.S)
        if m and not s.startswith('{'):
            fields = []
            names = []
            for fld in _split_top(m.group(2)):
                k, v = fld.split(': ', 1)
                names.append(k.strip())
                fields.append(self.operand(v, env, st))
            return ('struct', m.group(1).split('::')[-1], fields, names)
        # user enums with generic / lifetime arguments: `path::Enum::<'_>::Variant(..)` -> drop the `::<..>` segment
        s_ng = re.sub(r"::<[^()<>]*>(?=::[A-Z])", '', s)
        if s_ng != s and (re.match(r'^((?:[A-Za-z_]\w*::)+)([A-Z]\w*)\((.*)\)$', s_ng, re.S) or re.match(r'^[A-Za-z_]\w*(?:::[A-Za-z_]\w*)*::[A-Z]\w*$', s_ng)):
            s = s_ng
        m = re.match(r'^((?:[A-Za-z_]\w*::)+)([A-Z]\w*)\((.*)\)$', s, re.S)
        if m:
            ty = m.group(1).rstrip(':').split('::')[-1]
            return ('enum', ty, m.group(2), [self.operand(x, env, st) for x in _split_top(m.group(3))])
        if re.match(r'^[A-Za-z_]\w*(?:::[A-Za-z_]\w*)*::[A-Z]\w*$', s):
            return ('variant', s)
        return self.operand(s, env, st)

    # ------------------------------------------------------------------------------------------------- execution
    def feasible(self, pc):
        import zutil
        return zutil.check(pc, 24000)[0] != z3.unsat

    def run_fn(self, fn, args, st):
        """-> [(state, return value)]"""
        if len(args) != len(fn.params):
            raise Unsupported('arity of %s (%d vs %d)' % (fn.name, len(args), len(fn.params)))
        env0 = {p: v for (p, _t), v in zip(fn.params, args)}
        out = []
        work = [('bb0', env0, st, 0)]
        while work:
            bb, env, st, steps = work.pop()
            self.npaths += 1
            if self.npaths > MAX_PATHS:
                raise Unsupported('path explosion')
            if DEADLINE[0] is not None and time.time() > DEADLINE[0]:
                raise Unsupported('time cap of the task reached during symbolic execution')
            if steps > 400:
                raise Unsupported('too many blocks on one path in ' + fn.name)
            nxt = self.run_block(fn, bb, env, st)
            for item in nxt:
                if item[0] == 'ret':
                    out.append((item[1], item[2]))
                else:
                    work.append((item[1], item[2], item[3], steps + 1))
        return out

    def run_block(self, fn, bb, env, st):
        for st_txt in fn.blocks[bb]:
            t = st_txt.rstrip(';')
            if t.startswith(('StorageLive', 'StorageDead', 'nop', 'FakeRead', 'PlaceMention', 'Retag', 'ConstEvalCounter', 'Coverage')):
                continue
            if t == 'return':
                return [('ret', st, env.get('_0', ('unit',)))]
            if t == 'unreachable' or t.startswith('resume') or t.startswith('unwind'):
                return []
            m = re.match(r'^goto -> (bb\d+)$', t)
            if m:
                return [('go', m.group(1), env, st)]
            m = re.match(r'^drop\(.*\) -> \[return: (bb\d+)', t)
            if m:
                return [('go', m.group(1), env, st)]
            m = re.match(r'^switchInt\((.*)\) -> \[(.*)\]$', t)
            if m:
                v = self.operand(m.group(1), env, st)
                arms = [(int(c), tg) for c, tg in re.findall(r'(-?\d+): (bb\d+)', m.group(2))]
                other = re.search(r'otherwise: (bb\d+)', m.group(2)).group(1)
                isb = z3.is_bool(v)
                res, neg = [], []
                for c, tg in arms:
                    cond = (z3.Not(v) if c == 0 else v) if isb else (v == c)
                    neg.append(z3.Not(cond))
                    cs = z3.simplify(cond)
                    if z3.is_false(cs):
                        continue
                    if z3.is_true(cs) or self.feasible(st.pc + [cond]):
                        s2 = st.copy()
                        if not z3.is_true(cs):
                            s2.pc.append(cond)
                        res.append(('go', tg, dict(env), s2))
                        if z3.is_true(cs):
                            return res
                if self.feasible(st.pc + neg):
                    s2 = st.copy()
                    s2.pc += neg
                    res.append(('go', other, dict(env), s2))
                return res
            sc = split_call(t)
            if sc:
                outs = []
                for (s2, val) in self.call(fn, sc[1], _split_top(sc[2]), sc[0], env, st):
                    e2 = dict(env)
                    self.assign(sc[0], val, e2, s2)
                    outs.append(('go', sc[3], e2, s2))
                return outs
            m = re.match(r'^(_\d+|\(.*?\)) = (.*)$', t, re.S)
            if m:
                self.assign(m.group(1), self.rvalue(m.group(2), env, st), env, st)
                continue
            raise Unsupported('statement: ' + t[:160])
        raise Unsupported('block %s of %s falls through' % (bb, fn.name))

    def assign(self, lhs, val, env, st=None):
        if re.match(r'^_\d+$', lhs):
            cur = env.get(lhs)
            if isinstance(cur, tuple) and cur and cur[0] == 'owncell' and st is not None:
                st.heap[cur[1]] = val
                return
            env[lhs] = val
            return
        m = re.match(r'^\(\*(_\d+)\)$', lhs)
        if m and st is not None:
            tgt = env.get(m.group(1))
            if isinstance(tgt, tuple) and tgt[0] == 'cell':
                st.heap[tgt[1]] = val
                return
        m = re.match(r'^\(\(\*(_\d+)\)\.(\d+): .*\)$', lhs, re.S)
        if m and st is not None:
            tgt = env.get(m.group(1))
            if isinstance(tgt, Obj):
                st.heap[('field', tgt.path, int(m.group(2)))] = val
                return
        raise Unsupported('assignment target ' + lhs)

    # ------------------------------------------------------------------------------------------------- calls
    def elems(self, base, st):
        """list of element objects of vector `base`, forking on its length -> [(state, [elems])]"""
        if isinstance(base, tuple) and base[0] == 'vec':
            return [(st, list(base[1]))]
        if not isinstance(base, Obj):
            raise Unsupported('iteration over %r' % (base,))
        if base.path in st.lens:
            n = st.lens[base.path]
            return [(st, [self.obj('%s[%d]' % (base.path, k), self.elem_ty(base)) for k in range(n)])]
        out = []
        for n in range(self.bound_for(base.path) + 1):
            s2 = st.copy()
            s2.lens[base.path] = n
            out.append((s2, [self.obj('%s[%d]' % (base.path, k), self.elem_ty(base)) for k in range(n)]))
        return out

    def elem_ty(self, base):
        t = getattr(base, 'ty', '') or ''
        m = re.match(r'^Vec<(.*)>$', t)
        return m.group(1) if m else None

    def call(self, fn, callee, args, dest, env, st):
        a = [self.operand(x, env, st) for x in args]
        n = callee
        for pat in self.summaries:
            if re.search(pat, n):
                what = ('subtree', n.split('::<')[0].split('::')[-2] + '::visit_type', a[0])
                rt = fn.locals.get(dest, '')
                if norm_ty(rt).startswith('ControlFlow<') and len(a) > 1 and not self.can_break(a[1]):
                    # induction hypothesis, refined: a walker only returns Break when its callback did
                    st.events.append(what + ('Continue',))
                    return [(st, ('enum', 'ControlFlow', 'Continue', [('unit',)]))]
                return self.callback(what, rt, st)
        if re.search(r' as Deref>::deref$| as DerefMut>::deref_mut$', n):
            return [(st, a[0])]
        if re.search(r'<impl \[.*\]>::iter(_mut)?$| as IntoIterator>::into_iter$', n):
            if isinstance(a[0], tuple) and a[0] and a[0][0] in ('iter', 'miter', 'hiter'):
                return [(st, a[0])]
            if isinstance(a[0], Obj) and getattr(a[0], 'ty', '') in ('HashMap',) and self.coll(a[0], st) is not None:
                st.niter += 1
                st.iters[st.niter] = tuple(range(len(self.coll(a[0], st))))
                return [(st, ('miter', st.niter, a[0]))]
            st.niter += 1
            it = ('iter', st.niter, a[0])
            st.iters[st.niter] = 0
            return [(st, it)]
        if re.search(r' as Iterator>::next$', n) and isinstance(a[0], tuple) and a[0][0] == 'iter':
            it = a[0]
            outs = []
            for (s2, els) in self.elems(it[2], st):
                k = s2.iters[it[1]]
                if k < len(els):
                    s2.iters[it[1]] = k + 1
                    outs.append((s2, ('enum', 'Option', 'Some', [els[k]])))
                else:
                    outs.append((s2, ('enum', 'Option', 'None', [])))
            return outs
        m = re.search(r' as Iterator>::(try_for_each|for_each)::<', n)
        if m and isinstance(a[0], tuple) and a[0][0] == 'iter':
            it, clo = a[0], a[1]
            outs = []
            for (s2, els) in self.elems(it[2], st):
                start = s2.iters[it[1]]
                states = [(s2, None)]
                for k in range(start, len(els)):
                    nxt = []
                    for (s3, brk) in states:
                        if brk is not None:
                            nxt.append((s3, brk))
                            continue
                        if isinstance(clo, Obj):
                            rs = self.callback(('call', clo.path, [els[k]]), '()' if m.group(1) == 'for_each' else 'ControlFlow<V>', s3)
                        else:
                            rs = self.invoke(clo, [els[k]], s3)
                        for (s4, r) in rs:
                            if m.group(1) == 'try_for_each':
                                if not (isinstance(r, tuple) and r[0] == 'enum' and r[1] == 'ControlFlow'):
                                    raise Unsupported('try_for_each closure returned %r' % (r,))
                                nxt.append((s4, r if r[2] == 'Break' else None))
                            else:
                                nxt.append((s4, None))
                    states = nxt
                for (s3, brk) in states:
                    s3.iters[it[1]] = len(els)
                    if m.group(1) == 'try_for_each':
                        outs.append((s3, brk if brk is not None else ('enum', 'ControlFlow', 'Continue', [('unit',)])))
                    else:
                        outs.append((s3, ('unit',)))
            return outs
        if re.search(r' as Try>::branch$', n):
            v = a[0]
            if not (isinstance(v, tuple) and v[0] == 'enum' and v[1] == 'ControlFlow'):
                raise Unsupported('Try::branch on %r' % (v,))
            if v[2] == 'Continue':
                return [(st, ('enum', 'ControlFlow', 'Continue', v[3] or [('unit',)]))]
            return [(st, ('enum', 'ControlFlow', 'Break', [('enum', 'ControlFlow', 'Break', v[3])]))]
        if re.search(r'FromResidual<.*>>::from_residual$', n):
            return [(st, a[0])]
        m = re.search(r'<(\w+|&?\{closure@[^}]*\}) as FnMut<.*>>::call_mut$|<(\w+|\{closure@[^}]*\}) as FnOnce<.*>>::call_once$|<(\w+|&?\{closure@[^}]*\}) as Fn<.*>>::call$', n)
        if m:
            f = a[0]
            args2 = a[1][1] if isinstance(a[1], tuple) and a[1][0] == 'tuple' else [a[1]]
            if isinstance(f, tuple) and f[0] == 'closure':
                return self.invoke(f, args2, st)
            return self.callback(('call', f.path if isinstance(f, Obj) else str(f), args2), fn.locals.get(dest, ''), st)
        if re.search(r'<.* as PartialEq>::eq$', n):
            x, y = a
            for p, q in ((x, y), (y, x)):
                if isinstance(q, tuple) and q[0] == 'variant':
                    return [(st, self.disc(p, st) == self.disc(q, st))]
        if re.search(r'Vec::<.*>::new$', n):
            st.ncall += 1
            return [(st, self.obj('vec#%d' % st.ncall, 'Vec'))]
        if re.search(r'Vec::<.*>::push$', n):
            st.events.append(('push', a[0].path if isinstance(a[0], Obj) else str(a[0]), a[1]))
            return [(st, ('unit',))]
        for pat, fnm in self.models.items():
            if re.search(pat, n):
                return [(st, fnm(self, a, st))]
        for pat in self.opaque:
            if re.search(pat, n):
                st.events.append(('opaque', n.split('::')[-1], a))
                return [(st, ('unit',))]
        r = self.call_std(fn, n, a, dest, st)
        if r is not None:
            return r
        # crate function: inline
        cands = [g for g in self.prog.fns if self.same_fn(g.name, n)]
        if not cands:
            # `Type::method` against `<impl at file:line>::method`: match by method name and the type named in the first parameter / return type
            mm = re.match(r'^(?:[\w:]*::)?(\w+)::(\w+)$', re.sub(r'::<[^(]*>$', '', n))
            if mm:
                ty, meth = mm.group(1), mm.group(2)
                c2 = [g for g in self.prog.fns if re.search(r'<impl at [^>]*>::%s$' % re.escape(meth), g.name)]
                c3 = [g for g in c2 if g.params and re.search(r'\b%s\b' % re.escape(ty), g.params[0][1])]
                if len(c3) != 1:
                    c3 = [g for g in c2 if re.search(r'\b%s\b' % re.escape(ty), g.ret) or any(re.search(r'\b%s\b' % re.escape(ty), pt) for _pn, pt in g.params)]
                cands = c3
        if len(cands) == 1:
            return [(s2, r) for (s2, r) in self.run_fn(cands[0], a, st)]
        raise Unsupported('call to %s (%d candidates)' % (n, len(cands)))

    # ------------------------------------------------------------------------------------------------- std models (strings, options, collections)
    def as_str(self, v):
        if z3.is_expr(v) and v.sort() == z3.StringSort():
            return v
        if isinstance(v, tuple) and v[0] == 'fmt':
            return mir.fmt_to_z3(('fmt', v[1], [self.as_str(x) if not (isinstance(x, tuple) and x[0] == 'fmt') else x for x in v[2]]))
        raise Unsupported('not a string: %r' % (v,))

    def as_key(self, v):
        return v if (z3.is_expr(v) and v.sort() != z3.StringSort()) else self.as_str(v)

    def fork_bool(self, cond, st):
        outs = []
        c = z3.simplify(cond)
        if z3.is_true(c):
            return [(st, z3.BoolVal(True))]
        if z3.is_false(c):
            return [(st, z3.BoolVal(False))]
        if self.feasible(st.pc + [c]):
            s1 = st.copy(); s1.pc.append(c); outs.append((s1, z3.BoolVal(True)))
        if self.feasible(st.pc + [z3.Not(c)]):
            s2 = st.copy(); s2.pc.append(z3.Not(c)); outs.append((s2, z3.BoolVal(False)))
        return outs

    def coll(self, v, st=None):
        """explicit model of a collection object: list of elements (sets) or (key, value) pairs (maps); None = abstract.
        Collections created by the code under test (HashMap::new) live in the path state, those supplied by a harness in memo."""
        if not isinstance(v, Obj):
            return None
        if st is not None and ('coll', v.path) in st.heap:
            return st.heap[('coll', v.path)]
        return self.memo.get(('coll', v.path))

    def call_std(self, fn, n, a, dest, st):
        if re.search(r'<String as From<&str>>::from$|<String as From<String>>::from$|<&str as Into<String>>::into$|<str as ToString>::to_string$|<(String|str|&str) as (Clone|ToOwned)>::(clone|to_owned)$|<String as Deref>::deref$|String::as_str$|must_use::<String>$|<.* as Clone>::clone$|<.* as ToOwned>::to_owned$', n):
            return [(st, a[0])]
        if re.search(r'<(&?String|&?str|&&str) as PartialEq(<.*>)?>::(eq|ne)$', n):
            c = self.as_str(a[0]) == self.as_str(a[1])
            return self.fork_bool(c if n.endswith('eq') else z3.Not(c), st)
        if re.search(r'<.* as PartialEq>::ne$', n):
            x, y = a
            for p, q in ((x, y), (y, x)):
                if isinstance(q, tuple) and q[0] == 'variant':
                    return self.fork_bool(self.disc(p, st) != self.disc(q, st), st)
            raise Unsupported('PartialEq::ne on %r, %r' % (x, y))
        if re.search(r'str>::ends_with::<.*>$|str::<impl str>::ends_with::<.*>$', n):
            return self.fork_bool(z3.SuffixOf(self.as_str(a[1]), self.as_str(a[0])), st)
        if re.search(r'str>::contains::<char>$|str::<impl str>::contains::<char>$', n):
            if not (isinstance(a[1], tuple) and a[1][0] == 'char'):
                raise Unsupported('contains with non-literal char')
            return self.fork_bool(z3.Contains(self.as_str(a[0]), z3.StringVal(a[1][1])), st)
        if re.search(r'str::<impl str>::rsplit_once::<char>$|str>::rsplit_once::<char>$|str::<impl str>::split_once::<char>$', n):
            if not (isinstance(a[1], tuple) and a[1][0] == 'char'):
                raise Unsupported('split with non-literal char')
            sv, ch = self.as_str(a[0]), z3.StringVal(a[1][1])
            st.ncall += 1
            pre, suf = z3.String('split%d_a' % st.ncall), z3.String('split%d_b' % st.ncall)
            outs = []
            if self.feasible(st.pc + [z3.Not(z3.Contains(sv, ch))]):
                s1 = st.copy(); s1.pc.append(z3.Not(z3.Contains(sv, ch)))
                outs.append((s1, ('enum', 'Option', 'None', [])))
            side = z3.Not(z3.Contains(suf, ch)) if 'rsplit' in n else z3.Not(z3.Contains(pre, ch))
            c = [sv == z3.Concat(pre, ch, suf), side]
            if self.feasible(st.pc + c):
                s2 = st.copy(); s2.pc += c
                outs.append((s2, ('enum', 'Option', 'Some', [('tuple', [pre, suf])])))
            return outs
        m = re.search(r'Option::<.*>::map_or::<', n)
        if m:
            v = a[0]
            if not (isinstance(v, tuple) and v[0] == 'enum' and v[1] == 'Option'):
                raise Unsupported('map_or on %r' % (v,))
            if v[2] == 'None':
                return [(st, a[1])]
            return self.invoke(a[2], [v[3][0]], st)
        if re.search(r'str::<impl str>::trim$', n):
            return [(st, ('trimmed', a[0]))]
        if re.search(r'(str::<impl str>|String)::is_empty$', n) and isinstance(a[0], tuple) and a[0] and a[0][0] == 'trimmed':
            ws = z3.Union(*[z3.Re(c) for c in ' \t\n\r\x0b\x0c\x85\xa0\u1680\u2028\u2029\u202f\u205f\u3000'] + [z3.Range('\u2000', '\u200a')])
            return self.fork_bool(z3.InRe(self.as_str(a[0][1]), z3.Star(ws)), st)
        if n.endswith('String::is_empty'):
            return self.fork_bool(z3.Length(self.as_str(a[0])) == 0, st)
        if re.search(r'Argument::<.*>::new_display::<.*>$', n):
            return [(st, a[0])]
        if re.search(r'Arguments::<.*>::new::<\d+, \d+>$', n):
            return [(st, ('fmtargs', a[0][1], a[1][1]))]
        if n == 'format' or n.endswith('fmt::format'):
            v = ('fmt', a[0][1], a[0][2])
            try:
                return [(st, self.as_str(v))]
            except Unsupported:
                return [(st, ('opaque', 'formatted'))]
        m = re.search(r'Option::<.*>::(is_none|is_some|as_ref|as_deref|unwrap|cloned|copied)$', n)
        if m:
            v = a[0]
            if m.group(1) in ('as_ref', 'as_deref', 'cloned', 'copied'):
                return [(st, v)]
            if not (isinstance(v, tuple) and v[0] == 'enum' and v[1] == 'Option'):
                if isinstance(v, Obj):
                    d = self.disc_opt(v, st)
                    if m.group(1) == 'unwrap':
                        raise Unsupported('unwrap of a symbolic Option')
                    return self.fork_bool(d == (0 if m.group(1) == 'is_none' else 1), st)
                raise Unsupported('Option method on %r' % (v,))
            if m.group(1) == 'unwrap':
                if v[2] != 'Some':
                    st.events.append(('panic', 'unwrap on None'))
                    self.panics.append(st)
                    return []
                return [(st, v[3][0])]
            return [(st, z3.BoolVal((v[2] == 'None') == (m.group(1) == 'is_none')))]
        if re.search(r'<Vec<.*> as From<\[.*\]>>::from$|Vec::<.*>::from$', n):
            return [(st, a[0])]
        if re.search(r'Vec::<diagnostic::Diagnostic>::push$', n):
            st.events.append(('diag', a[1]))
            return [(st, ('unit',))]
        # ---- hash sets / maps
        m = re.search(r'HashSet::<.*>::contains::<.*>$', n)
        if m:
            els = self.coll(a[0], st)
            if els is None:
                raise Unsupported('contains on an unmodelled set')
            key = self.as_str(a[1])
            return self.fork_bool(z3.Or([key == e for e in els]) if els else z3.BoolVal(False), st)
        if re.search(r'Option::<.*>::map::<', n) and isinstance(a[0], tuple) and a[0] and a[0][0] == 'enum' and a[0][1] == 'Option':
            if a[0][2] == 'None':
                return [(st, a[0])]
            return [(s2, ('enum', 'Option', 'Some', [r])) for (s2, r) in self.invoke(a[1], [a[0][3][0]], st)]
        if re.search(r'HashMap::<.*>::keys$', n):
            pairs = self.coll(a[0], st)
            if pairs is None:
                raise Unsupported('keys() on an unmodelled map')
            kobj = self.obj('keys#' + a[0].path, 'HashSet')
            st.heap[('coll', kobj.path)] = [k for (k, _v) in pairs]
            st.niter += 1
            st.iters[st.niter] = 0
            return [(st, ('hiter', st.niter, kobj))]
        if re.search(r'HashSet::<.*>::iter$', n):
            st.niter += 1
            st.iters[st.niter] = 0
            return [(st, ('hiter', st.niter, a[0]))]
        if re.search(r' as Iterator>::filter::<', n) and isinstance(a[0], tuple) and a[0] and a[0][0] in ('hiter', 'miter'):
            return [(st, ('hfilter', a[0], a[1]))]
        m = re.search(r'^<(?:std::iter::)?Filter<.*> as Iterator>::(min|max|min_by_key|max_by_key)(?:::<.*>)?$', n)
        if m and isinstance(a[0], tuple) and a[0] and a[0][0] == 'hfilter':
            # the extremum of the matching elements under the (key) order: the order is abstracted to an INJECTIVE rank on the
            # compared strings (any total order), so the result does not depend on the iteration order; elements whose keys are
            # equal cannot be told apart by the order and both remain possible (min_by_key returns the first in iteration order)
            it, clo = a[0][1], a[0][2]
            els = self.coll(it[2], st)
            if els is None:
                raise Unsupported('min/max on an unmodelled collection')
            if it[0] == 'miter':
                els = [('tuple', [k, v]) for (k, v) in els]
            rank = z3.Function('elem_rank', z3.StringSort(), z3.IntSort())
            sign = 1 if m.group(1).startswith('min') else -1
            bykey = m.group(1).endswith('_by_key')

            def keys_of(e, s0):
                if not bykey:
                    return [(s0, self.as_str(e))]
                return [(s1, self.as_str(k)) for (s1, k) in self.invoke(a[1], [e], s0)]
            states = [(st.copy(), None, None)]
            for e in els:
                nxt = []
                for (s0, best, bkey) in states:
                    for (s2, r) in self.invoke(clo, [e], s0):
                        rs = z3.simplify(r) if z3.is_expr(r) else r
                        if z3.is_false(rs):
                            nxt.append((s2, best, bkey)); continue
                        if not z3.is_true(rs):
                            raise Unsupported('filter predicate did not fork to a constant')
                        for (s3, es) in keys_of(e, s2):
                            if best is None:
                                nxt.append((s3, e, es)); continue
                            inj = z3.Implies(rank(es) == rank(bkey), es == bkey)
                            for cond, nb, nk in ((sign * rank(es) < sign * rank(bkey), e, es), (sign * rank(bkey) < sign * rank(es), best, bkey),
                                                 (es == bkey, e, es), (es == bkey, best, bkey)):
                                c = [cond, inj]
                                if self.feasible(s3.pc + c):
                                    s4 = s3.copy(); s4.pc += c
                                    nxt.append((s4, nb, nk))
                states = nxt
            return [(s0, ('enum', 'Option', 'Some', [b_]) if b_ is not None else ('enum', 'Option', 'None', [])) for (s0, b_, _k) in states]
        m = re.search(r' as Iterator>::find::<', n)
        if m:
            it, clo = a[0], a[1]
            outs = []
            if it[0] == 'miter':
                pairs = self.coll(it[2], st)
                none_states = [st.copy()]
                for (k, v) in pairs:
                    e = ('tuple', [k, v])
                    for (s2, r) in self.invoke(clo, [e], st.copy()):
                        if z3.is_true(z3.simplify(r)):
                            outs.append((s2, ('enum', 'Option', 'Some', [e])))
                    nxt = []
                    for ns in none_states:
                        for (s2, r) in self.invoke(clo, [e], ns):
                            if z3.is_false(z3.simplify(r)):
                                nxt.append(s2)
                    none_states = nxt
                outs += [(ns, ('enum', 'Option', 'None', [])) for ns in none_states]
                return outs
            if it[0] == 'hiter':
                # hash order is arbitrary: ANY element satisfying the predicate may be the one returned
                els = self.coll(it[2], st)
                if els is None:
                    raise Unsupported('find on an unmodelled set')
                none_states = [st.copy()]
                for e in els:
                    for (s2, r) in self.invoke(clo, [e], st.copy()):
                        if z3.is_true(z3.simplify(r)):
                            outs.append((s2, ('enum', 'Option', 'Some', [e])))
                    nxt = []
                    for ns in none_states:
                        for (s2, r) in self.invoke(clo, [e], ns):
                            if z3.is_false(z3.simplify(r)):
                                nxt.append(s2)
                    none_states = nxt
                outs += [(ns, ('enum', 'Option', 'None', [])) for ns in none_states]
                return outs
            # ordered iterator over a concrete vector
            base = it[2]
            els = base[1] if isinstance(base, tuple) and base[0] == 'vec' else None
            if els is None:
                raise Unsupported('find on %r' % (base,))
            states = [st]
            for e in els:
                nxt = []
                for s0 in states:
                    for (s2, r) in self.invoke(clo, [e], s0):
                        if z3.is_true(z3.simplify(r)):
                            outs.append((s2, ('enum', 'Option', 'Some', [e])))
                        else:
                            nxt.append(s2)
                states = nxt
            outs += [(s0, ('enum', 'Option', 'None', [])) for s0 in states]
            return outs
        m = re.search(r'HashMap::<.*>::(get|contains_key)::<.*>$', n)
        if m:
            pairs = self.coll(a[0], st)
            if pairs is not None:
                key = self.as_key(a[1])
                outs = []
                neg = []
                for (k, v) in pairs:
                    if self.feasible(st.pc + neg + [key == k]):
                        s2 = st.copy(); s2.pc += neg + [key == k]
                        outs.append((s2, ('enum', 'Option', 'Some', [v]) if m.group(1) == 'get' else z3.BoolVal(True)))
                    neg.append(key != k)
                if self.feasible(st.pc + neg):
                    s2 = st.copy(); s2.pc += neg
                    outs.append((s2, ('enum', 'Option', 'None', []) if m.group(1) == 'get' else z3.BoolVal(False)))
                return outs
            return self.abstract_lookup(a[0], a[1], st, m.group(1))
        if re.search(r'HashMap::<.*>::new$|HashSet::<.*>::new$', n) and self.explicit_new:
            st.ncall += 1
            mobj = self.obj('map#%d' % st.ncall, 'HashMap')
            st.heap[('coll', mobj.path)] = []
            return [(st, mobj)]
        if re.search(r'HashMap::<.*>::insert$', n):
            pairs = self.coll(a[0], st)
            if pairs is not None and ('coll', a[0].path) in st.heap:
                key = self.as_key(a[1])
                outs, neg = [], []
                for j, (k, v) in enumerate(pairs):
                    if self.feasible(st.pc + neg + [key == k]):
                        s2 = st.copy(); s2.pc += neg + [key == k]
                        s2.heap[('coll', a[0].path)] = pairs[:j] + [(k, a[2])] + pairs[j + 1:]
                        outs.append((s2, ('enum', 'Option', 'Some', [v])))
                    neg.append(key != k)
                if self.feasible(st.pc + neg):
                    s2 = st.copy(); s2.pc += neg
                    s2.heap[('coll', a[0].path)] = pairs + [(key, a[2])]
                    outs.append((s2, ('enum', 'Option', 'None', [])))
                return outs
            # abstract map: the previous value under this key is unknown -> None or Some(earlier value), like a look-up
            outs = []
            kd = str(a[1]) if z3.is_expr(a[1]) else repr(a[1])
            for (s2, r) in self.abstract_lookup(a[0], a[1], st, 'get'):
                s2.events.append(('insert', a[0].path, a[1], a[2]))
                s2.facts[('nonempty', a[0].path)] = True
                s2.facts[('lookup', a[0].path, kd)] = ('hit', a[2])
                outs.append((s2, r))
            return outs
        if re.search(r'HashSet::<.*>::insert$', n):
            st.events.append(('set_insert', a[0].path if isinstance(a[0], Obj) else str(a[0]), a[1]))
            return [(st, z3.BoolVal(True))]
        if re.search(r'HashMap::<.*>::iter$|<(&)?(std::collections::)?HashMap<.*> as IntoIterator>::into_iter$', n):
            pairs = self.coll(a[0], st)
            if pairs is None:
                raise Unsupported('iteration over an unmodelled map')
            st.niter += 1
            st.iters[st.niter] = tuple(range(len(pairs)))
            return [(st, ('miter', st.niter, a[0]))]
        if re.search(r'hash_map::Iter<.*> as IntoIterator>::into_iter$', n):
            return [(st, a[0])]
        if re.search(r'hash_map::(Iter|IntoIter)<.*> as Iterator>::next$', n):
            it = a[0]
            pairs = self.coll(it[2], st)
            rem = st.iters[it[1]]
            outs = []
            if not rem:
                return [(st, ('enum', 'Option', 'None', []))]
            for j in rem:              # hash order is arbitrary: every remaining entry may come next
                s2 = st.copy()
                s2.iters[it[1]] = tuple(x for x in rem if x != j)
                outs.append((s2, ('enum', 'Option', 'Some', [('tuple', [pairs[j][0], pairs[j][1]])])))
            return outs
        m = re.search(r' as Iterator>::fold::<', n)
        if m:
            it, acc, clo = a[0], a[1], a[2]
            outs = []
            for (s2, els) in self.elems(it[2], st):
                states = [(s2, acc)]
                for k in range(s2.iters[it[1]], len(els)):
                    nxt = []
                    for (s3, ac) in states:
                        nxt += self.invoke(clo, [ac, els[k]], s3)
                    states = nxt
                outs += states
            return outs
        if re.search(r'HashMap::<.*>::is_empty$', n):
            if isinstance(a[0], Obj) and ('coll', a[0].path) in st.heap:
                return [(st, z3.BoolVal(len(st.heap[('coll', a[0].path)]) == 0))]       # explicit model: the content is known
            if ('nonempty', a[0].path) in st.facts:
                return [(st, z3.BoolVal(not st.facts[('nonempty', a[0].path)]))]
            s1, s2 = st, st.copy()
            s1.facts[('nonempty', a[0].path)] = False
            s2.facts[('nonempty', a[0].path)] = True
            return [(s1, z3.BoolVal(True)), (s2, z3.BoolVal(False))]
        if re.search(r'HashMap::<.*>::entry$', n) and self.coll(a[0], st) is not None and ('coll', a[0].path) in st.heap:
            pairs = self.coll(a[0], st)
            key = self.as_key(a[1])
            outs, neg = [], []
            for (k, v) in pairs:
                if self.feasible(st.pc + neg + [key == k]):
                    s2 = st.copy(); s2.pc += neg + [key == k]
                    outs.append((s2, ('enum', 'Entry', 'Occupied', [('occupied', a[0].path, key, v)])))
                neg.append(key != k)
            if self.feasible(st.pc + neg):
                s2 = st.copy(); s2.pc += neg
                outs.append((s2, ('enum', 'Entry', 'Vacant', [('vacant', a[0].path, key)])))
            return outs
        if re.search(r'HashMap::<.*>::entry$', n):
            outs = []
            for (s2, r) in self.abstract_lookup(a[0], a[1], st, 'get'):
                if r[2] == 'Some':
                    outs.append((s2, ('enum', 'Entry', 'Occupied', [('occupied', a[0].path, a[1], r[3][0])])))
                else:
                    outs.append((s2, ('enum', 'Entry', 'Vacant', [('vacant', a[0].path, a[1])])))
            return outs
        if re.search(r'OccupiedEntry::<.*>::(get|get_mut|into_mut)$', n):
            return [(st, a[0][3])]
        if re.search(r'OccupiedEntry::<.*>::insert$', n):
            occ = a[0]
            key = ('coll', occ[1])
            if key in st.heap:
                st.heap[key] = [(k, a[1]) if (v is occ[3]) else (k, v) for (k, v) in st.heap[key]]
            else:
                st.events.append(('insert', occ[1], occ[2], a[1]))
            return [(st, occ[3])]
        if re.search(r'VacantEntry::<.*>::insert$', n) and ('coll', a[0][1]) in st.heap:
            st.heap[('coll', a[0][1])] = st.heap[('coll', a[0][1])] + [(a[0][2], a[1])]
            return [(st, a[1])]
        if re.search(r'VacantEntry::<.*>::insert$', n):
            st.events.append(('insert', a[0][1], a[0][2], a[1]))
            st.facts[('nonempty', a[0][1])] = True
            return [(st, a[1])]
        return None

    def disc_opt(self, v, st):
        p = v.path + '#disc'
        d = self.memo.setdefault(p, z3.Int(p))
        if ('dom', p) not in st.lens:
            st.pc += [d >= 0, d < 2]
            st.lens[('dom', p)] = 2
        return d

    def abstract_lookup(self, m, key, st, kind):
        """lookup in an abstract map (contents unknown): the result is None or Some(previous value); recorded as a fact so that the
        oracle can relate it to the abstract history; emptiness facts are kept consistent."""
        outs = []
        kdesc = str(key) if z3.is_expr(key) else repr(key)
        known = st.facts.get(('lookup', m.path, kdesc))
        if known is not None:
            # the same key was already looked up on this path: stay consistent with that answer
            if known[0] == 'hit':
                return [(st, ('enum', 'Option', 'Some', [known[1]]) if kind == 'get' else z3.BoolVal(True))]
            return [(st, ('enum', 'Option', 'None', []) if kind == 'get' else z3.BoolVal(False))]
        if st.facts.get(('nonempty', m.path)) is not False:
            s1 = st.copy()
            s1.ncall += 1
            prev = self.obj('%s#hit%d' % (m.path, s1.ncall), 'Method')
            s1.facts[('nonempty', m.path)] = True
            s1.facts[('lookup', m.path, kdesc)] = ('hit', prev)
            s1.events.append(('lookup', m.path, kdesc, 'hit', prev.path))
            outs.append((s1, ('enum', 'Option', 'Some', [prev]) if kind == 'get' else z3.BoolVal(True)))
        s2 = st.copy()
        s2.facts[('lookup', m.path, kdesc)] = ('miss',)
        s2.events.append(('lookup', m.path, kdesc, 'miss', None))
        outs.append((s2, ('enum', 'Option', 'None', []) if kind == 'get' else z3.BoolVal(False)))
        return outs

    @staticmethod
    def same_fn(defname, callee):
        c = re.sub(r'::<[^(]*>$', '', callee)
        c = re.sub(r"::<'_(?:, \w+)*>", '', c)
        c = re.sub(r'::<[^>]*>', '', c)
        d = defname
        return d == c or d.endswith('::' + c) or c.endswith('::' + d)

    def can_break(self, f):
        """may the callback value f return ControlFlow::Break?  (opaque callbacks: yes; crate closures: run them once)"""
        if not (isinstance(f, tuple) and f[0] == 'closure'):
            return True
        key = ('can_break', f[1])
        if key not in self.memo:
            sub = Exec(self.prog, self.enums, self.structs, self.max_len, self.summaries, None, self.len_bounds)
            sub.memo = dict((k, v) for k, v in self.memo.items() if not isinstance(k, tuple))
            try:
                outs = sub.invoke(f, [sub.obj('dummy#sym', 'Symbol')], State())
                self.memo[key] = any(isinstance(r, tuple) and r[:3] == ('enum', 'ControlFlow', 'Break') for (_s, r) in outs)
            except Unsupported:
                self.memo[key] = True
        return self.memo[key]

    def invoke(self, clo, args, st):
        f = self.closures.get(clo[1])
        if f is None:
            raise Unsupported('closure body not found: ' + clo[1])
        return self.run_fn(f, [clo] + list(args), st)

    def callback(self, what, ret_ty, st):
        """caller-supplied callback / summarised recursive call: one event, symbolic result."""
        t = norm_ty(ret_ty)
        idx = len(st.events)
        if t in ('()', ''):
            st.events.append(what + ('unit',))
            return [(st, ('unit',))]
        if t == 'bool':
            s1, s2 = st, st.copy()
            s1.events.append(what + ('true',))
            s2.events.append(what + ('false',))
            return [(s1, z3.BoolVal(True)), (s2, z3.BoolVal(False))]
        if t.startswith('ControlFlow<'):
            s1, s2 = st, st.copy()
            s1.events.append(what + ('Continue',))
            s2.events.append(what + ('Break',))
            tok = ('breakval', idx)
            return [(s1, ('enum', 'ControlFlow', 'Continue', [('unit',)])), (s2, ('enum', 'ControlFlow', 'Break', [tok]))]
        raise Unsupported('callback returning ' + ret_ty)
