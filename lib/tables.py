"""Engine P, part 1: LALR(1) tables of the parser that lalrpop generated from the current src/aidl.lalrpop.

Read from `mod __parse__OptAidl` of OUT_DIR/aidl.rs: __ACTION, __EOF_ACTION, __goto, __simulate_reduce, __TERMINAL and the
`// Nonterminal = symbols => ActionFn(n);` comment of every __reduceN (for evidence and for engine A)."""
import re


class Tables:
    pass


def extract(path, mod='__parse__OptAidl'):
    src = open(path).read()
    i = src.index('mod %s {' % mod)
    j = src.find('\nmod ', i + 10)
    m = src[i:j if j > 0 else len(src)]

    def arr(name):
        k = m.index('const %s: &[i16] = &[' % name)
        e = m.index('];', k)
        body = m[k:e].split('= &[', 1)[1]
        body = re.sub(r'//[^\n]*', '', body)
        return [int(x) for x in re.findall(r'-?\d+', body)]
    T = Tables()
    T.action = arr('__ACTION')
    T.eof = arr('__EOF_ACTION')
    T.nstates = len(T.eof)
    T.nterm = len(T.action) // T.nstates           # terminals + the error column (last)
    k = m.index('fn __goto(state: i16, nt: usize) -> i16 {')
    e = m.index('fn __expected_tokens', k)
    g = m[k:e]
    body = g[g.index('match nt {') + len('match nt {'):]
    T.goto = {}
    for mm in re.finditer(r'\n            (\d+) => (?:(\d+),|match state \{(.*?)\n            \},)', body, re.S):
        nt = int(mm.group(1))
        if mm.group(2) is not None:
            T.goto[nt] = (int(mm.group(2)), {})
        else:
            d, default = {}, None
            for arm in re.finditer(r'\n\s+([0-9| .=]+|_) => (\d+),', mm.group(3)):
                pat, tgt = arm.group(1).strip(), int(arm.group(2))
                if pat == '_':
                    default = tgt
                else:
                    for p in pat.split('|'):
                        p = p.strip()
                        if '..=' in p:
                            a, b = p.split('..=')
                            for s in range(int(a), int(b) + 1):
                                d[s] = tgt
                        else:
                            d[int(p)] = tgt
            T.goto[nt] = (default, d)
    k = m.index('fn __simulate_reduce<')
    e = m.index('pub struct', k)
    sr = m[k:e]
    T.red = {}
    for mm in re.finditer(r'(\d+) => \{\s*__state_machine::SimulatedReduce::Reduce \{\s*states_to_pop: (\d+),\s*nonterminal_produced: (\d+),', sr):
        T.red[int(mm.group(1))] = (int(mm.group(2)), int(mm.group(3)))
    T.accept = set(int(x) for x in re.findall(r'(\d+) => __state_machine::SimulatedReduce::Accept', sr))
    k = m.index('const __TERMINAL: &[&str] = &[')
    e = m.index('];', k)
    T.terms = re.findall(r'r###"(.*?)"###', m[k:e])
    T.tix = {n: i for i, n in enumerate(T.terms)}
    T.err = T.nterm - 1
    # productions: reduce index -> (lhs text, rhs symbols text, action fn)
    T.prod = {}
    for mm in re.finditer(r'fn __reduce(\d+)<.*?\{\s*// ([^\n]*?) => ActionFn\((\d+)\);', m, re.S):
        lhs, _, rhs = mm.group(2).partition(' = ')
        T.prod[int(mm.group(1))] = (lhs.strip(), rhs.strip(), int(mm.group(3)))
    # fallible (`=>?`) productions are inlined in the `__reduce` match: `N => { // Lhs = rhs => ActionFn(n);`
    for mm in re.finditer(r'\n\s+(\d+) => \{\s*// ([^\n]*?) => ActionFn\((\d+)\);', m):
        lhs, _, rhs = mm.group(2).partition(' = ')
        T.prod.setdefault(int(mm.group(1)), (lhs.strip(), rhs.strip(), int(mm.group(3))))
    missing = [r for r in T.red if r not in T.prod]
    if missing:
        raise RuntimeError('no production text for reductions %s' % missing[:5])
    if len(T.terms) != T.nterm - 1:
        raise RuntimeError('terminal list (%d) does not match the action table width (%d)' % (len(T.terms), T.nterm))
    if not T.red or not T.accept:
        raise RuntimeError('no reductions / accept found in __simulate_reduce')
    return T


def goto(T, s, nt):
    d, m = T.goto.get(nt, (0, {}))
    return m.get(s, d if d is not None else 0)


# one canonical lexeme per terminal, for rendering token sequences to text
LEX = {'"("': '(', '")"': ')', '","': ',', '"-"': '-', '"."': '.', '";"': ';', '"<"': '<', '"="': '=', '">"': '>', '"["': '[', '"]"': ']', '"{"': '{', '"}"': '}',
       'ANNOTATION': '@A', 'BOOLEAN': 'true', 'CHAR_SEQUENCE': 'CharSequence', 'CONST': 'const', 'DIRECTION': 'in', 'ENUM': 'enum', 'FLOAT': '1.5', 'IDENT': 'x',
       'IMPORT': 'import', 'INTEGER': '7', 'INTERFACE': 'interface', 'LIST': 'List', 'MAP': 'Map', 'ONEWAY': 'oneway', 'PACKAGE': 'package', 'PARCELABLE': 'parcelable',
       'PRIMITIVE': 'int', 'QUOTED_STRING': '"s"', 'RESERVED_KEYWORD': 'for', 'STRING': 'String', 'VOID': 'void'}


def render(T, toks):
    return ' '.join(LEX[T.terms[t]] for t in toks)


def render_spans(T, toks):
    """text and the (start, end) byte span of every token."""
    out, spans, pos = [], [], 0
    for k, t in enumerate(toks):
        lx = LEX[T.terms[t]]
        if k:
            out.append(' ')
            pos += 1
        spans.append((pos, pos + len(lx)))
        out.append(lx)
        pos += len(lx)
    return ''.join(out), spans
