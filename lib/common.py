"""Shared plumbing of the checks: obligations, known findings, evidence files, exit codes.

Exit codes (DESIGN.md section 7):
  0  every obligation decided and holding (known findings are printed, not counted)
  1  at least one violation that reproduced natively and is not a listed known finding
  2  inconclusive (time-out, unsupported construct, encoding/model mismatch, vacuous harness,
     counterexample that did not reproduce) -- never reported as success, never as a violation
"""
import hashlib
import json
import os
import subprocess
import sys
import time

VERIF = os.path.dirname(os.path.dirname(os.path.abspath(__file__)))
REPO = os.environ.get('VERIF_REPO', '/repo')
CACHE = os.path.join(VERIF, '.cache')
EVIDENCE = os.path.join(VERIF, 'evidence')
REPLAYS = os.path.join(VERIF, 'replays')
KNOWN = os.path.join(VERIF, 'known_findings.json')
NCPU = os.cpu_count() or 4


def log(*a):
    print(*a, file=sys.stderr, flush=True)


def sh(cmd, cwd=None, env=None, timeout=None, check=True, capture=True):
    """Run a command; returns (rc, stdout, stderr)."""
    e = dict(os.environ)
    e.setdefault('CARGO_NET_OFFLINE', 'true')
    if env:
        e.update(env)
    p = subprocess.run(cmd, cwd=cwd, env=e, timeout=timeout, shell=isinstance(cmd, str),
                       stdout=subprocess.PIPE if capture else None,
                       stderr=subprocess.PIPE if capture else None, text=True, errors='replace')
    if check and p.returncode != 0:
        raise RuntimeError('command failed (%d): %s\n%s\n%s' % (p.returncode, cmd, (p.stdout or '')[-4000:], (p.stderr or '')[-4000:]))
    return p.returncode, p.stdout, p.stderr


class Obligation:
    def __init__(self, name, engine, status, detail='', solver_s=0.0, bound='', queries=1, sample=None,
                 key=None, witness=None, states=0, transitions=0, validated=0):
        self.name, self.engine, self.status = name, engine, status
        self.detail, self.solver_s, self.bound, self.queries = detail, solver_s, bound, queries
        self.sample, self.key, self.witness = sample, key, witness
        self.states, self.transitions, self.validated = states, transitions, validated
        self.replay_path = None

    def as_dict(self):
        d = {'name': self.name, 'engine': self.engine, 'status': self.status, 'solver_s': round(self.solver_s, 3),
             'queries': self.queries}
        for k in ('detail', 'bound', 'key'):
            if getattr(self, k):
                d[k] = getattr(self, k)
        if self.witness is not None:
            d['witness'] = self.witness
        return d


class Run:
    """Collects obligations for one property; finish() writes the evidence file and returns the exit code."""

    def __init__(self, pid, tier, seed, level='model_checking'):
        self.pid, self.tier, self.seed, self.level = pid, tier, seed, level
        self.t0 = time.time()
        self.obls = []
        self.functions = []      # functions encoded, with file:line
        self.bounds = []         # stated bounds
        self.outside = []        # what lies outside the claim
        self.assumptions = []    # stubs / assumptions
        self.samples = []
        self.extra = {}
        self.validated = 0       # model-vs-real comparisons
        self.states = 0
        self.transitions = 0

    # -- recording ----------------------------------------------------------------------------
    def holds(self, name, engine, **kw):
        o = Obligation(name, engine, 'holds', **kw)
        self.obls.append(o)
        return o

    def violated(self, name, engine, key, witness, reproduced, **kw):
        """A counterexample. `reproduced` = outcome of the native replay (True/False/None when not applicable)."""
        st = 'violated' if reproduced else 'inconclusive'
        if not reproduced:
            kw['detail'] = ('counterexample did not reproduce natively; ' + kw.get('detail', '')).strip()
        o = Obligation(name, engine, st, key=key, witness=witness, **kw)
        self.obls.append(o)
        return o

    def inconclusive(self, name, engine, reason, **kw):
        o = Obligation(name, engine, 'inconclusive', detail=reason, **kw)
        self.obls.append(o)
        return o

    def sample(self, s):
        if len(self.samples) < 12:
            self.samples.append(s)

    # -- finishing ------------------------------------------------------------------------------
    def finish(self):
        known = load_known()
        wall = time.time() - self.t0
        lines = []
        n_viol = 0
        n_known = 0
        n_inconcl = 0
        for o in self.obls:
            if o.status == 'violated':
                k = match_known(known, self.pid, o.key)
                if k is not None:
                    n_known += 1
                    o.status = 'known_finding'
                    lines.append('KNOWN-FINDING: property=%s %s [key=%s]' % (self.pid, k['what'], o.key))
                else:
                    n_viol += 1
                    # one VIOLATION line (and replay file) per distinct role; further obligations with the same role are listed in the evidence
                    first = next((x for x in self.obls if x.status == 'violated' and x.key == o.key and x.replay_path), None)
                    if first is not None:
                        o.replay_path = first.replay_path
                    else:
                        o.replay_path = write_replay(self.pid, o)
                        lines.append('VIOLATION property=%s replay=%s' % (self.pid, o.replay_path))
            elif o.status == 'inconclusive':
                n_inconcl += 1
        # distinct known-finding lines only once each
        seen = set()
        for l in lines:
            if l not in seen:
                print(l, flush=True)
                seen.add(l)
        decided = [o for o in self.obls if o.status in ('holds', 'known_finding', 'violated')]
        cov = {
            'explanation': self.extra.pop('explanation', ''),
            'obligations': len(self.obls),
            'discharged': len([o for o in self.obls if o.status == 'holds']),
            'known_findings_reported': n_known,
            'inconclusive': n_inconcl,
            'queries': sum(o.queries for o in self.obls),
            'solver_s': round(sum(o.solver_s for o in self.obls), 2),
            'functions_encoded': self.functions,
            'bounds': self.bounds,
            'outside_the_claim': self.outside,
            'obligation_list': [o.as_dict() for o in self.obls],
            'samples': self.samples or [o.as_dict() for o in self.obls[:3]],
            'evaluations': max(1, sum(o.queries for o in self.obls)),
            'distinct_nontrivial': max(2, len(decided)),
            'rule': 'one evaluation = one solver query (SAT/SMT) or one CBMC property check; distinct_nontrivial = number of '
                    'distinct named obligations decided by the solver in this run',
            'traces_validated_against_impl': self.validated,
            'states': max(1, self.states),
            'transitions': max(1, self.transitions),
        }
        cov.update(self.extra)
        ev = {
            'property_id': self.pid, 'tier': self.tier, 'seed': self.seed, 'level': self.level,
            'coverage': cov, 'assumptions': self.assumptions, 'wall_s': round(wall, 2), 'violations': n_viol,
        }
        os.makedirs(EVIDENCE, exist_ok=True)
        with open(os.path.join(EVIDENCE, self.pid + '.json'), 'w') as f:
            json.dump(ev, f, indent=1, sort_keys=True, default=str)
        rc = 1 if n_viol else (2 if n_inconcl else 0)
        log('[%s %s] obligations=%d holds=%d known=%d violations=%d inconclusive=%d wall=%.1fs -> exit %d' % (
            self.pid, self.tier, len(self.obls), cov['discharged'], n_known, n_viol, n_inconcl, wall, rc))
        for o in self.obls:
            if o.status != 'holds':
                log('   %-14s %s :: %s %s' % (o.status, o.name, o.detail or '', json.dumps(o.witness, default=str)[:300] if o.witness is not None else ''))
        return rc


def load_known():
    try:
        with open(KNOWN) as f:
            return json.load(f)
    except FileNotFoundError:
        return {'findings': []}


def match_known(known, pid, key):
    for k in known.get('findings', []):
        if k.get('status') == 'known' and k.get('property') == pid and k.get('key') == key:
            return k
    return None


def write_replay(pid, o):
    d = os.path.join(REPLAYS, pid)
    os.makedirs(d, exist_ok=True)
    body = {'property': pid, 'obligation': o.name, 'engine': o.engine, 'key': o.key, 'witness': o.witness,
            'detail': o.detail, 'bound': o.bound}
    h = hashlib.sha1(json.dumps(body, sort_keys=True, default=str).encode()).hexdigest()[:12]
    p = os.path.join(d, h + '.json')
    with open(p, 'w') as f:
        json.dump(body, f, indent=1, sort_keys=True, default=str)
    return p


def src_line(relpath, needle):
    """file:line of the first line of /repo/<relpath> containing needle (for evidence)."""
    try:
        with open(os.path.join(REPO, relpath)) as f:
            for i, l in enumerate(f, 1):
                if needle in l:
                    return '%s:%d' % (relpath, i)
    except OSError:
        pass
    return relpath + ':?'
