#!/bin/sh
# usage: tools/run_all.sh [quick|thorough] : runs every claimed check against /repo's working tree, one after the other; summary on stdout
tier=${1:-quick}
cd "$(dirname "$0")/.."
if [ -n "$(git -C /repo status --porcelain)" ]; then echo "/repo is not clean"; exit 3; fi
for p in C01 C02 C03 C04 C05 C06 C07 C08 C09 C10 C11 C12 C13 C14 C15 C16 C17 C18 C19 C20; do
  s=$(date +%s)
  ./check $p --tier $tier > .cache/all_${tier}_$p.out 2> .cache/all_${tier}_$p.err
  rc=$?
  e=$(date +%s)
  echo "$p tier=$tier exit=$rc wall=$((e-s))s $(grep -c '^VIOLATION' .cache/all_${tier}_$p.out) violations $(grep -c '^KNOWN-FINDING' .cache/all_${tier}_$p.out) known"
done
