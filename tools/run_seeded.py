#!/usr/bin/env python3
"""tools/run_seeded.py [name ...]: for every seeded change applies patch.diff to /repo, verifies that the repo's own tests still
pass, runs the quick checks of the properties listed for it (seeded/<name>/props.txt, default: the id prefix) and records which
checks raise an alarm; always reverts /repo afterwards."""
import json, os, re, subprocess, sys, time
V = '/verif'


def sh(cmd, **kw):
    return subprocess.run(cmd, shell=True, capture_output=True, text=True, **kw)


def main():
    names = sys.argv[1:] or sorted(os.listdir(V + '/seeded'))
    for n in names:
        d = '%s/seeded/%s' % (V, n)
        if not os.path.exists(d + '/patch.diff'):
            continue
        props = open(d + '/props.txt').read().split() if os.path.exists(d + '/props.txt') else [re.search(r'C\d\d', n).group(0)]
        if sh('git -C /repo status --porcelain').stdout.strip():
            print('repo dirty, abort'); return 1
        r = sh('git -C /repo apply %s/patch.diff' % d)
        if r.returncode:
            print(n, 'patch does not apply:', r.stderr[:200]); continue
        res = {'name': n, 'props': props, 'checks': {}}
        try:
            t = sh('cd /repo && cargo test --workspace --no-fail-fast --offline 2>&1 | grep -E "^test result"')
            res['repo_tests'] = t.stdout.strip().split('\n')
            res['repo_tests_pass'] = all(' 0 failed' in l for l in res['repo_tests']) and len(res['repo_tests']) >= 3
            if os.path.exists(d + '/demo.sh'):
                res['demo_exit_with_patch'] = sh(d + '/demo.sh').returncode
            for p in props:
                t0 = time.time()
                c = sh('cd %s && ./check %s' % (V, p))
                lines = [l for l in c.stdout.split('\n') if l.startswith('VIOLATION') or l.startswith('KNOWN-FINDING')]
                fails = [l.strip()[:400] for l in c.stderr.split('\n') if re.match(r'\s+(violated|inconclusive)', l)]
                res['checks'][p] = {'exit': c.returncode, 'violations': len([l for l in lines if l.startswith('VIOLATION')]), 'wall_s': round(time.time() - t0), 'obligations': fails[:6]}
                print(n, p, 'exit', c.returncode, 'violations', res['checks'][p]['violations'], flush=True)
        finally:
            sh('git -C /repo checkout -- .')
        if os.path.exists(d + '/demo.sh'):
            res['demo_exit_clean'] = sh(d + '/demo.sh').returncode
        json.dump(res, open(d + '/result.json', 'w'), indent=1)
    return 0


if __name__ == '__main__':
    sys.exit(main())
