#!/usr/bin/env python3
"""Prints the compact table of DESIGN.md section 9 (change | what it is | caught by) from seeded/*/result.json and meta.json."""
import json, os
V = '/verif/seeded'
rows = []
for n in sorted(os.listdir(V)):
    d = os.path.join(V, n)
    if not os.path.exists(d + '/patch.diff'):
        continue
    meta = json.load(open(d + '/meta.json')) if os.path.exists(d + '/meta.json') else {}
    res = json.load(open(d + '/result.json')) if os.path.exists(d + '/result.json') else None
    what = (meta.get('summary') or meta.get('needs') or '').replace('\n', ' ').replace('|', '/')
    what = what[:150] + ('...' if len(what) > 150 else '')
    if res:
        caught = ', '.join(p for p, c in res['checks'].items() if c['exit'] == 1) or '-'
        other = ', '.join('%s: %s' % (p, 'inconclusive' if c['exit'] == 2 else 'not affected / missed') for p, c in res['checks'].items() if c['exit'] != 1)
    else:
        caught, other = 'not run', ''
    rows.append('| `%s` | %s | **%s** | %s |' % (n, what, caught, other))
print('| change | what it does | caught (exit 1) by | other listed checks |\n|---|---|---|---|')
print('\n'.join(rows))
