#!/usr/bin/env python3
"""tools/register_fix.py <property> <key> <seeded-dir-name> <what...> : records HEAD of /repo as a fix in known_findings.json and saves its reverse as a seeded patch."""
import json, subprocess, sys, os
prop, key, name, what = sys.argv[1], sys.argv[2], sys.argv[3], ' '.join(sys.argv[4:])
commit = subprocess.run(['git', '-C', '/repo', 'rev-parse', '--short', 'HEAD'], capture_output=True, text=True).stdout.strip()
d = '/verif/seeded/' + name
os.makedirs(d, exist_ok=True)
open(d + '/patch.diff', 'w').write(subprocess.run(['git', '-C', '/repo', 'diff', 'HEAD', 'HEAD~1'], capture_output=True, text=True).stdout)
k = json.load(open('/verif/known_findings.json'))
k['findings'] = [f for f in k['findings'] if not (f['property'] == prop and f['key'] == key and f['status'] == 'fixed')]
k['findings'].append({'property': prop, 'key': key, 'status': 'fixed', 'commit': commit, 'what': 'fixed: property=%s %s %s' % (prop, commit, what)})
json.dump(k, open('/verif/known_findings.json', 'w'), indent=1)
print('registered', prop, key, commit, d)
