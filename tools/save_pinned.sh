#!/bin/sh
# usage: tools/save_pinned.sh <dir-name> : stores the reverse of /repo's HEAD commit (a fix:) as seeded/<dir-name>/patch.diff
set -e
d=/verif/seeded/$1; mkdir -p $d
git -C /repo diff HEAD HEAD~1 > $d/patch.diff
git -C /repo rev-parse --short HEAD > $d/fix_commit.txt
echo saved $d
