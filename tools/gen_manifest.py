#!/usr/bin/env python3
"""Regenerates /verif/MANIFEST.json from the table below (kept in one place so the manifest stays valid)."""
import json, os, subprocess
HERE = os.path.dirname(os.path.dirname(os.path.abspath(__file__)))

CHECKS = {
 'C20': dict(engine='M (nightly MIR -> z3) + native replay', technique='symbolic execution of the real MIR, z3 over unbounded integers',
             design='4/C20', category='model_checking',
             text='z3 decides, over the loop-free MIR of expected_token_str/from_parse_error/from_error_recovery of the current tree, that every index of the '
                  'expectation vector reaches the message for every vector length (unbounded), that no path panics and that the EOF/token arms format their own '
                  'expected vector; counterexamples are replayed natively through the formatter and through Parser::add_content with the recorder hook.',
             note='Trusted: the MIR dump of the nightly toolchain equals what the stable build compiles; axioms for <[String]>::join / Index<Range>; Display of String; '
                  'how lalrpop fills the expected vector.'),
 'C17': dict(engine='M (nightly MIR -> z3 strings) + native replay', technique='symbolic execution of the real MIR, z3 sequence theory over unbounded strings',
             design='4/C17', category='model_checking',
             text='The MIR of Symbol::get_qualified_name / get_name, Aidl::get_key, Item::get_name, Import::get_qualified_name and ConstOwner::get_name of the current tree is '
                  'executed symbolically with every name an unconstrained string; one z3 query per symbol variant and path shows result = reference written from the property '
                  '(package.Name = key, Owner::member, dotted names, stored identifiers). Counterexamples are replayed on a four-file project through the public API.',
             note='Trusted: nightly MIR = what stable compiles; format_args! template decoding (self-checked); Display of String is identity. Not decided: that the resolver stores the right key in type references (C05).'),
 'C11': dict(engine='M (nightly MIR -> z3 integers; CFG path enumeration; z3 over iteration orders) + T (self-composition under independent hash orders, z3 strings) + native replay',
             technique='symbolic execution of the real MIR; z3 over unbounded integers, over pairs of iteration orders, and over pairs of paths of a self-composition',
             design='4/C11', category='model_checking',
             text='ORDER: z3 decides over unbounded positions that the key of the final sort in validate refines (line, column) order; every CFG path of the per-file closure sorts last; an unstable sort is a violation. '
                  'HASH ORDER: (a) the key -> kind map collected from the stored files is compared across every pair of iteration orders of 2 and 3 files (z3); (b) resolve_type and check_declared_parcelables are '
                  'executed twice on the same symbolic inputs with independent hash orders and z3 refutes every pair of paths with different outcomes; (c) diagnostics pushed in hash order have pairwise distinct '
                  'statement ranges on every path; (d) results are collected keyed by the id each file came with. With C12 and C13 this covers repeated calls, new parsers, insertion orders and seeds. '
                  'One known finding: two files registering one key with different kinds.',
             note='Trusted: slice::sort_by_key is a stable sort; String: Ord is a total order (abstracted to an injective rank); offsets and (line, column) are co-monotone if the key uses offsets.'),
 'C14': dict(engine='P (real LALR tables + validated driver model, path-forking symbolic execution; z3/CYK for error-free boxes) + native replay',
             technique='symbolic execution of the table-driven parser with error recovery; z3 (QF_BV CYK) on error-free path boxes',
             design='4/C14', category='model_checking',
             text='Frames `package x; K x { good1 <W> T good2 }` for interface / parcelable / enum, three positions, several member forms: every window W of 1..4 (quick) / 1..5 '
                  '(thorough) terminals is covered by path boxes on which the recovery behaviour is constant; per box: tree produced, both siblings reduced with exactly their own '
                  'extents, >=1 error, all errors inside [W, T]; error-free boxes are shown well-formed by z3 against the reference grammar. Violating boxes are replayed natively.',
             note='Trusted: the driver model of lalrpop_util 0.19.8 (validated per run on random token strings and on all witnesses); canonical lexeme rendering; lexing is outside.'),
 'C03': dict(engine='P (tables + driver model, one z3/CYK query per path) + L (lexer table -> z3 regex) + M (from_parse_error MIR) + native replay',
             technique='symbolic execution of the real LALR tables; z3 QF_BV equivalence with a reference CYK; z3 regular expressions',
             design='4/C03', category='model_checking',
             text='For 17 syntactic slots (whole sequences, header, trailing text after each item kind, bodies, argument list, values, annotation / type parameters, names) every window up to 4-5 (quick) / 5-6 (thorough) '
                  'terminals over the full vocabulary: the generated parser reports no syntax error exactly when an independent reference grammar derives the document (z3 per path box); '
                  'no path ends without a tree and without an error; keywords/reserved words never lex as IDENT and all other identifier-shaped words do (unbounded, z3 regex); '
                  'every non-User parse error becomes an Error diagnostic.',
             note='Trusted: driver model (validated per run), reference grammar transcription, regex crate executing the generated patterns as written; whole-token lexing only.'),
 'C04': dict(engine='A (generated action wrappers -> z3 integers) + K (Range::new) + M (from_parse_error) + native layout sweep',
             technique='symbolic evaluation of the generated parser actions; z3 over unbounded integer token spans',
             design='4/C04', category='model_checking',
             text='For each of the ~60 tree-building productions of the current grammar, every Range::new / Type::* offset is an integer term over symbolic token spans; z3 decides for ALL layouts: '
                  'start <= end, every offset is a token boundary, name range = span of the name, full range from the first token (or between annotations and it) to the last token or `;`, '
                  'doc-scan start = first token, oneway range = keyword, transact-code diagnostic = the number; Kani shows Range::new passes offsets through; MIR shows syntax diagnostics take the '
                  'token span / EOF location. Counterexample layouts are confirmed by a native sweep of templates x 8 gap variants (CRLF, Unicode spaces, multi-byte comments).',
             note='Trusted: lalrpop pushes (first token start, last token end) for a symbol and (lookahead, lookahead) for an empty one; line/column vs offset (line-col crate) is only covered natively; '
                  'ranges of HashMap-produced diagnostics are outside.'),
 'C19': dict(engine='M (derive-generated serialize/visit_map/visit_str MIR -> z3) + native RON round trip',
             technique='attribute-consistency obligations read off the real derive MIR, z3 per skipped field',
             design='4/C19', category='model_checking',
             text='For all 22 derive-generated writers and their readers: every conditionally skipped field is defaulted by the reader, z3 shows skip_predicate(v) => v = reader default for every '
                  'value (crate predicates/defaults translated from MIR), written field and variant names are accepted by the reader, no duplicate names. A project exercising every optional field '
                  'in both states is round-tripped natively through RON; a violation is reported only if a file does not survive.',
             note='Trusted: serde\'s impls for primitive/std types and the generated handling of present fields; skipped = absent for the reader (self-describing formats).'),
 'C15': dict(engine='T (event-trace symbolic execution of the traversal MIR with inductive summaries; z3 for path feasibility and tree models) + native sweeps',
             technique='symbolic execution of the real MIR with models of slice iterators / ControlFlow; induction over type nesting depth',
             design='3/T, 4/C15', category='model_checking',
             text='The MIR of src/traverse.rs is executed symbolically on a symbolic tree (discriminants and vector lengths are z3 integers). STEP: one call of each recursive type walker, with the '
                  'recursive calls replaced by the induction hypothesis, visits [children.., node] for arrays and [node, children..] otherwise and stops at the first Break => type order and '
                  'exactly-once for ANY nesting depth. OUTER/DEEP: every tree with imports/members/arguments <= 2, all item and member kinds, 3 filter levels, and types nested to depth 2 without '
                  'any summary: the event sequence is the reference pre-order, a Break stops the walk and is returned. find_symbol = first match (package included), filter_symbols = the matches, '
                  'walk_types / walk_types_mut / walk_methods / walk_args likewise. Counterexamples confirmed by native sweeps (369 symbols, 90 lookups).',
             note='Trusted: the models of slice::Iter / for_each / try_for_each / `?`; derive(PartialEq) on TypeKind compares discriminants for unit variants. Kani could not finish the recursive '
                  'walkers (one concrete depth-2 tree: > 400 s in symbolic execution), which is why this engine exists.'),
 'C16': dict(engine='K (range_contains over all usize) + T (find_symbol = first match in traversal order; lookup closure) + native sweep',
             technique='Kani/CBMC for the containment arithmetic; symbolic execution of the traversal MIR for the search', design='4/C16', category='model_checking',
             text='range_contains(r, p) <=> start <=lex p <=lex end for all eight usize values (CBMC); find_symbol_at_line_col is find_symbol with the predicate range_contains(symbol.get_range(), p) '
                  '(MIR); find_symbol returns the first symbol in traversal order satisfying its predicate, the package and types at any depth included (engine T). 90 native lookups on generated documents.',
             note='Trusted: as C15; that name ranges match the source text is C04.'),
 'C07': dict(engine='K (Kani/CBMC over check_method_args, check_method, set_up_oneway_interface) + M (order of the validation steps) + native sweep',
             technique='Kani proof harnesses over the real code, finite product decided by CBMC', design='4/C07', category='model_checking',
             text='category (16 + void) x direction (4) x method oneway x interface oneway: number, kind and range of every direction Error against a reference table written from the statement; '
                  'MIR CFG of validate: resolve_types -> set_up_oneway_interface -> check_methods on every path. 544 source-level cases (all 17 categories through real multi-file resolution) natively.',
             note='Stubs: alloc::fmt::format. One symbolic argument per harness (two ran out of memory). void arguments: only the oneway rule is asserted (statement silent).'),
 'C08': dict(engine='K (check_container and the four element tables) + T (every container node at any depth reaches check_container) + native sweep',
             technique='Kani/CBMC for the finite category tables; symbolic execution of the walker MIR with induction over depth', design='4/C08', category='model_checking',
             text='array / list / map-key / map-value tables over all 17 categories and raw List/Map warnings (CBMC, count + kind + range); walk_types offers every type node at any depth exactly once '
                  'and check_containers calls check_container on it (engine T). 405 container types x 5 syntactic positions natively.',
             note='Stubs: alloc::fmt::format. Map key of unresolved kind is left open (statement ambiguous).'),
 'C10': dict(engine='K (set_up_oneway_interface, check_method) + M (order of the validation steps) + native sweep',
             technique='Kani proof harnesses over the real code', design='4/C10', category='model_checking',
             text='interface oneway x <= 2 (3 thorough) members x {const, method(oneway?)}: flags after propagation, one Warning per redundant keyword on the keyword with the interface name as related '
                  'info; oneway x 17 return categories: one Error on the return type iff non-void; propagation composed with the return rule; MIR CFG: propagation precedes check_methods on every path.',
             note='Stubs: alloc::fmt::format.'),
 'C05': dict(engine='K (built-in tables, resolver on import-free files) + T (every type node reaches the resolver exactly once, any depth) + native sweep',
             technique='Kani/CBMC + symbolic execution of the walker MIR', design='4/C05', category='model_checking',
             text='resolve_type is executed from its MIR on a symbolic written name, <= 2 (3) imports, <= 1 forward declaration and <= 1-2 registered keys, all unconstrained strings, with find over a hash set '
                  'returning ANY matching element: every reached classification is compared with the scoping rules of the statement (import by equality or dot-aligned suffix, forward declaration, built-ins, a '
                  'built-in stays a built-in when imported, exactly one Error for what nothing covers, nothing covered is left unresolved). walk_types_mut offers every type node at any nesting depth exactly once '
                  'and resolve_types calls resolve_type on it (engine T, induction); Kani: built-in tables and the import-free resolver. Native sweep of 67 references.',
             note='Stubs: RandomState::new (empty containers only), alloc::fmt::format.'),
 'C18': dict(engine='K (find_content_string) + A/content (scan start = first token; doc sources) + L (patterns of parse_javadoc as z3 regular expressions) + native sweeps',
             technique='Kani proof harness over the real back-scan, comment text symbolic; z3 regular-expression inclusions over the patterns read from MIR',
             design='4/C18', category='model_checking',
             text='Back-scan: for every prefix (nothing, `;`, `}`, earlier doc comment), every comment body of <= 2 (quick) / 3, 5 (thorough) characters over 8 classes incl. 2-, 3- and 4-byte '
                  'code points and every pair of separators (space, LF, CRLF, block comment, line comment) the scan returns exactly the body, byte for byte; no documentation without a directly '
                  'preceding doc comment. Every `doc` field a grammar action fills is get_javadoc(input, captured position) and no other field receives documentation. Text structure: the three patterns '
                  'parse_javadoc compiles are read from its MIR; z3 shows (unbounded words) that every LF/CRLF blank line, optionally decorated, is a paragraph separator, every decorated line break is '
                  'joined and words are never matched, `<char><blanks>@` starts a tag line; the split/trim/replace_all/join pipeline is read off the call sequence. 247 + 30 native texts.',
             note='Outside: the regex crate and the exact composed text (only natively); white space other than blank/tab/CR/LF between a doc comment and its construct.'),
 'C01': dict(engine='K (doc back-scan totality, constructor arity) + A (offsets are token boundaries) + M (parse errors become diagnostics) + native sweeps',
             technique='Kani/CBMC; z3 over generated action wrappers and lexer patterns; MIR path enumeration', design='4/C01', category='model_checking',
             text='Partial: the four panic mechanisms named by the anchors. Doc back-scan returns normally for every text of <= 7 (9) characters over 10 classes; every offset handed to the line/column '
                  'lookup is a token boundary for all layouts; every type the constructors build passes check_container without unreachable!/index panic; every non-User parse error becomes a diagnostic; '
                  'the 322 grammar-action functions contain one panic site (Direction\'s unreachable arm), refuted by z3 for every word of the DIRECTION pattern; one result per id, tagged with its id '
                  '(stored under the caller\'s id with a clone of it, returned keyed by it; C12\'s invariant for any history).',
             note='Outside: lexer/regex, line-col, parse_javadoc, termination, panics inside the validation functions other than those the harnesses cover.'),
 'C09': dict(engine='T (symbolic execution of check_methods\' per-method closure from an arbitrary abstract pre-state: inductive step) + native sweep',
             technique='inductive step by symbolic execution of the real MIR with abstract HashMap models; z3 for path feasibility', design='4/C09', category='model_checking',
             text='check_methods is a fold over walk_methods with four pieces of state (name -> first method, code -> first method among distinct names, first method with / without a code). '
                  'Its per-method closure is executed from an ARBITRARY pre-state (map look-ups may miss or hit some earlier method, markers None/Some) and one arbitrary method; on every path the '
                  'diagnostics (count, kind, range, related range) and the state updates equal the transition the statement prescribes, no path panics, and the assumed invariant is preserved - so the '
                  'result holds for method sequences of any length. The initial state and the fold over walk_methods are read off the MIR; walk_methods yields methods only (C15). '
                  'Native sweep: all 1554 sequences of <= 4 methods over 2 names x {no code, 2 codes}.',
             note='Trusted: std HashMap get/insert/entry/is_empty behave as documented (modelled, not executed); which range the mixed Error points back to is not part of the claim.'),
 'C06': dict(engine='T (symbolic execution of check_imports / check_declared_parcelables with explicit HashMap models; z3 strings) + native sweep',
             technique='symbolic execution of the real MIR, hash order quantified away, z3 per (statement, category)', design='4/C06', category='model_checking',
             text='check_imports and check_declared_parcelables are executed from their MIR on lists of <= 2 (3 thorough) statements whose qualified and simple names are unconstrained strings, with small '
                  'symbolic resolved / registered-key / import-map collections. The local HashMaps are explicit (entry / insert / get fork on key equality), iteration yields the entries in every order and find '
                  'returns any matching entry. Per path and per (statement, category: duplicate / unresolved / unused; conflict / repeated / unused / usage) z3 decides present => deserved and absent => not deserved, '
                  'and that a repeat points back to the first occurrence. The resolver closure is shown to record the key every node resolved to. Native sweep: 1 000+ import / declaration lists.',
             note='Trusted: std HashMap/HashSet behave as documented (modelled); Import::get_qualified_name is an atomic string per statement here (formatting: C17). Lists longer than the bound are outside.'),
 'C02': dict(engine='L (generated lexer table -> z3 regular expressions) + A/content (every grammar action executed symbolically from MIR) + z3 strings + native reference trees',
             technique='z3 regular-expression emptiness over the real lexer table; symbolic execution of the real action MIR with mirror obligations; z3 strings for qualified names',
             design='4/C02', category='model_checking',
             text='Partial, by decomposition (the parser itself is not executed symbolically). LAYOUT: over the 37 generated lexer patterns z3 shows that no token pattern matches a word starting like trivia, '
                  'no token can be extended across a trivia boundary, block comments end at their first */, line comments with their line, and every comment text is accepted - so the (kind, text) token '
                  'sequence is independent of the white space / comments between tokens (unbounded words). CONTENT: each of the 202 non-error productions\' user actions is executed from its MIR on symbolic '
                  'token texts / child nodes / positions; per production and path: every content-carrying child is used exactly once, verbatim, in source order and in the field the statement names, positions '
                  'reach only ranges and the documentation look-up, Direction / oneway / transact code follow their tokens, qualified names are the identifiers joined by "." (z3 strings, 1..3 identifiers). '
                  'Two known findings (array literals stored as `{...}`, enum-element annotations dropped). Native: reference trees of 3 documents using every construct under 8 layouts.',
             note='Trusted: the regex crate / lalrpop_util longest-match lexing; the LR driver feeds actions with the symbols of the production it reduces (which production fires: C03); std text/Vec operations '
                  'listed in the evidence. Outside: layouts with no separator at all; annotations on forward declarations (statement silent); documentation; positions.'),
 'C12': dict(engine='M (MIR of the Parser methods -> z3 arrays + uninterpreted functions; CFG path enumeration) + native history sweep',
             technique='inductive invariant over the real MIR: one z3 query per path of each operation (arrays, uninterpreted functions)', design='4/C12', category='model_checking',
             text='Every MIR path of add_content / remove_content / validate / add_file becomes an update of a z3 array S: Id -> Option<Result>. z3 shows for each path that the invariant '
                  '"S is the image of the surviving-contents map M under R(id, content)" is preserved (R = the term add_content stores, which must mention only id and content), that validate '
                  'returns a term over S alone and leaves S unchanged, and that add_file stores exactly what add_content(path, text) stores and nothing on an I/O error. The invariant holds for '
                  'the empty parser, hence after every history and for every fresh parser built from M: unbounded histories, any number of ids. CFG facts (single insert/remove, key map recomputed, '
                  'no global or interior-mutable state) by path enumeration. Native confirmation: all histories of length <= 2 (3) over 21 operations, a stale-cache scenario, seeded random histories.',
             note='Trusted: std HashMap insert/remove/get/contains_key/entry/clone = array store/select; parsing is an uninterpreted function of (id, content); File::open / read_to_string are uninterpreted. '
                  'Hash iteration order is not in this model (see C11).'),
 'C13': dict(engine='M (information flow on the MIR CFG) + T (self-composition of resolve_type / check_imports, z3 strings) + native perturbation sweep',
             technique='2-safety by self-composition: symbolic execution of the real MIR twice, z3 on every pair of paths with different outcomes', design='4/C13', category='model_checking',
             text='Frame: the per-file closure of validate captures only a shared reference to the key -> kind map; the map flows only into resolve_types -> resolve_type and check_imports, where it is '
                  'only looked up (get / contains_key); it is built from (get_key, get_kind) of the stored trees; get_kind is a constant per variant; no global state. Non-interference: resolve_type and '
                  'check_imports are executed twice on the same file-side inputs (unbounded strings) and two different key maps (<= 2 entries each); for every pair of paths with different outcomes z3 shows '
                  'that the two maps must disagree on an import of the file. Native: 13 result-preserving perturbations of a 4-file project and 4 negative controls.',
             note='Outside: a file with two imports matching the same written name and two files registering one key with different kinds (hash-order choices, decided under C11); Aidl::get_key (C17).'),
}

NA = {
}
PENDING = {}
for p in ['C01','C03','C04','C05','C06','C07','C08','C09','C10','C11','C14','C15','C16','C17','C18','C19']:
    if p not in CHECKS:
        PENDING[p] = 'check designed (DESIGN.md section 4) but not built yet in this tree; not claimed until it is'

def main():
    commits = subprocess.run(['git', '-C', '/repo', 'log', '--format=%H %s'], capture_output=True, text=True).stdout.splitlines()
    hooks = [c.split()[0] for c in commits if c.split(' ', 1)[1].startswith('hooks:')]
    m = {
     'version': 1,
     'setup_cmd': './setup.sh',
     'hooks': {'guard': 'cargo feature verif-hooks', 'enable': 'cargo build --features verif-hooks (the harness/replay crates depend on /repo with features=["verif-hooks"])',
               'baseline_off_cmd': 'cd /repo && cargo test --workspace --no-fail-fast --offline',
               'source_commits': list(reversed(hooks)), 'add_only': True},
     'engines': [
       {'name': 'M', 'path': 'lib/mir.py lib/histcheck.py lib/framecheck.py', 'serves_properties': ['C01', 'C03', 'C04', 'C07', 'C10', 'C11', 'C12', 'C13', 'C17', 'C18', 'C19', 'C20'], 'kind_free_text': 'nightly MIR of the current tree -> path-enumerating symbolic interpreter -> z3 (strings/integers)'},
       {'name': 'P', 'path': 'lib/tables.py lib/lrdriver.py lib/pengine.py lib/refgrammar.py', 'serves_properties': ['C03', 'C14'], 'kind_free_text': 'LALR tables extracted from the generated parser of the current tree; model of the lalrpop_util driver incl. error recovery; path-forking symbolic execution; z3 CYK of a reference grammar'},
       {'name': 'T', 'path': 'lib/tmir.py lib/travcheck.py lib/resolvecheck.py lib/nonint.py', 'serves_properties': ['C05', 'C06', 'C08', 'C09', 'C13', 'C15', 'C16'], 'kind_free_text': 'event-trace symbolic executor for the traversal MIR (closures, slice iterators, ControlFlow) with inductive summaries for recursive walkers'},
       {'name': 'K', 'path': 'kani/ lib/kani.py lib/ksupport.py', 'serves_properties': ['C01', 'C04', 'C05', 'C07', 'C08', 'C10', 'C16', 'C18'], 'kind_free_text': 'Kani 0.68 / CBMC proof harnesses over the real crate (path dependency, hooks enabled)'},
       {'name': 'A', 'path': 'lib/acteval.py lib/content.py lib/mirror.py', 'serves_properties': ['C01', 'C02', 'C04'], 'kind_free_text': 'symbolic evaluator of the machine-generated __actionN wrappers: Range::new arguments as integer terms over token spans'},
       {'name': 'L', 'path': 'lib/lexl.py lib/layout.py', 'serves_properties': ['C02', 'C03'], 'kind_free_text': 'generated lexer pattern table -> z3 regular expressions'},
       {'name': 'replay', 'path': 'replay/', 'serves_properties': sorted(CHECKS), 'kind_free_text': 'native binary built against /repo (verif-hooks) that replays solver counterexamples through the public API'},
     ],
     'checks': [], 'not_applicable': [],
     'notes': 'Exit 0 = all obligations decided and holding (known findings printed); 1 = violation reproduced natively; 2 = inconclusive (never a verdict). See DESIGN.md.',
    }
    for pid in sorted(CHECKS):
        c = CHECKS[pid]
        m['checks'].append({'property_id': pid, 'quick_cmd': './check %s' % pid, 'thorough_cmd': './check %s --tier thorough' % pid,
                            'evidence_file': 'evidence/%s.json' % pid, 'replay_cmd_template': './check %s --replay {path}' % pid, 'engine': c['engine'],
                            'level_claimed': {'category': c['category'], 'text': c['text'], 'design_ref': c['design']}, 'level_note': c['note'], 'technique': c['technique']})
    for pid in sorted(list(NA) + list(PENDING)):
        m['not_applicable'].append({'property_id': pid, 'reason': NA.get(pid) or PENDING[pid]})
    with open(os.path.join(HERE, 'MANIFEST.json'), 'w') as f:
        json.dump(m, f, indent=1)
    print('MANIFEST.json: %d checks, %d not applicable' % (len(m['checks']), len(m['not_applicable'])))

if __name__ == '__main__':
    main()
