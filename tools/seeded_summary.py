#!/usr/bin/env python3
"""Regenerates seeded/SUMMARY.md from the result.json files written by tools/run_seeded.py."""
import json, os
V = '/verif/seeded'
rows = []
for n in sorted(os.listdir(V)):
    d = os.path.join(V, n)
    if not os.path.isdir(d) or not os.path.exists(d + '/patch.diff'):
        continue
    meta = json.load(open(d + '/meta.json')) if os.path.exists(d + '/meta.json') else {}
    res = json.load(open(d + '/result.json')) if os.path.exists(d + '/result.json') else None
    needs = (meta.get('needs') or '').replace('\n', ' ').replace('|', '/')
    if len(needs) > 230:
        needs = needs[:227] + '...'
    if res:
        checks = '; '.join('%s: exit %d%s' % (p, c['exit'], ' (%d VIOLATION)' % c['violations'] if c['violations'] else '') for p, c in res['checks'].items())
        tests = 'pass' if res.get('repo_tests_pass') else 'FAIL'
        demo = '%s/%s' % (res.get('demo_exit_with_patch', '-'), res.get('demo_exit_clean', '-'))
    else:
        checks, tests, demo = 'not run yet', '?', '?'
    rows.append('| `%s` | %s | %s | %s | %s |' % (n, needs, tests, demo, checks))
with open(V + '/SUMMARY.md', 'w') as f:
    f.write('# Seeded changes\n\n`pinned-*`: reverse of a `fix:` commit (a defect of the pinned tree). `agent-*`: written by a fresh sub-agent that saw only the property text and a scratch worktree.\n'
            'Columns: what the change needs in order to manifest; the repository\'s own suite with the change applied; demonstration exit code with / without the change (0 = passes); '
            'exit code of each listed quick check with the change applied (1 = VIOLATION reported after native confirmation, 2 = inconclusive, 0 = missed).\n\n'
            '| change | needs | repo tests | demo (with/without) | checks |\n|---|---|---|---|---|\n' + '\n'.join(rows) + '\n')
print('\n'.join(rows))
