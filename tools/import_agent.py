#!/usr/bin/env python3
"""tools/import_agent.py <out dir> <props...>: stores a sub-agent's deliverables as /verif/seeded/agent-<pid>-<name>/ (patch.diff, demo.rs, demo.sh, meta.json, props.txt)."""
import json, os, shutil, sys
out, props = sys.argv[1], sys.argv[2:]
m = json.load(open(out + '/meta.json'))
name = 'agent-%s-%s' % (m['property'], m['name'])
d = '/verif/seeded/' + name
os.makedirs(d, exist_ok=True)
for f in ('patch.diff', 'demo.rs', 'meta.json'):
    shutil.copy(out + '/' + f, d + '/' + f)
open(d + '/demo.sh', 'w').write('#!/bin/sh\nexec /verif/tools/agent_demo.sh /verif/seeded/%s\n' % name)
os.chmod(d + '/demo.sh', 0o755)
open(d + '/props.txt', 'w').write(' '.join(props or [m['property']]) + '\n')
print(name)
