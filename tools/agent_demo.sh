#!/bin/sh
# usage: tools/agent_demo.sh <seeded dir>: runs <dir>/demo.rs as an integration test of /repo's CURRENT working tree.
# exit 0 = the demonstration passes, non-zero = it fails. The temporary test file is always removed again.
d="$1"
cp "$d/demo.rs" /repo/tests/zz_seed_demo.rs
(cd /repo && cargo test --offline --test zz_seed_demo >/tmp/zz_seed_demo.log 2>&1)
rc=$?
rm -f /repo/tests/zz_seed_demo.rs
exit $rc
