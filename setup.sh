#!/bin/sh
# Builds the framework offline from files on disk: the native replay binary (and, later, the Kani harness crate / caches).
set -e
cd "$(dirname "$0")"
export CARGO_NET_OFFLINE=true
mkdir -p .cache/tmp evidence
[ -f replay/Cargo.lock ] || cp /repo/Cargo.lock replay/Cargo.lock
(cd replay && CARGO_TARGET_DIR=../.cache/target-replay cargo build --offline)
echo "setup done"
