#!/bin/sh
# Builds the framework offline from files on disk: native replay binary, nightly build cache for the MIR dump,
# and the Kani target-dir slots (dependency builds).  Everything lands in /verif/.cache (git-ignored).
set -e
cd "$(dirname "$0")"
export CARGO_NET_OFFLINE=true
mkdir -p .cache/tmp evidence
[ -f replay/Cargo.lock ] || cp /repo/Cargo.lock replay/Cargo.lock
(cd replay && CARGO_TARGET_DIR=../.cache/target-replay cargo build --offline) 
python3-vt - <<'PY'
import sys
sys.path.insert(0, 'lib')
import mir
txt = mir.dump_mir()          # warms .cache/target-mir (nightly build of the dependencies)
print('MIR dump ok: %d lines' % txt.count('\n'))
PY
python3-vt lib/kani.py --warm
echo "setup done"
