#!/bin/sh
# Builds the framework offline from files on disk: native replay binary, nightly build cache for the MIR dump,
# and the Kani target-dir slots (dependency builds).  Everything lands in /verif/.cache (git-ignored).
set -e
cd "$(dirname "$0")"
export CARGO_NET_OFFLINE=true
mkdir -p .cache/tmp evidence
[ -f replay/Cargo.lock ] || cp /repo/Cargo.lock replay/Cargo.lock
(cd replay && CARGO_TARGET_DIR=../.cache/target-replay cargo build --offline) 
python3-vt - <<'PY'
import sys
sys.path.insert(0, 'lib')
import mir
txt = mir.dump_mir()          # warms .cache/target-mir (nightly build of the dependencies)
print('MIR dump ok: %d lines' % txt.count('\n'))
PY
# the Kani slots are build caches: a slot that cannot be warmed now is built by the first check that needs it
python3-vt lib/kani.py --warm || echo "warning: not every Kani slot could be warmed (checks will build what is missing)"
echo "setup done"
