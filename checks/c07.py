"""C07 -- argument direction rules follow the argument's type category exactly (engine K + MIR pipeline order)."""
import ksupport
import native
import pipeline
from common import src_line

LEVEL = 'model_checking'
SPECS = [
    ('c07::c07_args_first', 'category (16, void apart) x direction (4) x method oneway (2), single argument: count, kind and range of every Error', 'quick', ['c07']),
    ('c07::c07_void_arg_oneway_rule', 'void argument: the oneway rule still applies', 'quick', ['c07']),
    ('c10::c10_propagation_2', 'the flag the argument check sees is the propagated one: interface oneway x 2 members x {const, method(oneway?)} (shared with C10)', 'quick', ['c07']),
    ('c07::c07_inherited_oneway', 'oneway inherited from the interface (set_up_oneway_interface then check_method): category x direction x interface oneway x method oneway', 'quick', ['c07']),
]


def check(run):
    run.functions += ['validation::check_method_args (%s)' % src_line('src/validation.rs', 'fn check_method_args'),
                      'validation::get_requirement_for_arg_direction (%s)' % src_line('src/validation.rs', 'fn get_requirement_for_arg_direction'),
                      'validation::check_method, set_up_oneway_interface', 'validation::validate per-file closure (order of the steps)']
    run.bounds += ['17 categories x 4 directions x oneway x inherited oneway; one symbolic argument (a second symbolic argument runs CBMC out of memory; later argument positions are covered by the native sweep); unwind 4']
    run.outside += ['that source text produces exactly these 17 categories is shown by the native sweep only (resolution needs HashMap)', 'message wording (alloc::fmt::format is stubbed)']
    run.assumptions += ['stub: alloc::fmt::format -> String::new()', 'diagnostic vector pre-sized (Vec::with_capacity) in the harness', 'void as an argument type: the statement is silent on the type rule; only the oneway rule is asserted']
    run.extra['explanation'] = 'Kani/CBMC decides the complete finite product against a reference table written from the property; the pipeline order is decided on the MIR CFG of validate; native sweep of 544 source-level cases confirms counterexamples.'
    ksupport.decide(run, 'C07', SPECS, {'c07': native.sweep_c07})
    pipeline.per_method_obligation(run)
    pipeline.order_obligations(run, ['resolve_types', 'set_up_oneway_interface', 'check_methods'])
