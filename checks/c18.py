"""C18 -- documentation is taken from the directly preceding doc comment, verbatim (back-scan: engine K; scan start and doc sources: engine A / content evaluator;
paragraph / line / tag patterns: z3 regular expressions; the composed text only natively)."""
import ksupport
import native
from common import src_line

LEVEL = 'model_checking'
SPECS = [
    ('c18::c18_exact_w2', 'pre x doc comment with a body of <= 2 characters (1- to 4-byte classes) x two separators: the scan returns exactly the body, byte for byte', 'quick', ['javadoc']),
    ('c18::c18_exact_w3', 'body of <= 3 characters', 'thorough', ['javadoc']),
    ('c18::c18_no_doc', 'no documentation when something else / only an ordinary comment precedes', 'quick', ['javadoc']),
    ('c18::c18_no_doc_code_between', 'doc comment + {blank, line comment, block comment} + code + construct: the earlier doc comment does not attach', 'quick', ['javadoc']),
    ('c18::c18_exact_w5', 'body of <= 5 characters', 'thorough', ['javadoc']),
]


def check(run):
    run.functions += ['javadoc::find_content_string (%s)' % src_line('src/javadoc.rs', 'fn find_content_string'), 'the get_javadoc(input, p0) call of every documentable grammar action (generated wrappers)']
    run.bounds += ['comment body <= 2 (quick) / 3, 5 (thorough) characters over 8 classes (space, LF, CR, TAB, ASCII letter, 2-, 3-, 4-byte code point); 4 prefixes; 2 separators from 6 forms']
    run.outside += ['parse_javadoc: the regex crate itself and the exact result of split / replace_all (only the languages of the three patterns and the call pipeline are decided; the composed text natively)',
                    'white space other than blank, tab, CR, LF between a doc comment and its construct (form feed, NBSP ...: the lexer skips it, the back-scan does not; outside the LF / CRLF layouts the statement quantifies over)']
    run.extra['explanation'] = 'Kani/CBMC over the real backwards state machine with the comment text symbolic; native sweep of 247 texts (accented, CJK, emoji) confirms.'
    ksupport.decide(run, 'C18', SPECS, {'javadoc': native.sweep_javadoc})
    import c04
    c04.docscan_obligation(run)
    text_structure_obligations(run)
    attachment_obligation(run)
    scan_window_obligation(run)


def text_structure_obligations(run):
    """the three patterns of parse_javadoc against the inclusions the statement implies (z3 regular expressions, unbounded words)"""
    import mir, docregex
    run.functions += ['javadoc::parse_javadoc: the patterns given to Regex::new and the split / replace_all / join pipeline (%s)' % src_line('src/javadoc.rs', 'fn parse_javadoc')]
    try:
        obs = docregex.obligations(mir.Program(mir.dump_mir()))
    except mir.Unsupported as e:
        run.inconclusive('patterns of parse_javadoc', 'L', str(e)); return
    nat = None
    for name, status, wit, nq in obs:
        if status == 'holds':
            run.holds(name, 'L', queries=max(1, nq), bound='unbounded words')
        elif status == 'violated':
            if nat is None:
                nat = native.sweep_doc_text()[1]
            run.violated(name, 'L', 'doc-text:' + name[:2], {'solver': wit, 'native': nat[:1]}, bool(nat), queries=nq, detail=str(wit)[:200])
        else:
            run.inconclusive(name, 'L', str(wit)[:200])
    if nat is None:
        n, nat = native.sweep_doc_text()
        run.validated += n
        if nat:
            run.inconclusive('native documentation-text sweep', 'replay', 'native discrepancy not explained by a solver verdict: %s' % str(nat[0])[:300])


def scan_window_obligation(run):
    """get_javadoc(input, pos) = find_content_string(&input[..pos]).map(parse_javadoc): the back-scan sees the WHOLE text in front of the
    construct (the harnesses drive find_content_string; a narrower window or a pre-filter in between would escape them).  Symbolic
    evaluation of the MIR of get_javadoc (straight-line code): the returned term must be exactly that composition."""
    import re, mir
    title = 'get_javadoc(input, pos) == find_content_string(&input[..pos]).map(parse_javadoc): the back-scan is given the whole prefix, its result only goes through parse_javadoc'
    try:
        prog = mir.Program(mir.dump_mir())
    except mir.Unsupported as e:
        run.inconclusive(title, 'M', str(e)); return
    fs = [f for f in prog.fns if f.name.endswith('javadoc::get_javadoc')]
    if len(fs) != 1:
        run.inconclusive(title, 'M', '%d candidates for get_javadoc' % len(fs)); return
    f = fs[0]
    run.functions += ['javadoc::get_javadoc (%s)' % src_line('src/javadoc.rs', 'pub fn get_javadoc')]
    env = {f.params[0][0]: ('input',), f.params[1][0]: ('pos',)}
    why = None

    def val(t):
        t = t.strip()
        m = re.match(r'^(?:copy|move) (_\d+)$', t)
        if m:
            return env.get(m.group(1), ('undef', m.group(1)))
        return ('const', t)
    bb, seen = 'bb0', set()
    while why is None:
        if bb in seen:
            why = 'a loop'; break
        seen.add(bb)
        nxt = None
        for st in f.blocks[bb]:
            if st.startswith('StorageLive') or st.startswith('StorageDead') or st.startswith('nop'):
                continue
            if st == 'return;':
                nxt = 'return'; break
            m = re.match(r'^(_\d+) = RangeTo::<usize> \{ end: (.*) \};$', st)
            if m:
                env[m.group(1)] = ('rangeto', val(m.group(2))); continue
            m = re.match(r'^(_\d+) = (.*\)) -> \[return: (bb\d+), unwind [^\]]*\];$', st)
            if m:
                call, depth, k = m.group(2), 0, len(m.group(2)) - 1
                while k >= 0:
                    depth += (call[k] == ')') - (call[k] == '(')
                    if depth == 0:
                        break
                    k -= 1
                callee, inner = call[:k], call[k + 1:-1]
                args = [val(a) for a in inner.split(', ')] if inner else []
                env[m.group(1)] = ('call', re.sub(r'::<.*', '', callee) if callee.startswith('std::option::Option') else callee, args)
                nxt = m.group(3); break
            m = re.match(r'^(_\d+) = ((?:copy|move) _\d+);$', st)
            if m:
                env[m.group(1)] = val(m.group(2)); continue
            why = 'a statement outside the straight-line composition: %s' % st[:80]; break
        if why or nxt == 'return':
            break
        if nxt is None:
            why = 'a branch in %s' % bb; break
        bb = nxt
    want = ('call', 'std::option::Option', [('call', 'javadoc::find_content_string', [('call', '<str as Index<RangeTo<usize>>>::index', [('input',), ('rangeto', ('pos',))])]), ('const', 'javadoc::parse_javadoc')])
    got = env.get('_0')
    if why is None and got != want:
        why = 'get_javadoc returns %s' % str(got)[:160]
    if why is None:
        run.holds(title, 'M', queries=1, bound='the whole function (straight-line, %d blocks)' % len(seen)); return
    n, nb = native.sweep_doc_attachment()
    run.validated += n
    run.violated(title, 'M', 'scan-window', {'detail': why, 'native': nb[:1]}, bool(nb), detail=why)


def attachment_obligation(run):
    """every documentable node takes its documentation from get_javadoc(input, <first position of the construct, before its annotations>)
    and nothing else: read off the symbolically evaluated grammar actions (content evaluator of C02)"""
    import mir, mirror, replay
    title = 'every `doc` field a grammar action fills is get_javadoc(input, p) with p a captured position, and no other field receives documentation'
    try:
        An = mirror.Analysis(replay.generated_parser(), mir.Program(mir.dump_mir()))
    except (mir.Unsupported, RuntimeError) as e:
        run.inconclusive(title, 'A', str(e)); return
    if An.unsupported:
        run.inconclusive(title, 'A', 'action outside the evaluator: ' + An.unsupported[0]); return
    bad, n = [], 0
    for r, (lhs, rhs, res) in sorted(An.results.items()):
        for conds, v in res:
            if v[0] != 'struct':
                continue
            for k, x in v[2]:
                is_doc = isinstance(x, tuple) and x and x[0] == 'doc'
                if k == 'doc':
                    n += 1
                    if not is_doc or not all(isinstance(a, tuple) and a[0] in ('pos', 'input') for a in x[1]) or not any(a[0] == 'pos' for a in x[1]):
                        bad.append('%s.doc is %s' % (lhs, str(x)[:80]))
                elif is_doc:
                    bad.append('%s.%s receives documentation' % (lhs, k))
    if bad:
        nb = native.sweep_doc_attachment()[1]
        run.violated(title, 'A', 'doc-source', {'detail': bad[:3], 'native': nb[:1]}, bool(nb), detail=bad[0])
    else:
        run.holds(title, 'A', queries=n, bound='%d doc fields over all productions' % n)
