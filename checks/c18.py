"""C18 -- documentation is taken from the directly preceding doc comment, verbatim (back-scan only; engine K + engine A for the scan start)."""
import ksupport
import native
from common import src_line

LEVEL = 'model_checking'
SPECS = [
    ('c18::c18_exact_w2', 'pre x doc comment with a body of <= 2 characters (1- to 4-byte classes) x two separators: the scan returns exactly the body, byte for byte', 'quick', ['javadoc']),
    ('c18::c18_exact_w3', 'body of <= 3 characters', 'thorough', ['javadoc']),
    ('c18::c18_no_doc', 'no documentation when something else / only an ordinary comment precedes', 'quick', ['javadoc']),
    ('c18::c18_exact_w5', 'body of <= 5 characters', 'thorough', ['javadoc']),
]


def check(run):
    run.functions += ['javadoc::find_content_string (%s)' % src_line('src/javadoc.rs', 'fn find_content_string'), 'the get_javadoc(input, p0) call of every documentable grammar action (generated wrappers)']
    run.bounds += ['comment body <= 2 (quick) / 3, 5 (thorough) characters over 8 classes (space, LF, CR, TAB, ASCII letter, 2-, 3-, 4-byte code point); 4 prefixes; 2 separators from 6 forms']
    run.outside += ['parse_javadoc (three Regex::new per call): decoration removal, line joining, @tag splitting are not decided',
                    'the regex-based normalisation of the comment body']
    run.extra['explanation'] = 'Kani/CBMC over the real backwards state machine with the comment text symbolic; native sweep of 247 texts (accented, CJK, emoji) confirms.'
    ksupport.decide(run, 'C18', SPECS, {'javadoc': native.sweep_javadoc})
    import c04
    c04.docscan_obligation(run)
