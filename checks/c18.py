"""C18 -- documentation is taken from the directly preceding doc comment, verbatim (back-scan: engine K; scan start and doc sources: engine A / content evaluator;
paragraph / line / tag patterns: z3 regular expressions; the composed text only natively)."""
import ksupport
import native
from common import src_line

LEVEL = 'model_checking'
SPECS = [
    ('c18::c18_exact_w2', 'pre x doc comment with a body of <= 2 characters (1- to 4-byte classes) x two separators: the scan returns exactly the body, byte for byte', 'quick', ['javadoc']),
    ('c18::c18_exact_w3', 'body of <= 3 characters', 'thorough', ['javadoc']),
    ('c18::c18_no_doc', 'no documentation when something else / only an ordinary comment precedes', 'quick', ['javadoc']),
    ('c18::c18_no_doc_code_between', 'doc comment + {blank, line comment, block comment} + code + construct: the earlier doc comment does not attach', 'quick', ['javadoc']),
    ('c18::c18_exact_w5', 'body of <= 5 characters', 'thorough', ['javadoc']),
]


def check(run):
    run.functions += ['javadoc::find_content_string (%s)' % src_line('src/javadoc.rs', 'fn find_content_string'), 'the get_javadoc(input, p0) call of every documentable grammar action (generated wrappers)']
    run.bounds += ['comment body <= 2 (quick) / 3, 5 (thorough) characters over 8 classes (space, LF, CR, TAB, ASCII letter, 2-, 3-, 4-byte code point); 4 prefixes; 2 separators from 6 forms']
    run.outside += ['parse_javadoc: the regex crate itself and the exact result of split / replace_all (only the languages of the three patterns and the call pipeline are decided; the composed text natively)',
                    'white space other than blank, tab, CR, LF between a doc comment and its construct (form feed, NBSP ...: the lexer skips it, the back-scan does not; outside the LF / CRLF layouts the statement quantifies over)']
    run.extra['explanation'] = 'Kani/CBMC over the real backwards state machine with the comment text symbolic; native sweep of 247 texts (accented, CJK, emoji) confirms.'
    ksupport.decide(run, 'C18', SPECS, {'javadoc': native.sweep_javadoc})
    import c04
    c04.docscan_obligation(run)
    text_structure_obligations(run)
    attachment_obligation(run)


def text_structure_obligations(run):
    """the three patterns of parse_javadoc against the inclusions the statement implies (z3 regular expressions, unbounded words)"""
    import mir, docregex
    run.functions += ['javadoc::parse_javadoc: the patterns given to Regex::new and the split / replace_all / join pipeline (%s)' % src_line('src/javadoc.rs', 'fn parse_javadoc')]
    try:
        obs = docregex.obligations(mir.Program(mir.dump_mir()))
    except mir.Unsupported as e:
        run.inconclusive('patterns of parse_javadoc', 'L', str(e)); return
    nat = None
    for name, status, wit, nq in obs:
        if status == 'holds':
            run.holds(name, 'L', queries=max(1, nq), bound='unbounded words')
        elif status == 'violated':
            if nat is None:
                nat = native.sweep_doc_text()[1]
            run.violated(name, 'L', 'doc-text:' + name[:2], {'solver': wit, 'native': nat[:1]}, bool(nat), queries=nq, detail=str(wit)[:200])
        else:
            run.inconclusive(name, 'L', str(wit)[:200])
    if nat is None:
        n, nat = native.sweep_doc_text()
        run.validated += n
        if nat:
            run.inconclusive('native documentation-text sweep', 'replay', 'native discrepancy not explained by a solver verdict: %s' % str(nat[0])[:300])


def attachment_obligation(run):
    """every documentable node takes its documentation from get_javadoc(input, <first position of the construct, before its annotations>)
    and nothing else: read off the symbolically evaluated grammar actions (content evaluator of C02)"""
    import mir, mirror, replay
    title = 'every `doc` field a grammar action fills is get_javadoc(input, p) with p a captured position, and no other field receives documentation'
    try:
        An = mirror.Analysis(replay.generated_parser(), mir.Program(mir.dump_mir()))
    except (mir.Unsupported, RuntimeError) as e:
        run.inconclusive(title, 'A', str(e)); return
    if An.unsupported:
        run.inconclusive(title, 'A', 'action outside the evaluator: ' + An.unsupported[0]); return
    bad, n = [], 0
    for r, (lhs, rhs, res) in sorted(An.results.items()):
        for conds, v in res:
            if v[0] != 'struct':
                continue
            for k, x in v[2]:
                is_doc = isinstance(x, tuple) and x and x[0] == 'doc'
                if k == 'doc':
                    n += 1
                    if not is_doc or not all(isinstance(a, tuple) and a[0] in ('pos', 'input') for a in x[1]) or not any(a[0] == 'pos' for a in x[1]):
                        bad.append('%s.doc is %s' % (lhs, str(x)[:80]))
                elif is_doc:
                    bad.append('%s.%s receives documentation' % (lhs, k))
    if bad:
        nb = native.sweep_doc_attachment()[1]
        run.violated(title, 'A', 'doc-source', {'detail': bad[:3], 'native': nb[:1]}, bool(nb), detail=bad[0])
    else:
        run.holds(title, 'A', queries=n, bound='%d doc fields over all productions' % n)
