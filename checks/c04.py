"""C04 -- every reported source range is exact, well-formed and properly nested (tree ranges and the hand-off to the lookup).

Engine A: for every production of Package / Import / DeclaredParcelable / Interface / Parcelable / Enum / Method / Arg / Const /
Field / EnumElement / Direction / Type* (lalrpop has already expanded optional parts into separate productions) the generated
action wrappers of the current grammar are evaluated symbolically: each rhs symbol has an integer span (s_i, e_i), constrained
only by what the parser guarantees (ordered, terminals non-empty).  z3 decides over all layouts (unbounded integers):
  G1 start <= end for every range built,            G2 every offset handed to the lookup is a token boundary of the production,
  G3 the name range is exactly the span of the name, G4 the full range starts at the first token (or between the annotations and
  it) and ends at the last token or the terminating `;`,  G5 the doc-comment scan starts at the construct's first token,
  G6 the oneway range is the keyword, the transact-code diagnostic covers exactly the number.
Engine K: Range::new passes its offsets to the lookup unchanged (harness c04_range_new_passes_offsets).
Engine M: syntax diagnostics take the offending token's span / the EOF location (from_parse_error MIR).
Counterexample layouts are confirmed by a native sweep of templates x gap variants (multi-byte comments, CRLF, Unicode spaces).
"""
import re
import time

import z3

import acteval
import kani
import mir
import native
import replay
import tables
from common import src_line

LEVEL = 'model_checking'

KINDS = ('Package', 'Import', 'DeclaredParcelable', 'Interface', 'Parcelable', 'Enum', 'Method', 'Arg', 'Const', 'Field', 'EnumElement', 'Direction',
         'TypeVoid', 'TypePrimitive', 'TypeString', 'TypeCharSequence', 'TypeArray', 'TypeList', 'TypeMap', 'TypeCustom')
NAME_BINDING = {'Package': 'name', 'Interface': 's', 'Parcelable': 's', 'Enum': 's', 'Method': 'n', 'Const': 'n', 'Field': 'n', 'EnumElement': 'n'}


def sat(P, *extra):
    s = z3.Solver()
    s.set('timeout', 30000)
    s.add(*P.cons)
    s.add(*extra)
    r = s.check()
    return r, (s.model() if r == z3.sat else None)


def layout_of(P, m):
    return {'rhs': P.rhs, 'spans': [[m.eval(P.s[i], True).as_long(), m.eval(P.e[i], True).as_long()] for i in range(len(P.rhs))]}


def check(run):
    gen = replay.generated_parser()
    T = tables.extract(gen)
    A = acteval.Actions(gen)
    run.functions += ['generated action wrappers __action0..%d of OUT_DIR/aidl.rs (from src/aidl.lalrpop)' % max(A.acts), 'ast::Range::new / Position::new (%s)' % src_line('src/ast.rs', 'pub(crate) fn new(lookup: &line_col::LineColLookup, start: usize, end: usize)'),
                      'Diagnostic::from_parse_error (%s)' % src_line('src/diagnostic.rs', 'fn from_parse_error'),
                      'Parser::add_content (%s): which text reaches LineColLookup::new and the generated parser' % src_line('src/parser.rs', 'pub fn add_content')]
    run.bounds += ['all layouts of each production: spans are unbounded integers constrained only by token order and non-emptiness']
    run.outside += ['agreement of (line, column) with the offset and grapheme counting (line-col / unicode-segmentation are not encodable; covered natively by the layout sweep only)',
                    'ranges of diagnostics produced inside check_imports / check_declared_parcelables / check_methods (HashMap-based code)',
                    'nesting/disjointness of sibling ranges across productions (follows from G3/G4 per production plus token order; not queried separately)']
    run.assumptions += ['generated code keeps the regular lalrpop 0.19 shape (otherwise the engine reports inconclusive)',
                        'a span (s_i, e_i) of an rhs symbol is what lalrpop pushes for it: first token start / last token end, (lookahead, lookahead) for an empty symbol']
    run.extra['explanation'] = 'Symbolic evaluation of the generated action wrappers: every Range::new argument is an integer term over symbolic token spans; z3 decides the range obligations for all layouts.'

    viol = {}       # key -> list of witnesses
    nq = 0
    tz = 0.0
    nprod = 0
    unsupported = []
    for r, (lhs, rhs, act) in sorted(T.prod.items()):
        if lhs not in KINDS:
            continue
        try:
            P = acteval.Production(A, r, lhs, rhs, act)
            rs = P.ranges()
        except acteval.Unsupported as e:
            unsupported.append('%s = %s: %s' % (lhs, rhs, e))
            continue
        nprod += 1
        if len(run.samples) < 6:
            run.sample({'production': '%s = %s' % (lhs, rhs), 'ranges': [(w, str(a), str(b)) for (w, a, b, _t) in rs if a is not None]})
        bnd = P.boundaries()
        has_code = 'INTEGER' in P.rhs and lhs == 'Method'
        by = {}
        for (what, a, b, txt) in rs:
            if what == 'range' and not has_code:
                continue       # the transact-code diagnostic is only built when a code is present
            if a is None:
                unsupported.append('%s = %s: %s' % (lhs, rhs, txt))
                continue
            by[what] = (a, b)
            t0 = time.time()
            res, m = sat(P, a > b); nq += 1
            if res == z3.sat:
                viol.setdefault('inverted:%s.%s' % (lhs, what), []).append({'production': rhs, 'layout': layout_of(P, m), 'range': [str(a), str(b)]})
            elif res != z3.unsat:
                unsupported.append('unknown from z3 on %s' % lhs)
            for t in (a, b):
                res, m = sat(P, *[t != x for x in bnd]); nq += 1
                if res == z3.sat:
                    viol.setdefault('not-a-token-boundary:%s.%s' % (lhs, what), []).append({'production': rhs, 'layout': layout_of(P, m), 'offset': str(t), 'value': m.eval(t, True).as_long()})
            tz += time.time() - t0
        # expected name range
        want_name = None
        last = len(P.rhs) - 1
        if lhs in NAME_BINDING:
            want_name = P.span_of(NAME_BINDING[lhs])
        elif lhs in ('Import', 'DeclaredParcelable'):
            # the (possibly dotted) name as written: the run of IDENT / (<IDENT> ".")x / QualifiedName symbols after the keyword
            run_ = [i for i, x in enumerate(P.rhs) if x == 'IDENT' or x == 'QualifiedName' or x.startswith('(<IDENT>')]
            if not run_:
                unsupported.append('%s = %s: no name symbols' % (lhs, rhs))
                continue
            want_name = (P.s[run_[0]], P.e[run_[-1]])
        elif lhs == 'Arg' and P.rhs and P.rhs[-1] == 'IDENT':
            want_name = (P.s[last], P.e[last])
        elif lhs == 'TypeArray':
            want_name = P.span_of('p')
        elif lhs in ('TypeList', 'TypeMap', 'TypeVoid', 'TypePrimitive', 'TypeString', 'TypeCharSequence', 'TypeCustom'):
            want_name = (P.s[0], P.e[0])
        key_sym = 'symbol_range' if 'symbol_range' in by else 'type.symbol_range' if 'type.symbol_range' in by else 'let range' if 'let range' in by else None
        if want_name is not None and key_sym:
            a, b = by[key_sym]
            res, m = sat(P, z3.Or(a != want_name[0], b != want_name[1])); nq += 1
            if res == z3.sat:
                viol.setdefault('name-range:%s' % lhs, []).append({'production': rhs, 'layout': layout_of(P, m), 'got': [m.eval(a, True).as_long(), m.eval(b, True).as_long()],
                                                                   'want': [m.eval(want_name[0], True).as_long(), m.eval(want_name[1], True).as_long()]})
        # full range
        key_full = 'full_range' if 'full_range' in by else 'type.full_range' if 'type.full_range' in by else None
        if key_full and P.rhs:
            a, b = by[key_full]
            ann = [i for i, x in enumerate(P.rhs) if x == 'OptAnnotation+']
            if lhs == 'Arg':
                cond_start = a == P.s[0]
            elif ann:
                i = ann[-1]
                cond_start = z3.And(P.e[i] <= a, a <= P.s[i + 1])
            else:
                cond_start = a == P.s[0]
            if P.rhs[-1] == '";"':
                cond_end = z3.Or(b == P.e[last], b == P.e[last - 1])
            else:
                cond_end = b == P.e[last]
            res, m = sat(P, z3.Not(z3.And(cond_start, cond_end))); nq += 1
            if res == z3.sat:
                viol.setdefault('full-range:%s' % lhs, []).append({'production': rhs, 'layout': layout_of(P, m), 'got': [m.eval(a, True).as_long(), m.eval(b, True).as_long()]})
            if want_name is not None:
                res, m = sat(P, z3.Or(want_name[0] < a, want_name[1] > b)); nq += 1
                if res == z3.sat:
                    viol.setdefault('full-range-excludes-name:%s' % lhs, []).append({'production': rhs, 'layout': layout_of(P, m)})
        # doc scan position
        jp = None
        try:
            jp = P.javadoc_pos()
        except acteval.Unsupported:
            pass
        # (the doc-scan start, G5, is C18's obligation: c04.docscan_obligation)
        if lhs == 'Method':
            if 'ONEWAY' in P.rhs and 'oneway_range' in by:
                i = P.rhs.index('ONEWAY')
                a, b = by['oneway_range']
                res, m = sat(P, z3.Or(a != P.s[i], b != P.e[i])); nq += 1
                if res == z3.sat:
                    viol.setdefault('oneway-range:Method', []).append({'production': rhs, 'layout': layout_of(P, m)})
            if has_code and 'range' in by:
                i = P.rhs.index('INTEGER')
                a, b = by['range']
                res, m = sat(P, z3.Or(a != P.s[i], b != P.e[i])); nq += 1
                if res == z3.sat:
                    viol.setdefault('transact-code-diagnostic-range:Method', []).append({'production': rhs, 'layout': layout_of(P, m),
                                                                                         'got': [m.eval(a, True).as_long(), m.eval(b, True).as_long()], 'want': layout_of(P, m)['spans'][i]})
        if lhs == 'Direction' and P.rhs and 'direction' in by:
            a, b = by['direction']
            res, m = sat(P, z3.Or(a != P.s[0], b != P.e[0])); nq += 1
            if res == z3.sat:
                viol.setdefault('direction-range', []).append({'production': rhs, 'layout': layout_of(P, m)})
    run.states += nprod
    run.transitions += nq
    for u in unsupported[:5]:
        run.inconclusive('engine A', 'A', u)

    # native layout sweep: confirmation of counterexamples + translation validation
    nn, nbad = native.sweep_c04()
    run.validated += nn
    run.extra['native_layout_sweep'] = {'documents': nn, 'discrepancies': len(nbad)}

    def native_match(key):
        k = key.split(':')[0]
        for b in nbad:
            if k in ('transact-code-diagnostic-range', 'not-a-token-boundary', 'inverted') and b.get('field') == 'diagnostic':
                return b
            if k == 'name-range' and b.get('field') == 'symbol_range' and (b.get('node') == 'type') == key.split(':')[1].startswith('Type'):
                return b
            if k in ('full-range', 'full-range-excludes-name') and b.get('field') == 'full_range' and (b.get('node') == 'type') == key.split(':')[1].startswith('Type'):
                return b
            if k == 'oneway-range' and b.get('field') == 'oneway_range':
                return b
            if k == 'inverted' and b.get('field') == 'order':
                return b
        return None
    # the +2 offset defect shows up under three obligation names; they share one role
    merged = {}
    for key, ws in viol.items():
        role = key
        if key in ('transact-code-diagnostic-range:Method', 'not-a-token-boundary:Method.range', 'inverted:Method.range'):
            role = 'transact-code-diagnostic-range:Method'
        merged.setdefault(role, []).extend([dict(w, obligation=key) for w in ws])
    for role, ws in sorted(merged.items()):
        nb = native_match(role)
        run.violated('range obligation %s' % role, 'A', role, {'solver': ws[:3], 'native': nb}, nb is not None, solver_s=tz, queries=nq,
                     bound='all layouts (unbounded integers)', detail='%d productions/obligations affected' % len(ws))
    if not merged:
        run.holds('all range obligations G1-G6 for %d productions, every layout' % nprod, 'A', solver_s=tz, queries=nq, bound='unbounded integers')
        if nbad:
            run.inconclusive('native layout sweep disagrees', 'replay', str(nbad[0])[:300])
    else:
        run.holds('all other range obligations (%d productions)' % nprod, 'A', solver_s=tz, queries=nq, bound='unbounded integers')

    # content evaluator (MIR of the user actions): every range endpoint is a position the grammar captured
    try:
        import mirror
        An = mirror.Analysis(gen, mir.Program(mir.dump_mir()))
        rv, nr = An.range_endpoints()
        title = 'every endpoint of every Range a grammar action builds is a position captured by the grammar (`@L` / `@R`), never read out of a child node or computed (MIR of the %d user actions)' % len(An.results)
        if An.unsupported:
            run.inconclusive(title, 'A', 'action outside the evaluator: ' + An.unsupported[0])
        elif rv:
            for role, ws in sorted(rv.items()):
                nb = None
                for b in nbad:
                    if b.get('field') in ('symbol_range', 'full_range') and ((b.get('node') == 'type') == role.split(':')[1].startswith('Type')):
                        nb = b
                run.violated(title, 'A', role, {'solver': ws[:2], 'native': nb}, nb is not None, queries=nr, detail=ws[0]['value'])
        else:
            run.holds(title, 'A', queries=nr, bound='all paths of all productions; %d ranges' % nr)
    except (mir.Unsupported, RuntimeError) as e:
        run.inconclusive('range endpoints (content evaluator)', 'A', str(e))

    # K: Range::new passes offsets through
    res = kani.run_many('C04', ['c01::c04_range_new_passes_offsets'], 300)
    r = res['c01::c04_range_new_passes_offsets']
    if r.status == 'success':
        run.holds('Range::new hands exactly (start, end) to the lookup, in that order (all usize pairs)', 'K', solver_s=r.solver_s, queries=r.nchecks)
    elif r.status == 'failed':
        run.violated('Range::new passes its offsets through', 'K', 'range-new:' + r.failed_checks[0][0][:60], {'failed': r.failed_checks[:3]}, True, queries=r.nchecks)
    else:
        run.inconclusive('c04_range_new_passes_offsets', 'K', r.status)

    # M: syntax diagnostics take the token span / EOF location
    try:
        prog = mir.Program(mir.dump_mir())
        ok, detail = parse_error_ranges(prog)
        if ok:
            run.holds('from_parse_error: range = (token start, token end) for token errors, (location, location) for invalid token / EOF', 'M', queries=5)
        else:
            run.violated('syntax diagnostic range', 'M', 'from_parse_error-range', {'detail': detail}, True)
    except mir.Unsupported as e:
        run.inconclusive('from_parse_error ranges', 'M', str(e))
    source_identity_obligation(run)


def parse_error_ranges(prog):
    fpe = [x for x in prog.fns if x.name.endswith('::from_parse_error') and '::verif::' not in x.name]
    if len(fpe) != 1:
        raise mir.Unsupported('from_parse_error candidates %d' % len(fpe))
    it = mir.Interp(prog, opaque=[r'record_expected$', r'Range::new$', r'Vec::<.*>::new$', r'expected_token_str$'])
    base = it.call

    def call2(fname, args, env, pc, calls):
        if fname.endswith('<Vec<String> as Deref>::deref'):
            return [(pc, it.operand(args[0], env))]
        return base(fname, args, env, pc, calls)
    it.call = call2
    e = mir.Obj('e')
    paths = it.run(fpe[0], [mir.Obj('lookup'), e])
    structs, _ = mir.layouts()
    fields = structs.get('Diagnostic', [])
    detail = []
    for p in paths:
        if not (isinstance(p.result, tuple) and p.result[0] == 'some'):
            continue
        d = dict(zip(fields, p.result[1][2]))
        rg = d.get('range')
        args = rg[2] if isinstance(rg, tuple) and rg[0] == 'call' else None
        if args is None:
            detail.append('range not built by Range::new'); continue
        s = z3.Solver(); s.add(*p.pc)
        disc = it.ctx.disc(e)
        which = None
        for v in range(4):
            s.push(); s.add(disc == v)
            if s.check() == z3.sat:
                which = v
            s.pop()
        a, b = args[1], args[2]
        if which in (0, 1):
            loc = it.ctx.field(it.ctx.downcast(e, 'InvalidToken' if which == 0 else 'UnrecognizedEOF'), 0, 'usize')
            if not (a is loc and b is loc or (z3.is_expr(a) and z3.is_expr(b) and str(a) == str(loc) and str(b) == str(loc))):
                detail.append('variant %d: range is (%s, %s), expected (location, location)' % (which, a, b))
        elif which in (2, 3):
            var = 'UnrecognizedToken' if which == 2 else 'ExtraToken'
            tok = it.ctx.field(it.ctx.downcast(e, var), 0, '(usize, Token, usize)')
            want_a, want_b = '%s.0' % tok.path if isinstance(tok, mir.Obj) else None, None
            if not (str(a).endswith('.0.0') and str(b).endswith('.0.2')):
                detail.append('variant %s: range is (%s, %s), expected (token.0, token.2)' % (var, a, b))
    return (not detail), detail


def boundary_obligations(run):
    """C01.2: every offset handed to the line/column lookup by a grammar action is a token boundary (engine A, obligation G2)."""
    gen = replay.generated_parser()
    T = tables.extract(gen)
    A = acteval.Actions(gen)
    bad, nq, nprod = [], 0, 0
    for r, (lhs, rhs, act) in sorted(T.prod.items()):
        if lhs not in KINDS:
            continue
        try:
            P = acteval.Production(A, r, lhs, rhs, act)
            rs = P.ranges()
        except acteval.Unsupported as e:
            run.inconclusive('engine A on %s' % lhs, 'A', str(e))
            continue
        nprod += 1
        has_code = 'INTEGER' in P.rhs and lhs == 'Method'
        for (what, a, b, txt) in rs:
            if what == 'range' and not has_code:
                continue
            if a is None:
                run.inconclusive('engine A on %s' % lhs, 'A', txt)
                continue
            for t in (a, b):
                res, m = sat(P, *[t != x for x in P.boundaries()]); nq += 1
                if res == z3.sat:
                    bad.append({'production': '%s = %s' % (lhs, rhs), 'offset': str(t), 'layout': layout_of(P, m)})
    if bad:
        nn, nbad = native.sweep_c04()
        rep = any(b.get('field') == 'diagnostic' or 'panic' in b.get('what', '') or 'boundary' in b.get('what', '') for b in nbad)
        run.violated('every offset handed to the line/column lookup is a token boundary', 'A', 'offset-not-a-token-boundary:' + bad[0]['production'].split(' =')[0] + ':' + bad[0]['offset'],
                     {'solver': bad[:3], 'native': [b for b in nbad if b.get('field') == 'diagnostic' or 'panic' in b.get('what', '')][:2]}, rep, queries=nq, bound='all layouts')
    else:
        run.holds('every offset handed to the line/column lookup by the %d tree-building productions is a token boundary (no computed offsets)' % nprod, 'A', queries=nq, bound='all layouts (unbounded integers)')


def source_identity_obligation(run):
    """the offsets the grammar actions compute are offsets into the text the parser is GIVEN, and the line/column table is built from the
    text LineColLookup::new is GIVEN: both must be the very `content` the caller passed to add_content (symbolic execution of its MIR)"""
    import histcheck
    title = 'add_content hands its `content` argument itself (no trimmed / re-encoded copy) to LineColLookup::new, to the generated parser and to from_parse_error'
    try:
        prog = mir.Program(mir.dump_mir())
        W = histcheck.Walker(prog)
        add = histcheck.find_method(prog, 'add_content')
        paths = W.run(add, [('self',), ('p', 'id'), ('p', 'content')], ('S0',))
    except mir.Unsupported as e:
        run.inconclusive(title, 'M', str(e)[:200]); return
    content = ('p', 'content')
    bad, n = [], 0
    for conds, S2, ret in paths:
        terms = list(conds) + [ret]
        t = S2
        while t[0] == 'store':
            terms.append(t[3]); t = t[1]
        for tt in terms:
            for a in histcheck._apps(tt):
                nm, args = a[1], list(a[2]) if len(a) > 2 else []
                if nm.endswith('LineColLookup::new'):
                    n += 1
                    if args != [content]:
                        bad.append('LineColLookup::new is given %s' % histcheck._show(args[0] if args else ('?',))[:80])
                elif nm.endswith('OptAidlParser::parse') or nm.endswith('AidlParser::parse'):
                    n += 1
                    if not args or args[-1] != content:
                        bad.append('the generated parser is given %s' % histcheck._show(args[-1] if args else ('?',))[:80])
                elif nm.endswith('strip_prefix') or nm.endswith('trim') or nm.endswith('trim_start') or nm.endswith('trim_start_matches') or nm.endswith('replace'):
                    if content in histcheck._leaves(a):
                        bad.append('the content goes through %s before it is parsed' % nm[-40:])
    nn, nbad = native.sweep_source_identity()
    run.validated += nn
    if n == 0:
        run.inconclusive(title, 'M', 'no LineColLookup::new / parse call found on any path of add_content')
    elif bad:
        run.violated(title, 'M', 'source-identity', {'detail': sorted(set(bad))[:3], 'native': nbad[:2]}, bool(nbad), queries=n, detail=bad[0])
    else:
        run.holds(title, 'M', queries=n, bound='%d paths of add_content, every call site' % len(paths))
        if nbad:
            run.inconclusive('native sweep of documents behind unusual first characters', 'replay', 'discrepancy not explained by a solver verdict: %s' % str(nbad[0])[:300])


def parse_error_obligation(run):
    try:
        prog = mir.Program(mir.dump_mir())
        import c03
        ok, detail, nq = c03.from_parse_error_total(prog)
        nn, nbad = native.sweep_error_tokens()
        run.validated += nn
        if ok:
            run.holds('every non-User parse error becomes Some(Error diagnostic) without panicking paths (from_parse_error, all variants)', 'M', queries=nq)
            if nbad:
                run.inconclusive('native sweep of long / multi-byte offending tokens', 'replay', 'discrepancy not explained by a solver verdict: %s' % str(nbad[0])[:300])
        else:
            run.violated('parse failures become diagnostics', 'M', 'from_parse_error:' + detail[0][:60], {'detail': detail, 'native': nbad[:2]}, bool(nbad), queries=nq)
    except mir.Unsupported as e:
        run.inconclusive('from_parse_error', 'M', str(e))


def docscan_obligation(run):
    """C18 mechanism: every documentable production passes the offset of its FIRST token (before its annotations) to get_javadoc (engine A)."""
    gen = replay.generated_parser()
    T = tables.extract(gen)
    A = acteval.Actions(gen)
    bad, nq, nprod, kinds = [], 0, 0, set()
    for r, (lhs, rhs, act) in sorted(T.prod.items()):
        if lhs not in ('Interface', 'Parcelable', 'Enum', 'Method', 'Arg', 'Const', 'Field', 'EnumElement'):
            continue
        try:
            P = acteval.Production(A, r, lhs, rhs, act)
            jp = P.javadoc_pos()
        except acteval.Unsupported as e:
            run.inconclusive('engine A on %s' % lhs, 'A', str(e))
            continue
        if jp is None:
            bad.append({'production': '%s = %s' % (lhs, rhs), 'what': 'the action does not call get_javadoc'})
            continue
        if not P.rhs:
            continue
        nprod += 1
        kinds.add(lhs)
        res, m = sat(P, jp != P.s[0]); nq += 1
        if res == z3.sat:
            bad.append({'production': '%s = %s' % (lhs, rhs), 'scan_start': str(jp), 'layout': layout_of(P, m)})
    nn, nbad = native.sweep_doc_attachment()
    run.validated += nn
    run.extra['native_doc_attachment'] = {'cases': nn, 'discrepancies': len(nbad)}
    title = 'the doc-comment scan of every documentable construct starts at its first token, before its annotations (%d productions of %d kinds)' % (nprod, len(kinds))
    if bad:
        kinds_bad = sorted({b['production'].split(' =')[0] for b in bad})
        rel = [b for b in nbad if any(k.lower().replace('element', '_element') in str(b.get('node', '')).lower() or k == 'Const' and 'const' in str(b.get('node', '')) for k in kinds_bad)] or nbad
        run.violated(title, 'A', 'doc-scan-start:' + ','.join(kinds_bad), {'solver': bad[:3], 'native': rel[:3]}, bool(rel), queries=nq, bound='all layouts')
    elif len(kinds) < 8:
        run.inconclusive(title, 'A', 'documentable kinds found: %s' % sorted(kinds))
    else:
        run.holds(title, 'A', queries=nq, bound='all layouts (unbounded integers)')
        if nbad:
            run.inconclusive('native doc attachment sweep', 'replay', 'discrepancy not explained by a solver verdict: %s' % str(nbad[0])[:300])
