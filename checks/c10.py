"""C10 -- oneway is propagated from the interface and oneway methods must return void (engine K + MIR pipeline order)."""
import ksupport
import native
import pipeline
from common import src_line

LEVEL = 'model_checking'
SPECS = [
    ('c10::c10_propagation_2', 'interface oneway x 2 members x {const, method(oneway?)}: flags after propagation, one Warning per redundant keyword on the keyword, related info on the interface name', 'quick', ['c10']),
    ('c10::c10_return_rule', 'method oneway x return category (17): one Error on the return type iff oneway and non-void', 'quick', ['c10']),
    ('c10::c10_inherited_return_rule', 'propagate then check: inherited oneway with a non-void return is an Error', 'quick', ['c10']),
    ('c10::c10_propagation_3', 'three members', 'thorough', ['c10']),
]


def check(run):
    run.functions += ['validation::set_up_oneway_interface (%s)' % src_line('src/validation.rs', 'fn set_up_oneway_interface'), 'validation::check_method (%s)' % src_line('src/validation.rs', 'fn check_method('),
                      'validation::validate per-file closure (order of the steps)']
    run.bounds += ['interfaces of up to 2 (quick) / 3 (thorough) members; 17 return categories; unwind 4-5']
    run.outside += ['message wording']
    run.assumptions += ['stub: alloc::fmt::format -> String::new()']
    run.extra['explanation'] = 'Kani/CBMC over the real helpers for the finite product; MIR CFG of validate for the order propagation-before-check; native sweep (68 methods x 2 interfaces) confirms.'
    ksupport.decide(run, 'C10', SPECS, {'c10': native.sweep_c10})
    pipeline.per_method_obligation(run)
    pipeline.order_obligations(run, ['set_up_oneway_interface', 'check_methods'])
