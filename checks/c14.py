"""C14 -- a malformed member costs only itself: siblings survive, the error is local.

Engine P (path-forking symbolic execution of the validated model of lalrpop's driver incl. error recovery, over the LALR
tables generated from the current grammar).  Frames `package x ; K x { good1 <window> T good2 }`; the window is k symbolic
terminals (every terminal except the terminator and braces).  On every path (a box of window assignments on which the parser
behaves identically) the obligations are decided for the whole box:
   - a tree is produced, good1 and good2 are reduced as members with exactly their own extents, in order;
   - at least one syntax error, every error token inside [window, terminator];
   - on error-free paths z3 decides, with a CYK encoding of the independent reference grammar, that every assignment of the box
     is a sequence of well-formed members (otherwise a malformed member went unreported).
Violating boxes are concretised, rendered with canonical lexemes and replayed through Parser::add_content.
"""
import multiprocessing as mp
import os
import time

import z3

import lrdriver
import pengine
import refgrammar
import tables
from common import NCPU, src_line

LEVEL = 'model_checking'

_T = None


def frames(T):
    S = lambda *xs: pengine.S(T, *xs)
    pre = lambda kw: S('PACKAGE', 'IDENT', '";"', kw, 'IDENT', '"{"')
    fr = []
    iface_goods = {'method': S('VOID', 'IDENT', '"("', '")"', '";"'),
                   'method_custom_type': S('IDENT', '"."', 'IDENT', 'IDENT', '"("', 'IDENT', 'IDENT', '")"', '";"'),
                   'const': S('CONST', 'PRIMITIVE', 'IDENT', '"="', 'INTEGER', '";"'),
                   'method_full': S('ANNOTATION', 'ONEWAY', 'LIST', '"<"', 'STRING', '">"', 'IDENT', '"("', 'DIRECTION', 'PRIMITIVE', '"["', '"]"', 'IDENT', '")"', '"="', 'INTEGER', '";"')}
    parc_goods = {'field': S('PRIMITIVE', 'IDENT', '";"'), 'field_value': S('STRING', 'IDENT', '"="', 'QUOTED_STRING', '";"'),
                  'field_custom_type': S('IDENT', 'IDENT', '";"'),
                  'const': S('CONST', 'PRIMITIVE', 'IDENT', '"="', 'INTEGER', '";"')}
    enum_goods = {'element': S('IDENT'), 'element_value': S('IDENT', '"="', 'INTEGER')}
    for kind, kw, goods, term, start in (('interface', 'INTERFACE', iface_goods, '";"', 'IfaceEls'), ('parcelable', 'PARCELABLE', parc_goods, '";"', 'ParcEls'),
                                         ('enum', 'ENUM', enum_goods, '","', 'EnumElsC')):
        names = sorted(goods)
        # every member form appears as the sibling before and as the sibling after the window
        combos = [(a, b) for a in names for b in names] if kind == 'enum' else [(names[i], names[(i + 1) % len(names)]) for i in range(len(names))] + [(names[0], names[0])]
        for (a, b) in combos:
            for posn in ('between', 'first', 'last'):
                g1 = goods[a] if posn != 'first' else []
                g2 = goods[b] if posn != 'last' else []
                fr.append({'kind': kind, 'pre': pre(kw), 'g1': list(g1), 'g2': list(g2), 'term': T.tix[term], 'pos': posn, 'goods': (a, b), 'start': start,
                           'g1term': kind != 'enum'})
    # dedupe
    seen, out = set(), []
    for f in fr:
        key = (f['kind'], tuple(f['g1']), tuple(f['g2']))
        if key not in seen:
            seen.add(key)
            out.append(f)
    return out


def window_domain(T, f):
    excl = {T.tix['"{"'], T.tix['"}"'], f['term']}
    if f['kind'] == 'enum':
        excl.add(T.tix['";"'])
    return set(range(T.nterm - 1)) - excl


def layout(T, f, k):
    """token list layout: returns (prefix tokens, index ranges)"""
    comma = [T.tix['","']]
    g1 = f['g1'] + (comma if (f['kind'] == 'enum' and f['g1']) else [])
    pre = f['pre'] + g1
    w0 = len(pre)
    w1 = w0 + k                      # index of the terminator
    g2s = w1 + 1
    suf = f['g2'] + [T.tix['"}"']]
    ext1 = (len(f['pre']), len(f['pre']) + len(f['g1']) - 1) if f['g1'] else None
    ext2 = (g2s, g2s + len(f['g2']) - 1) if f['g2'] else None
    return pre, w0, w1, suf, ext1, ext2


def member_reduces(T):
    out = set()
    for r, (lhs, rhs, _a) in T.prod.items():
        if lhs in ('OptInterfaceElement', 'OptParcelableElement', 'OptEnumElement') and rhs.strip() != 'error':
            out.add(r)
    return out


def role_of(T, f, win):
    """role of a violating window (list of terminal indices): used as the key for known findings."""
    names = [T.terms[t] for t in win]
    depth = 0
    open_annot = False
    for i, n in enumerate(names):
        if n == '"("':
            depth += 1
            if i > 0 and names[i - 1] == 'ANNOTATION' and depth == 1:
                open_annot = True
        elif n == '")"':
            if depth > 0:
                depth -= 1
                if depth == 0:
                    open_annot = False
    if open_annot and depth > 0:
        return '%s:open-annotation-paren' % f['kind']
    # coarse role: item kind + bracket state the window leaves behind + whether the window contains a recovery-relevant opener
    state = 'open-paren' if depth > 0 else 'balanced'
    ang = names.count('"<"') - names.count('">"')
    sq = names.count('"["') - names.count('"]"')
    if ang > 0:
        state += '+open-angle'
    if sq > 0:
        state += '+open-bracket'
    return '%s:%s' % (f['kind'], state)


def explore_frame(args):
    fi, k, first = args
    T = _T
    f = frames(T)[fi]
    dom = window_domain(T, f)
    pre, w0, w1, suf, ext1, ext2 = layout(T, f, k)
    mred = member_reduces(T)
    n = len(pre) + k + 1 + len(suf)

    def mk():
        win = [set(dom) for _ in range(k)]
        if first is not None:
            win[0] = {first}
        return pre + win + [f['term']] + suf
    st = {'paths': 0, 'clean': 0, 'ok': 0, 'box': 0, 'viol': [], 'clean_boxes': [], 'trans': 0}

    def on_path(doms, res):
        ok, errors, trace = res
        st['paths'] += 1
        st['trans'] += len(trace)
        card = 1
        for d in doms[w0:w1]:
            card *= len(d)
        st['box'] += card
        if not errors:
            st['clean'] += 1
            if len(st['clean_boxes']) < 4000:
                st['clean_boxes'].append([sorted(d) for d in doms[w0:w1]])
            else:
                st['clean_overflow'] = True
            return
        why = []
        tree = ok and not pengine.item_dropped(T, trace)
        if not tree:
            why.append('no tree')
        exts = [(a, b) for (r, a, b) in trace if r != 'recover' and r in mred]
        if ext1 and ext1 not in exts:
            why.append('member before the window lost')
        if ext2 and ext2 not in exts:
            why.append('member after the window lost')
        for (how, what, idx) in errors:
            if idx is None or not (w0 <= idx <= w1):
                why.append('error outside the malformed member (token %s)' % ('EOF' if idx is None else idx))
                break
        if why:
            if len(st['viol']) < 400:
                st['viol'].append({'window': [sorted(d) for d in doms[w0:w1]], 'why': why})
            else:
                st['viol_overflow'] = True
        else:
            st['ok'] += 1
    lrdriver.explore(T, mk, on_path)
    return fi, k, first, st


def _init(T):
    global _T
    _T = T


def _check_main(run):
    global _T
    T = pengine.load()
    _T = T
    fr = frames(T)
    kmax = 4 if run.tier == 'quick' else 5
    ksplit = 5
    run.functions += ['LALR tables generated from src/aidl.lalrpop (mod __parse__OptAidl of OUT_DIR/aidl.rs: __ACTION %dx%d, __EOF_ACTION, __goto, __simulate_reduce)' % (T.nstates, T.nterm),
                      'model of lalrpop_util::state_machine::Parser::{drive, error_recovery, accepts} (lib/lrdriver.py), validated against the real parser on every run',
                      'recovery productions: %s' % src_line('src/aidl.lalrpop', '! =>?')]
    run.bounds += ['window of 1..%d symbolic terminals (all terminals but the terminator and braces) between/before/after good members; %d frames' % (kmax, len(fr))]
    run.outside += ['lexical garbage (unlexable characters end the parse with InvalidToken and never reach recovery)', 'windows longer than %d tokens' % kmax,
                    'windows containing the terminator or a brace (excluded by the property)', 'member forms other than the frame members listed in the evidence']
    run.assumptions += ['the driver is a model of lalrpop_util 0.19.8 (a dependency); it is compared with the real parser on random token strings and on every witness',
                        'token sequences are rendered with one canonical lexeme per terminal, single spaces (lexing itself is outside the claim)']
    run.extra['explanation'] = ('Path-forking symbolic execution of the validated driver model over the real LALR tables; every path decides a box of window assignments; '
                                'z3 (CYK of the reference grammar) decides the error-free boxes; violating boxes are replayed through the real parser.')

    # translation validation first
    seqs = pengine.random_sequences(T, 1000 + run.seed, 600 if run.tier == 'quick' else 3000)
    ncmp, bad = pengine.validate_model(T, seqs)
    run.validated += ncmp
    if bad:
        run.inconclusive('driver model vs real parser', 'P', 'model disagrees with the real parser: %s' % str(bad[0])[:400])
        return

    jobs = []
    for fi in range(len(fr)):
        dom = sorted(window_domain(T, fr[fi]))
        for k in range(1, kmax + 1):
            if k >= ksplit:
                jobs += [(fi, k, t) for t in dom]
            else:
                jobs.append((fi, k, None))
    t0 = time.time()
    agg = {}
    with mp.Pool(min(NCPU, 15), initializer=_init, initargs=(T,)) as pool:
        for fi, k, first, st in pool.imap_unordered(explore_frame, jobs, chunksize=1):
            a = agg.setdefault((fi, k), {'paths': 0, 'clean': 0, 'ok': 0, 'box': 0, 'viol': [], 'clean_boxes': [], 'trans': 0})
            for key in ('paths', 'clean', 'ok', 'box', 'trans'):
                a[key] += st[key]
            a['viol'] += st['viol']
            a['clean_boxes'] += st['clean_boxes']
            if st.get('clean_overflow') or st.get('viol_overflow'):
                a['overflow'] = True
    texp = time.time() - t0
    run.states += sum(a['paths'] for a in agg.values())
    run.transitions += sum(a['trans'] for a in agg.values())
    run.extra['paths'] = run.states
    run.extra['window_assignments_covered'] = sum(a['box'] for a in agg.values())
    run.extra['exploration_s'] = round(texp, 1)

    # z3: error-free boxes must contain only well-formed member sequences (reference grammar)
    cyk = refgrammar.Cyk(T.tix)
    tz = 0.0
    nq = 0
    silent = []
    solvers = {}
    for (fi, k), a in sorted(agg.items()):
        f = fr[fi]
        if a.get('overflow'):
            run.inconclusive('frame %d k=%d' % (fi, k), 'P', 'too many boxes to keep')
            continue
        key = (f['start'], k, f['term'])
        if key not in solvers:
            s = z3.SolverFor('QF_BV')
            wv = [z3.BitVec('w%d' % i, 6) for i in range(k)]
            ref = cyk.formula(s, wv + [z3.BitVecVal(f['term'], 6)], f['start'])
            solvers[key] = (s, wv, ref)
        s, wv, ref = solvers[key]
        for box in a['clean_boxes']:
            s.push()
            for i in range(k):
                s.add(z3.Or([wv[i] == z3.BitVecVal(t, 6) for t in box[i]]))
            s.add(z3.Not(ref))
            t1 = time.time(); r = s.check(); tz += time.time() - t1; nq += 1
            if r == z3.sat:
                m = s.model()
                silent.append((fi, k, [m.eval(w, True).as_long() for w in wv]))
            elif r != z3.unsat:
                run.inconclusive('clean box frame %d k=%d' % (fi, k), 'P', 'z3 unknown')
            s.pop()

    total_viol = sum(len(a['viol']) for a in agg.values())
    per_frame = {}
    for (fi, k), a in sorted(agg.items()):
        per_frame.setdefault(fi, []).append({'k': k, 'paths': a['paths'], 'error_free': a['clean'], 'ok': a['ok'], 'violating': len(a['viol'])})
    run.extra['frames'] = [{'kind': fr[fi]['kind'], 'position': fr[fi]['pos'], 'goods': fr[fi]['goods'], 'text': tables.render(T, fr[fi]['pre'] + fr[fi]['g1']) + ' <W> ' + tables.LEX[T.terms[fr[fi]['term']]] + ' ' + tables.render(T, fr[fi]['g2']) + ' }', 'windows': v} for fi, v in sorted(per_frame.items())]
    run.sample(run.extra['frames'][0])

    # group violations by role, replay representatives natively
    groups = {}
    for (fi, k), a in sorted(agg.items()):
        for v in a['viol']:
            win = [d[0] for d in v['window']]
            role = role_of(T, fr[fi], win)
            groups.setdefault(role, []).append((fi, k, win, v['why']))
    for role, items in sorted(groups.items()):
        reps = items[:3]
        seqs, names, metas = [], [], []
        for fi, k, win, why in reps:
            f = fr[fi]
            pre, w0, w1, suf, ext1, ext2 = layout(T, f, k)
            toks = pre + win + [f['term']] + suf
            ov = {}
            def name_index(lo, hi):
                # the member name: the IDENT directly before `(`, `=`, `;`, `,` or `}` (not a type segment)
                c = [i for i in range(lo, hi + 1) if toks[i] == T.tix['IDENT'] and (i + 1 >= len(toks) or T.terms[toks[i + 1]] in ('"("', '"="', '";"', '","', '"}"'))]
                return c[0]
            if ext1:
                ov[name_index(ext1[0], ext1[1])] = 'g1'
            if ext2:
                ov[name_index(ext2[0], ext2[1])] = 'g2'
            seqs.append(toks); names.append(ov); metas.append((w0, w1, bool(ext1), bool(ext2)))
        nat = pengine.native_run(T, seqs, names)
        run.validated += len(nat)
        reproduced = False
        wit = []
        for (fi, k, win, why), nr, (w0, w1, h1, h2) in zip(reps, nat, metas):
            lo, hi = nr['spans'][w0][0], nr['spans'][w1][1]
            nat_why = []
            if not nr['ast']:
                nat_why.append('no tree')
            else:
                ms = [m for m in nr['members'] if m in ('g1', 'g2')]
                if ms != (['g1'] if h1 else []) + (['g2'] if h2 else []):
                    nat_why.append('sibling lost: members=%s' % nr['members'])
            if not nr['diag_ranges']:
                nat_why.append('no Error')
            for (a, b) in nr['diag_ranges']:
                if a < lo or b > hi:
                    nat_why.append('Error at %d..%d outside the malformed member %d..%d' % (a, b, lo, hi))
            if nat_why:
                reproduced = True
            wit.append({'text': nr['text'], 'model': why, 'native': nat_why, 'messages': nr['messages'][:2]})
        run.violated('siblings survive and errors stay inside the malformed member [%s]' % role, 'P', role, {'windows': len(items), 'examples': wit}, reproduced,
                     bound='k<=%d' % kmax, queries=len(items))
    for fi, k, win in silent[:5]:
        f = fr[fi]
        pre, w0, w1, suf, ext1, ext2 = layout(T, f, k)
        toks = pre + win + [f['term']] + suf
        nat = pengine.native_run(T, [toks])
        rep = nat[0]['ast'] and not nat[0]['diag_ranges']
        run.violated('a malformed member is reported', 'P', 'silent:%s:%s' % (f['kind'], ' '.join(T.terms[t] for t in win)), {'text': nat[0]['text']}, rep,
                     detail='the parser accepts this window without any Error although the reference grammar does not derive it as members')
    if not groups and not silent:
        pass
    run.holds('every window of 1..%d terminals in %d frames: %d paths (%d window assignments); %d error-free boxes are all well-formed members per the reference grammar' % (
        kmax, len(fr), run.states, run.extra['window_assignments_covered'], sum(a['clean'] for a in agg.values())) if not groups and not silent else
        'all other paths: siblings survive, >=1 error, errors inside the malformed member (%d paths, %d violating boxes reported separately)' % (run.states, total_viol),
        'P', solver_s=tz, queries=nq + run.states, bound='k<=%d' % kmax)



def vocabulary_obligation(run):
    """the windows range over the terminals of the GENERATED tables; the statement quantifies over the full token vocabulary of the
    language.  A terminal that leaves the tables turns its lexeme into lexical garbage (InvalidToken, no recovery, no tree):
    the table's terminal list must cover the vocabulary"""
    import replay
    T = _T
    title = 'the window vocabulary (terminals of the generated tables) covers all %d token kinds of the language (punctuation incl. the lone sign, keywords, literals, reserved words)' % len(tables.LEX)
    missing = sorted(t for t in tables.LEX if t not in T.terms)
    if not missing:
        run.holds(title, 'P', queries=len(tables.LEX), bound='%d terminals' % len(T.terms)); return
    files = {'v%02d.aidl' % k: 'package x; interface I { void a(); int b %s c; void d(); }' % tables.LEX[t] for k, t in enumerate(missing)}
    r = replay.project(files)
    lost = [f for f, fr in sorted(r.get('files', {}).items()) if fr['parse']['ast'] is None or [m.get('name') for m in fr['parse']['ast']['members']] != ['a', 'd']]
    run.violated(title, 'P', 'vocabulary:' + missing[0], {'missing_terminals': missing, 'native': {f: files[f] for f in lost[:2]}}, bool(lost),
                 detail='terminal %s is not in the generated tables: a member containing `%s` is no longer recovered from' % (missing[0], tables.LEX[missing[0]]))


def check(run):
    _check_main(run)
    vocabulary_obligation(run)
    import mirror
    mirror.silent_recovery_obligation(run)
