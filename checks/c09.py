"""C09 -- duplicate method names, duplicate and mixed transact codes are flagged precisely.

Engine T, inductive step.  `check_methods` is a fold over the methods of an interface (walk_methods, C15) with four pieces of
state: name -> first method, code -> first method (among methods with distinct names), first method with / without a code.
The MIR of its per-method closure is executed on an ARBITRARY pre-state (the two maps are abstract: a look-up either misses or
hits some earlier method; the two markers are None or some earlier method) and one arbitrary method (name a z3 string, code an
optional integer).  For every path, the diagnostics pushed and the state updates are compared with the transition the
statement prescribes.  Because the pre-state is arbitrary (subject to the invariant `ids non-empty <=> a method with a code
was seen`, which the step is shown to preserve), one step covers method sequences of any length.
"""
import re

import z3

import mir
import native
import tmir
import travcheck as tc
from common import src_line

LEVEL = 'model_checking'


def closure_layout(S):
    """capture order of check_methods' per-method closure, read from the aggregate in check_methods' MIR"""
    f = [g for g in S.prog.fns if re.search(r'(^|::)check_methods$', g.name) and '::verif' not in g.name]
    if len(f) != 1:
        raise mir.Unsupported('check_methods: %d candidates' % len(f))
    for b in f[0].blocks.values():
        for st in b:
            m = re.search(r'= \{closure@[^}]*\} \{ (.*) \};', st)
            if m:
                return [x.split(':')[0].strip() for x in mir._split_top(m.group(1))], f[0]
    raise mir.Unsupported('closure aggregate not found in check_methods')


def diag_of(S, e):
    """('diag', struct) -> (kind, range path, [related range paths])"""
    d = e[2] if e[0] == 'push' else e[1]
    if not (isinstance(d, tuple) and d[0] == 'struct'):
        return None
    fields = dict(zip(d[3], d[2]))
    kind = fields['kind'][1].split('::')[-1] if isinstance(fields.get('kind'), tuple) else None
    rg = fields.get('range')
    rel = fields.get('related_infos')
    rels = []
    if isinstance(rel, tuple) and rel[0] == 'vec':
        for r in rel[1]:
            if isinstance(r, tuple) and r[0] == 'struct':
                rr = dict(zip(r[3], r[2])).get('range')
                rels.append(rr.path if hasattr(rr, 'path') else str(rr))
    return (kind, rg.path if hasattr(rg, 'path') else str(rg), rels)


def check(run):
    S = tc.Setup()
    run.functions += ['validation::check_methods and its per-method closure (%s)' % src_line('src/validation.rs', 'fn check_methods'), 'traverse::walk_methods']
    run.bounds += ['one inductive step from an arbitrary pre-state (abstract maps, symbolic markers) with one arbitrary method: covers method sequences of any length']
    run.outside += ['std HashMap itself (get / insert / entry / is_empty are modelled by their documented meaning)', 'the wording of the messages',
                    'which range the `mixed` Error points back to (the statement does not say)', 'parsing of the transact code into u32 (grammar action)']
    run.assumptions += ['invariant assumed on the pre-state and shown to be preserved: the code map is non-empty exactly when a method with a code has been seen',
                        'walk_methods yields exactly the methods in source order and never a constant (decided in C15)']
    run.extra['explanation'] = ('Symbolic execution of the MIR of check_methods::{closure#0} from an arbitrary abstract pre-state; every path is compared with the transition the statement prescribes; '
                                'native sweep over all sequences of <= 4 methods over 2 names x {no code, 2 codes}.')
    try:
        order, outer = closure_layout(S)
    except mir.Unsupported as e:
        run.inconclusive('closure layout', 'T', str(e))
        return
    need = ['diagnostics', 'method_names', 'first_method_with_id', 'first_method_without_id', 'method_ids']
    if sorted(order) != sorted(need):
        run.inconclusive('closure layout', 'T', 'captured variables are %s (the step encoding expects %s)' % (order, need))
        return
    cl = [g for g in S.prog.fns if re.search(r'(^|::)check_methods::\{closure#0\}$', g.name)]
    if len(cl) != 1:
        run.inconclusive('closure', 'T', '%d candidates' % len(cl)); return
    M = S.structs['Method']
    ix = {k: M.index(k) for k in ('name', 'transact_code', 'symbol_range', 'transact_code_range')}
    bad, npaths, shapes = [], 0, set()
    for fw_some in (False, True):
        for fwo_some in (False, True):
            ex = tmir.Exec(S.prog, S.enums, S.structs, opaque=[r'(^|::)check_method$'])
            clo_m = re.search(r'\{closure@([^}]*)\}', cl[0].params[0][1]).group(1)
            st = tmir.State()
            vals = {'diagnostics': ex.obj('diags', 'Vec'), 'method_names': ex.obj('names', 'HashMap'), 'method_ids': ex.obj('ids', 'HashMap'),
                    'first_method_with_id': ('cell', 'fw'), 'first_method_without_id': ('cell', 'fwo')}
            FW, FWO = ex.obj('FW', 'Method'), ex.obj('FWO', 'Method')
            st.heap['fw'] = ('enum', 'Option', 'Some', [FW]) if fw_some else ('enum', 'Option', 'None', [])
            st.heap['fwo'] = ('enum', 'Option', 'Some', [FWO]) if fwo_some else ('enum', 'Option', 'None', [])
            st.facts[('nonempty', 'ids')] = fw_some            # invariant
            clo = ('closure', clo_m, [vals[k] for k in order])
            m = ex.obj('m', 'Method')
            try:
                paths = ex.run_fn(cl[0], [clo, m], st)
            except mir.Unsupported as e:
                run.inconclusive('step from pre-state (with=%s, without=%s)' % (fw_some, fwo_some), 'T', str(e))
                continue
            for ps in ex.panics:
                if tc.model_of(ps) is not None:
                    bad.append('pre(with=%s, without=%s): the step panics (%s) after %s' % (fw_some, fwo_some, ps.events[-1][1], [e[:4] for e in ps.events if e[0] == 'lookup']))
            for s2, ret in paths:
                mdl = tc.model_of(s2)
                if mdl is None:
                    continue
                npaths += 1
                has_code = mdl.eval(z3.Int('m.%d#disc' % ix['transact_code']), True).as_long() == 1
                look = [e for e in s2.events if e[0] == 'lookup']
                name_l = [e for e in look if e[1] == 'names']
                id_l = [e for e in look if e[1] == 'ids']
                diags = [x for x in (diag_of(S, e) for e in s2.events if e[0] in ('diag', 'push')) if x is not None]
                inserts = [(e[1], e[3].path if hasattr(e[3], 'path') else str(e[3])) for e in s2.events if e[0] == 'insert']
                called = [e for e in s2.events if e[0] == 'opaque' and e[1] == 'check_method' and e[2] and getattr(e[2][0], 'path', None) == 'm']
                where = 'pre(with=%s, without=%s) code=%s names=%s ids=%s' % (fw_some, fwo_some, has_code, [e[3] for e in name_l], [e[3] for e in id_l])
                if len(called) != 1:
                    bad.append('%s: check_method called %d times on the method' % (where, len(called)))
                if len(name_l) != 1:
                    bad.append('%s: the name map is consulted %d times' % (where, len(name_l))); continue
                sym, tcr = 'm.%d' % ix['symbol_range'], 'm.%d' % ix['transact_code_range']
                fw_after, fwo_after = s2.heap['fw'], s2.heap['fwo']
                if name_l[0][3] == 'hit':
                    prev = name_l[0][4]
                    want = [('Error', sym, ['%s.%d' % (prev, ix['symbol_range'])])]
                    shapes.add('duplicate name')
                    if diags != want:
                        bad.append('%s: a repeated name must give exactly one Error on the name pointing back to the first occurrence; got %s' % (where, diags))
                    if inserts or id_l or fw_after != st.heap['fw'] or fwo_after != st.heap['fwo']:
                        bad.append('%s: a method with a repeated name must not take part in the code bookkeeping' % where)
                    continue
                want = []
                mixed = (has_code and not fw_some and fwo_some) or ((not has_code) and not fwo_some and fw_some)
                if mixed:
                    want.append(('Error', tcr))
                    shapes.add('mixed (%s)' % ('code after plain' if has_code else 'plain after code'))
                exp_ins = [('names', 'm')]
                if has_code:
                    if len(id_l) != 1:
                        bad.append('%s: the code map is consulted %d times' % (where, len(id_l))); continue
                    if id_l[0][3] == 'hit':
                        want.append(('Error', tcr, ['%s.%d' % (id_l[0][4], ix['transact_code_range'])]))
                        shapes.add('duplicate code')
                    else:
                        exp_ins.append(('ids', 'm'))
                        shapes.add('new code')
                elif id_l:
                    bad.append('%s: a method without a code consults the code map' % where)
                else:
                    shapes.add('no code')
                got = [(d[0], d[1]) if (i == 0 and mixed) else d for i, d in enumerate(diags)]
                if got != want:
                    bad.append('%s: diagnostics %s, the statement prescribes %s' % (where, diags, want))
                if sorted(inserts) != sorted(exp_ins):
                    bad.append('%s: map updates %s, expected %s' % (where, inserts, exp_ins))
                exp_fw = st.heap['fw'] if (fw_some or not has_code) else ('enum', 'Option', 'Some', [m])
                exp_fwo = st.heap['fwo'] if (fwo_some or has_code) else ('enum', 'Option', 'Some', [m])
                if fw_after != exp_fw or fwo_after != exp_fwo:
                    bad.append('%s: first-with / first-without markers not updated as first occurrences' % where)
                # invariant preserved: ids non-empty <=> a method with a code has been seen
                ne_after = s2.facts.get(('nonempty', 'ids'), fw_some)
                if bool(ne_after) != (fw_after[2] == 'Some'):
                    bad.append('%s: invariant broken (code map non-empty = %s, first-with = %s)' % (where, ne_after, fw_after[2]))
    run.states += npaths
    run.transitions += npaths
    want_shapes = {'duplicate name', 'mixed (code after plain)', 'mixed (plain after code)', 'duplicate code', 'new code', 'no code'}
    n_nat, nat_bad = native.sweep_c09()
    run.validated += n_nat
    run.extra['native_sweep'] = {'sequences': n_nat, 'discrepancies': len(nat_bad)}
    title = 'one step of check_methods from an arbitrary pre-state yields exactly the prescribed diagnostics and state updates (%d paths)' % npaths
    if bad:
        roles = {}
        for b in bad:
            role = 'panic' if 'panics' in b else 'duplicate-name' if 'repeated name' in b else 'mixed-or-duplicate-code' if 'prescribes' in b else 'bookkeeping'
            roles.setdefault(role, []).append(b)
        for role, bs in roles.items():
            run.violated(title, 'T', 'check_methods-step:' + role, {'paths': len(bs), 'examples': bs[:3], 'native': nat_bad[:2]}, bool(nat_bad), queries=npaths, detail=bs[0][:300])
    elif not want_shapes <= shapes:
        run.inconclusive(title, 'T', 'cases not reached: %s' % sorted(want_shapes - shapes))
    else:
        run.holds(title, 'T', queries=npaths, bound='any sequence length (induction over the fold)')
        if nat_bad:
            run.inconclusive('native sweep', 'replay', 'native discrepancy not explained by the step verdict: %s' % str(nat_bad[0])[:300])
    # initial state and the fold
    txt = ' '.join(' '.join(b) for b in outer.blocks.values())
    init_ok = len(re.findall(r'HashMap::<[^>]*>::new\(\)', txt)) >= 2 and len(re.findall(r'Option::<&Method>::None', txt)) >= 2 and re.search(r'walk_methods::<', txt)
    if init_ok:
        run.holds('check_methods starts from empty maps and unset markers and folds its closure over walk_methods', 'T', bound='MIR of check_methods')
    else:
        run.inconclusive('initial state of check_methods', 'T', 'expected two HashMap::new, two None markers and a walk_methods call')
    ok, n, detail = tc.outer_methods_args(S, 'walk_methods')
    c15 = __import__('c15')
    c15.report(run, 'walk_methods yields every method of an interface in source order and never a constant', ok, detail, nat_bad, queries=n, bound='widths <= 2')
