"""C09 -- duplicate method names, duplicate and mixed transact codes are flagged precisely.

Engine T, inductive step.  `check_methods` is a fold over the methods of an interface (walk_methods, C15) with four pieces of
state: name -> first method, code -> first method (among methods with distinct names), first method with / without a code.
The MIR of its per-method closure is executed on an ARBITRARY pre-state (the two maps are abstract: a look-up either misses or
hits some earlier method; the two markers are None or some earlier method) and one arbitrary method (name a z3 string, code an
optional integer).  For every path, the diagnostics pushed and the state updates are compared with the transition the
statement prescribes.  Because the pre-state is arbitrary (subject to the invariant `ids non-empty <=> a method with a code
was seen`, which the step is shown to preserve), one step covers method sequences of any length.
"""
import re

import z3

import mir
import native
import tmir
import travcheck as tc
from common import src_line

LEVEL = 'model_checking'


def closure_layout(S):
    """capture order of check_methods' per-method closure, read from the aggregate in check_methods' MIR"""
    f = [g for g in S.prog.fns if re.search(r'(^|::)check_methods$', g.name) and '::verif' not in g.name]
    if len(f) != 1:
        raise mir.Unsupported('check_methods: %d candidates' % len(f))
    for b in f[0].blocks.values():
        for st in b:
            m = re.search(r'= \{closure@[^}]*\} \{ (.*) \};', st)
            if m:
                return [x.split(':')[0].strip() for x in mir._split_top(m.group(1))], f[0]
    raise mir.Unsupported('closure aggregate not found in check_methods')


def diag_of(S, e):
    """('diag', struct) -> (kind, range path, [related range paths])"""
    d = e[2] if e[0] == 'push' else e[1]
    if not (isinstance(d, tuple) and d[0] == 'struct'):
        return None
    fields = dict(zip(d[3], d[2]))
    kind = fields['kind'][1].split('::')[-1] if isinstance(fields.get('kind'), tuple) else None
    rg = fields.get('range')
    rel = fields.get('related_infos')
    rels = []
    if isinstance(rel, tuple) and rel[0] == 'vec':
        for r in rel[1]:
            if isinstance(r, tuple) and r[0] == 'struct':
                rr = dict(zip(r[3], r[2])).get('range')
                rels.append(rr.path if hasattr(rr, 'path') else str(rr))
    return (kind, rg.path if hasattr(rg, 'path') else str(rg), rels)


def check(run):
    S = tc.Setup()
    run.functions += ['validation::check_methods and its per-method closure (%s)' % src_line('src/validation.rs', 'fn check_methods'), 'traverse::walk_methods']
    run.bounds += ['one inductive step from an arbitrary pre-state (abstract maps, symbolic markers) with one arbitrary method: covers method sequences of any length',
                   'independently: check_methods executed as a whole on interfaces of exactly 1..3 (4 thorough) methods, symbolic names and codes, every equality pattern']
    run.outside += ['std HashMap itself (get / insert / entry / is_empty are modelled by their documented meaning)', 'the wording of the messages',
                    'which range the `mixed` Error points back to (the statement does not say)', 'parsing of the transact code into u32 (grammar action)']
    run.assumptions += ['invariant assumed on the pre-state and shown to be preserved: the code map is non-empty exactly when a method with a code has been seen',
                        'walk_methods yields exactly the methods in source order and never a constant (decided in C15)']
    run.extra['explanation'] = ('Symbolic execution of the MIR of check_methods::{closure#0} from an arbitrary abstract pre-state; every path is compared with the transition the statement prescribes; '
                                'native sweep over all sequences of <= 4 methods over 2 names x {no code, 2 codes}.')
    try:
        order, outer = closure_layout(S)
    except mir.Unsupported as e:
        run.inconclusive('closure layout', 'T', str(e))
        return
    need = ['diagnostics', 'method_names', 'first_method_with_id', 'first_method_without_id', 'method_ids']
    if sorted(order) != sorted(need):
        # the function keeps its state differently: the inductive step does not apply; fall back to bounded execution of the whole function
        bounded_obligations(run, S, (1, 2, 3, 4) if run.tier == 'thorough' else (1, 2, 3), 'the per-method state is kept as %s: inductive step not applicable, bounded execution instead' % order)
        return
    cl = [g for g in S.prog.fns if re.search(r'(^|::)check_methods::\{closure#0\}$', g.name)]
    if len(cl) != 1:
        run.inconclusive('closure', 'T', '%d candidates' % len(cl)); return
    M = S.structs['Method']
    ix = {k: M.index(k) for k in ('name', 'transact_code', 'symbol_range', 'transact_code_range')}
    bad, npaths, shapes = [], 0, set()
    for fw_some in (False, True):
        for fwo_some in (False, True):
            ex = tmir.Exec(S.prog, S.enums, S.structs, opaque=[r'(^|::)check_method$'])
            clo_m = re.search(r'\{closure@([^}]*)\}', cl[0].params[0][1]).group(1)
            st = tmir.State()
            vals = {'diagnostics': ex.obj('diags', 'Vec'), 'method_names': ex.obj('names', 'HashMap'), 'method_ids': ex.obj('ids', 'HashMap'),
                    'first_method_with_id': ('cell', 'fw'), 'first_method_without_id': ('cell', 'fwo')}
            FW, FWO = ex.obj('FW', 'Method'), ex.obj('FWO', 'Method')
            st.heap['fw'] = ('enum', 'Option', 'Some', [FW]) if fw_some else ('enum', 'Option', 'None', [])
            st.heap['fwo'] = ('enum', 'Option', 'Some', [FWO]) if fwo_some else ('enum', 'Option', 'None', [])
            st.facts[('nonempty', 'ids')] = fw_some            # invariant
            clo = ('closure', clo_m, [vals[k] for k in order])
            m = ex.obj('m', 'Method')
            try:
                paths = ex.run_fn(cl[0], [clo, m], st)
            except mir.Unsupported as e:
                run.inconclusive('step from pre-state (with=%s, without=%s)' % (fw_some, fwo_some), 'T', str(e))
                continue
            for ps in ex.panics:
                if tc.model_of(ps) is not None:
                    bad.append('pre(with=%s, without=%s): the step panics (%s) after %s' % (fw_some, fwo_some, ps.events[-1][1], [e[:4] for e in ps.events if e[0] == 'lookup']))
            for s2, ret in paths:
                mdl = tc.model_of(s2)
                if mdl is None:
                    continue
                npaths += 1
                has_code = mdl.eval(z3.Int('m.%d#disc' % ix['transact_code']), True).as_long() == 1
                look = [e for e in s2.events if e[0] == 'lookup']
                name_l = [e for e in look if e[1] == 'names']
                id_l = [e for e in look if e[1] == 'ids']
                diags = [x for x in (diag_of(S, e) for e in s2.events if e[0] in ('diag', 'push')) if x is not None]
                inserts = [(e[1], e[3].path if hasattr(e[3], 'path') else str(e[3])) for e in s2.events if e[0] == 'insert']
                called = [e for e in s2.events if e[0] == 'opaque' and e[1] == 'check_method' and e[2] and getattr(e[2][0], 'path', None) == 'm']
                where = 'pre(with=%s, without=%s) code=%s names=%s ids=%s' % (fw_some, fwo_some, has_code, [e[3] for e in name_l], [e[3] for e in id_l])
                if len(called) != 1:
                    bad.append('%s: check_method called %d times on the method' % (where, len(called)))
                if len(name_l) != 1:
                    bad.append('%s: the name map is consulted %d times' % (where, len(name_l))); continue
                sym, tcr = 'm.%d' % ix['symbol_range'], 'm.%d' % ix['transact_code_range']
                fw_after, fwo_after = s2.heap['fw'], s2.heap['fwo']
                if name_l[0][3] == 'hit':
                    prev = name_l[0][4]
                    want = [('Error', sym, ['%s.%d' % (prev, ix['symbol_range'])])]
                    shapes.add('duplicate name')
                    if diags != want:
                        bad.append('%s: a repeated name must give exactly one Error on the name pointing back to the first occurrence; got %s' % (where, diags))
                    if inserts or id_l or fw_after != st.heap['fw'] or fwo_after != st.heap['fwo']:
                        bad.append('%s: a method with a repeated name must not take part in the code bookkeeping' % where)
                    continue
                want = []
                mixed = (has_code and not fw_some and fwo_some) or ((not has_code) and not fwo_some and fw_some)
                if mixed:
                    want.append(('Error', tcr))
                    shapes.add('mixed (%s)' % ('code after plain' if has_code else 'plain after code'))
                exp_ins = [('names', 'm')]
                if has_code:
                    if len(id_l) != 1:
                        bad.append('%s: the code map is consulted %d times' % (where, len(id_l))); continue
                    if id_l[0][3] == 'hit':
                        want.append(('Error', tcr, ['%s.%d' % (id_l[0][4], ix['transact_code_range'])]))
                        shapes.add('duplicate code')
                    else:
                        exp_ins.append(('ids', 'm'))
                        shapes.add('new code')
                elif id_l:
                    bad.append('%s: a method without a code consults the code map' % where)
                else:
                    shapes.add('no code')
                got = [(d[0], d[1]) if (i == 0 and mixed) else d for i, d in enumerate(diags)]
                if got != want:
                    bad.append('%s: diagnostics %s, the statement prescribes %s' % (where, diags, want))
                if sorted(inserts) != sorted(exp_ins):
                    bad.append('%s: map updates %s, expected %s' % (where, inserts, exp_ins))
                exp_fw = st.heap['fw'] if (fw_some or not has_code) else ('enum', 'Option', 'Some', [m])
                exp_fwo = st.heap['fwo'] if (fwo_some or has_code) else ('enum', 'Option', 'Some', [m])
                if fw_after != exp_fw or fwo_after != exp_fwo:
                    bad.append('%s: first-with / first-without markers not updated as first occurrences' % where)
                # invariant preserved: ids non-empty <=> a method with a code has been seen
                ne_after = s2.facts.get(('nonempty', 'ids'), fw_some)
                if bool(ne_after) != (fw_after[2] == 'Some'):
                    bad.append('%s: invariant broken (code map non-empty = %s, first-with = %s)' % (where, ne_after, fw_after[2]))
    run.states += npaths
    run.transitions += npaths
    want_shapes = {'duplicate name', 'mixed (code after plain)', 'mixed (plain after code)', 'duplicate code', 'new code', 'no code'}
    n_nat, nat_bad = native.sweep_c09()
    run.validated += n_nat
    run.extra['native_sweep'] = {'sequences': n_nat, 'discrepancies': len(nat_bad)}
    title = 'one step of check_methods from an arbitrary pre-state yields exactly the prescribed diagnostics and state updates (%d paths)' % npaths
    if bad:
        roles = {}
        for b in bad:
            role = 'panic' if 'panics' in b else 'duplicate-name' if 'repeated name' in b else 'mixed-or-duplicate-code' if 'prescribes' in b else 'bookkeeping'
            roles.setdefault(role, []).append(b)
        for role, bs in roles.items():
            run.violated(title, 'T', 'check_methods-step:' + role, {'paths': len(bs), 'examples': bs[:3], 'native': nat_bad[:2]}, bool(nat_bad), queries=npaths, detail=bs[0][:300])
    elif not want_shapes <= shapes:
        run.inconclusive(title, 'T', 'cases not reached: %s' % sorted(want_shapes - shapes))
    else:
        run.holds(title, 'T', queries=npaths, bound='any sequence length (induction over the fold)')
        if nat_bad:
            run.inconclusive('native sweep', 'replay', 'native discrepancy not explained by the step verdict: %s' % str(nat_bad[0])[:300])
    # initial state and the fold
    txt = ' '.join(' '.join(b) for b in outer.blocks.values())
    init_ok = len(re.findall(r'HashMap::<[^>]*>::new\(\)', txt)) >= 2 and len(re.findall(r'Option::<&Method>::None', txt)) >= 2 and re.search(r'walk_methods::<', txt)
    if init_ok:
        run.holds('check_methods starts from empty maps and unset markers and folds its closure over walk_methods', 'T', bound='MIR of check_methods')
    else:
        run.inconclusive('initial state of check_methods', 'T', 'expected two HashMap::new, two None markers and a walk_methods call')
    bounded_obligations(run, S, (1, 2, 3, 4) if run.tier == 'thorough' else (1, 2, 3), None)
    code_source_obligation(run)
    ok, n, detail = tc.outer_methods_args(S, 'walk_methods')
    c15 = __import__('c15')
    c15.report(run, 'walk_methods yields every method of an interface in source order and never a constant', ok, detail, nat_bad, queries=n, bound='widths <= 2')


def code_source_obligation(run):
    """the code check_methods compares is the number as written: read off the Method grammar action (content evaluator of C02)"""
    import mirror, replay
    title = 'the transact code a method carries in the tree is the parsed INTEGER of its declaration on every path where the number fits, and absent only when none is written'
    try:
        An = mirror.Analysis(replay.generated_parser(), mir.Program(mir.dump_mir()))
        viol, nq = An.constants()
    except (mir.Unsupported, RuntimeError) as e:
        run.inconclusive(title, 'A', str(e)); return
    tc_viol = {k: v for k, v in viol.items() if k.startswith('transact-code')}
    if An.unsupported:
        run.inconclusive(title, 'A', 'action outside the evaluator: ' + An.unsupported[0])
    elif tc_viol:
        nb = native.sweep_c09()[1]
        k0 = sorted(tc_viol)[0]
        run.violated(title, 'A', k0, {'solver': tc_viol[k0][:2], 'native': nb[:1]}, bool(nb), detail=k0)
    else:
        run.holds(title, 'A', queries=max(1, nq), bound='all paths of the 8 Method productions')


def bounded_obligations(run, S, sizes, why):
    nat = None
    for n in sizes:
        title = 'check_methods as a whole on every interface of %d method(s) (symbolic names, optional codes): diagnostics = the statement\'s, for every pattern of equal names / codes' % n
        try:
            np_, nq, bad = bounded_check_methods(S, n)
        except mir.Unsupported as e:
            run.inconclusive(title, 'T', ((why + '; ') if why else '') + str(e)); continue
        run.states += np_
        if any('unknown' in b for b in bad):
            run.inconclusive(title, 'T', 'solver returned unknown')
        elif bad:
            if nat is None:
                nat = native.sweep_c09()[1]
            role = 'check_methods-bounded:' + ('panic' if 'panics' in bad[0] else 'diagnostics')
            run.violated(title, 'T', role, {'examples': bad[:3], 'native': nat[:2]}, bool(nat), queries=nq, detail=bad[0][:300])
        else:
            run.holds(title, 'T', queries=max(1, nq), bound='exactly %d methods; %d paths' % (n, np_))


# ---- bounded whole-function fallback ---------------------------------------------------------------------------------------------
def reference(seq):
    """seq = [(name class, code class or None)] -> [(category, method index, related method index or None)] as the statement prescribes"""
    first_name, first_code = {}, {}
    with_i = without_i = None
    out = []
    for i, (nm, code) in enumerate(seq):
        if nm in first_name:
            out.append(('duplicate-name', i, first_name[nm]))
            continue
        first_name[nm] = i
        if code is not None and with_i is None and without_i is not None:
            out.append(('mixed', i, None))
        if code is None and without_i is None and with_i is not None:
            out.append(('mixed', i, None))
        if code is not None:
            if code in first_code:
                out.append(('duplicate-code', i, first_code[code]))
            else:
                first_code[code] = i
            if with_i is None:
                with_i = i
        elif without_i is None:
            without_i = i
    return out


def partitions(n):
    """set partitions of range(n) as class-label tuples"""
    def rec(k, labels, mx):
        if k == n:
            yield tuple(labels); return
        for c in range(mx + 1):
            yield from rec(k + 1, labels + [c], max(mx, c + 1 if c == mx else mx))
    yield from rec(0, [], 0)


def bounded_check_methods(S, n):
    """check_methods executed as a whole (engine T, explicit HashMaps, hash order irrelevant: only get/insert/entry) on an interface of
    exactly n methods with symbolic names and optional codes; every path is compared with the reference for EVERY pattern of
    name / code equalities that the path condition allows.  Independent of how the function keeps its state.
    -> (paths, queries, [problems])"""
    import itertools
    import zutil
    fn = [g for g in S.prog.fns if re.search(r'(^|::)validation::check_methods$', g.name) and '::verif' not in g.name]
    if len(fn) != 1:
        raise mir.Unsupported('check_methods: %d candidates' % len(fn))
    A = S.fidx
    ex = tmir.Exec(S.prog, S.enums, S.structs, max_len=n, opaque=[r'(^|::)check_method$'])
    ex.explicit_new = True
    ex.auto_cells = True
    ast, diags = ex.obj('ast', 'Aidl'), ex.obj('diags', 'Vec')
    item = 'ast.%d' % A('Aidl', 'item')
    elems = '%s@Interface.0.%d' % (item, A('Interface', 'elements'))
    st = tmir.State()
    st.lens[elems] = n
    st.pc += [z3.Int(item + '#disc') == S.enums['Item'].index('Interface')]
    mp = []
    for k in range(n):
        st.pc += [z3.Int('%s[%d]#disc' % (elems, k)) == S.enums['InterfaceElement'].index('Method')]
        mp.append('%s[%d]@Method.0' % (elems, k))
    ni, ci = A('Method', 'name'), A('Method', 'transact_code')
    names = [z3.String('%s.%d' % (p, ni)) for p in mp]
    has = [z3.Int('%s.%d#disc' % (p, ci)) for p in mp]
    codes = [z3.Int('%s.%d@Some.0' % (p, ci)) for p in mp]
    paths = ex.run_fn(fn[0], [ast, diags], st)
    bad, nq = [], 0
    for ps in ex.panics:
        if tc.model_of(ps) is not None:
            bad.append('check_methods panics on a %d-method interface (%s)' % (n, ps.events[-1][1] if ps.events else ''))
    # the variables the path conditions actually use (names differ by how the engine labels leaves)
    for s2, ret in paths:
        if tc.model_of(s2) is None:
            continue
        got = []
        for e in s2.events:
            d = diag_of(S, e) if e[0] in ('diag', 'push') else None
            if d is None:
                continue
            def midx(path):
                for k, p in enumerate(mp):
                    if str(path).startswith(p + '.') or str(path) == p:
                        return k
                return None
            got.append((d[0], midx(d[1]), [midx(r) for r in d[2]]))
        for plab in partitions(n):
            for present in itertools.product((False, True), repeat=n):
                idx = [k for k in range(n) if present[k]]
                for clab in partitions(len(idx)):
                    cs = []
                    for a in range(n):
                        for b in range(a):
                            cs.append(names[a] == names[b] if plab[a] == plab[b] else names[a] != names[b])
                    for k in range(n):
                        cs.append(has[k] == (1 if present[k] else 0))
                    for x in range(len(idx)):
                        for y in range(x):
                            cs.append(codes[idx[x]] == codes[idx[y]] if clab[x] == clab[y] else codes[idx[x]] != codes[idx[y]])
                    r, _s = zutil.check(list(s2.pc) + cs, 20000); nq += 1
                    if r == z3.unsat:
                        continue
                    if r != z3.sat:
                        bad.append('solver returned unknown'); continue
                    seq = [(plab[k], (clab[idx.index(k)] if present[k] else None)) for k in range(n)]
                    want = reference(seq)
                    # compare: same multiset of (method, category-compatible kind, related method); the mixed Error must sit on a range of the method that made it mixed
                    w = sorted((i, rel) for (_c, i, rel) in want)
                    g = sorted((i, (rels[0] if rels else None)) for (_k, i, rels) in got)
                    w_cmp = sorted((i, rel) for (c, i, rel) in want if c != 'mixed') + sorted((i, None) for (c, i, rel) in want if c == 'mixed')
                    g_cmp = sorted((i, r0) for (i, r0) in g if (i, r0) in [(a_, b_) for (c_, a_, b_) in want if c_ != 'mixed']) + \
                        sorted((i, None) for (i, r0) in g if (i, r0) not in [(a_, b_) for (c_, a_, b_) in want if c_ != 'mixed'])
                    if any(k_ != 'Error' for (k_, _i, _r) in got) or sorted(w_cmp) != sorted(g_cmp):
                        bad.append('methods %s: diagnostics on (method, related method) %s, the statement prescribes %s' % (seq, g, [(c, i, rel) for (c, i, rel) in want]))
                        if len(bad) > 6:
                            return len(paths), nq, bad
    return len(paths), nq, bad
