"""C12 -- results depend only on the surviving contents, not on the edit history.

Engine M + z3 (lib/histcheck.py): every path of Parser::add_content / remove_content / validate / add_file (MIR of the current
tree) is turned into an update of a z3 array  S : Id -> Option<Result>; one inductive step per operation proves that the invariant
"S is the image of the surviving-contents map M under R(id, content)" is preserved, where R is the term add_content stores and
must mention only (id, content).  The empty parser satisfies the invariant, hence so does every history and every fresh parser
built from M: both hold the same array, and validate() is shown to return a term over that array alone and to leave it unchanged.
lib/framecheck.py adds the CFG-level facts (exactly one insert / remove per call, key-map collection shape, `?` before add_content).
A counterexample is replayed natively by the exhaustive history sweep (all histories of length <= 3 over 3 ids x 4 contents +
remove / validate / add_file{ok, missing, invalid UTF-8}; quick: length 2)."""
import time

import mir
import histcheck
import framecheck
import native
from common import src_line

LEVEL = 'model_checking'


def check(run):
    prog = mir.Program(mir.dump_mir())
    run.functions += ['Parser::add_content (%s)' % src_line('src/parser.rs', 'pub fn add_content'),
                      'Parser::remove_content (%s)' % src_line('src/parser.rs', 'pub fn remove_content'),
                      'Parser::validate (%s)' % src_line('src/parser.rs', 'pub fn validate'),
                      'Parser::collect_item_keys (%s)' % src_line('src/parser.rs', 'fn collect_item_keys'),
                      'Parser::<PathBuf>::add_file (%s)' % src_line('src/parser.rs', 'pub fn add_file')]
    run.bounds += ['histories: unbounded (one inductive step per operation from an arbitrary state satisfying the invariant)',
                   'ids / contents: uninterpreted sorts (any number of ids, any content)',
                   'native confirmation sweep: every history of length <= %d over 3 ids x 4 contents (21 operations), a directed stale-cache scenario, and %s seeded random histories' % ((3, '150 x 40') if run.tier == 'thorough' else (2, '40 x 25'))]
    run.outside += ['the parse stage itself is an uninterpreted function of (id, content) - its determinism is C11/C01 territory',
                    'hash iteration order: an array has none; results that depend on it (two files registering one item key with different kinds) are reported under C11',
                    'the file system: File::open / read_to_string are uninterpreted; their Err results are the I/O failures of the statement']
    run.assumptions += ['std HashMap insert / remove / get / contains_key / entry().or_insert / clone are the array operations store / select',
                        'callees that do not receive the parser or its map cannot observe them (no global state: checked by scanning the MIR for statics)']
    run.extra['explanation'] = 'Inductive invariant S = image(M) checked by z3 (arrays + uninterpreted functions) for every MIR path of each Parser operation; CFG facts by path enumeration; native exhaustive history sweep as confirmation.'
    depth = 3 if run.tier == 'thorough' else 2
    nat = None

    def native_bad():
        nonlocal nat
        if nat is None:
            nat = native.sweep_c12(depth, 150 if run.tier == 'thorough' else 40, 40 if run.tier == 'thorough' else 25)
        return nat
    try:
        obs, nq = histcheck.analyse(prog)
    except mir.Unsupported as e:
        run.inconclusive('state-machine encoding of the Parser operations', 'M', str(e)); obs = []
    for name, status, detail, wit, q, secs in obs:
        if status == 'holds':
            run.holds(name, 'M', detail=detail, queries=max(1, q), solver_s=secs, bound='all MIR paths of the operation; arbitrary pre-state satisfying the invariant')
        elif status == 'violated':
            steps, bad = native_bad()
            w = dict(wit or {}, detail=detail, native=bad[:1])
            run.violated(name, 'M', 'history:' + (wit or {}).get('op', '?'), w, bool(bad), detail=detail, queries=max(1, q), solver_s=secs)
        else:
            run.inconclusive(name, 'M', detail)
    # CFG-level facts
    for what, fn in (('add_content: exactly one insert, under the caller\'s id, of ParseFileResult{id: clone of id, parse(content)}', framecheck.add_content),
                     ('remove_content: exactly one remove of the caller\'s id', framecheck.remove_content),
                     ('validate(&self) = validation::validate(collect_item_keys(self), clone of the map); no mutating map call', framecheck.validate_entry),
                     ('collect_item_keys = values().flat_map(ast).map(|f| (f.get_key(), f.item.get_kind())).collect(): recomputed on every call', framecheck.collect_keys),
                     ('add_file: open? -> read_to_string? -> add_content(PathBuf::from(path), text) -> Ok; error paths never reach add_content', framecheck.add_file),
                     ('no mutable global state in the crate (statics, thread-locals, interior mutability) outside the verif-hooks recorder', framecheck.no_globals)):
        t0 = time.time()
        try:
            ok, n, bad = fn(prog)
        except mir.Unsupported as e:
            run.inconclusive(what, 'M', str(e)); continue
        if ok:
            run.holds(what, 'M', queries=n, solver_s=time.time() - t0, bound='all feasible non-unwinding CFG paths')
        else:
            steps, nb = native_bad()
            run.violated(what, 'M', 'frame:' + fn.__name__, {'detail': bad[:3], 'native': nb[:1]}, bool(nb), detail=bad[0], queries=n)
    steps, bad = native_bad()
    run.validated += steps
    run.extra['native_history_sweep'] = {'depth': depth, 'steps': steps, 'failing': len(bad)}
    if bad and not any(o.status in ('violated', 'inconclusive') for o in run.obls):
        run.inconclusive('native history sweep', 'replay', 'native discrepancy not explained by a solver verdict: %s' % str(bad[0])[:400])
