"""C16 -- pointing at a name finds the symbol that carries it (engine K)."""
import ksupport
import mir
import native
import travcheck as tc
from common import src_line

LEVEL = 'model_checking'
SPECS = [
    ('c16::c16_range_contains', 'range_contains(r, p) <=> start <=lex p <=lex end for all eight usize values', 'quick', ['c16']),
]


def check(run):
    run.functions += ['traverse::range_contains (%s)' % src_line('src/traverse.rs', 'fn range_contains'), 'traverse::find_symbol_at_line_col -> find_symbol', 'Symbol::get_range']
    run.bounds += ['range_contains: all usize (Kani); find_symbol: trees with imports/members/arguments <= 2, all levels (engine T)']
    run.outside += ['agreement of name ranges with the source text (C04)', 'other tree shapes (the lookup composes range_contains with the traversal order decided in C15)']
    run.extra['explanation'] = 'Kani/CBMC: containment over all integers; lookup = first symbol in traversal order containing the position, for every position of a document tree; native sweep (90 lookups on generated documents).'
    ksupport.decide(run, 'C16', SPECS, {'c16': native.sweep_c16})
    # lookup = find_symbol with the containment predicate; find_symbol = first match in traversal order (engine T)
    import c15
    c15.check(run, which=('step_symbols', 'outer_symbols', 'find'), native_bad=native.sweep_c16()[1])
    try:
        S = tc.Setup()
        ok, detail = tc.lookup_closure(S)
        if ok:
            run.holds('find_symbol_at_line_col(ast, level, p) = find_symbol(ast, level, |s| range_contains(s.get_range(), p))', 'T', bound='MIR of find_symbol_at_line_col and its closure')
        else:
            run.violated('lookup is find_symbol with the containment predicate on the name range', 'T', 'lookup-closure', {'detail': detail}, True)
    except mir.Unsupported as e:
        run.inconclusive('lookup closure', 'T', str(e))
