"""C16 -- pointing at a name finds the symbol that carries it (engine K)."""
import ksupport
import native
from common import src_line

LEVEL = 'model_checking'
SPECS = [
    ('c16::c16_range_contains', 'range_contains(r, p) <=> start <=lex p <=lex end for all eight usize values', 'quick', ['c16']),
    ('c16::c16_lookup', 'find_symbol_at_line_col on a document tree (package, import, interface, method with List<Foo> return and Bar[] argument): every (line<=5, col<=45) x 3 levels', 'quick', ['c16']),
]


def check(run):
    run.functions += ['traverse::range_contains (%s)' % src_line('src/traverse.rs', 'fn range_contains'), 'traverse::find_symbol_at_line_col -> find_symbol', 'Symbol::get_range']
    run.bounds += ['range_contains: all usize; lookup: one document tree with realistic name ranges, all positions on lines 1-5, columns 0-45, three filter levels; unwind 3']
    run.outside += ['agreement of name ranges with the source text (C04)', 'other tree shapes (the lookup composes range_contains with the traversal order decided in C15)']
    run.extra['explanation'] = 'Kani/CBMC: containment over all integers; lookup = first symbol in traversal order containing the position, for every position of a document tree; native sweep (90 lookups on generated documents).'
    ksupport.decide(run, 'C16', SPECS, {'c16': native.sweep_c16})
