"""C08 -- array, list and map element rules are enforced on every container type (engine K)."""
import re

import z3

import ksupport
import mir
import native
import travcheck as tc
from common import src_line

LEVEL = 'model_checking'
SPECS = [
    ('c08::c08_array_element', 'array element over all 17 categories: one Error on the element iff the statement forbids it', 'quick', ['c08']),
    ('c08::c08_list_element', 'list element over all 17 categories', 'quick', ['c08']),
    ('c08::c08_map_key_value', 'map key x value over 16 x 17 categories', 'quick', ['c08']),
    ('c08::c08_raw_containers', 'raw List/Map: one Warning on the keyword; non-containers: nothing', 'quick', ['c08']),
]


def check(run):
    run.functions += ['validation::check_container (%s)' % src_line('src/validation.rs', 'fn check_container('), 'check_array_element / check_list_element / check_map_key / check_map_value',
                      'validation::check_containers -> traverse::walk_types (%s)' % src_line('src/traverse.rs', 'pub fn walk_types')]
    run.bounds += ['17 leaf categories per element position; which container nodes are visited: any depth by induction (engine T); unwind 4-8']
    run.outside += ['map key of unresolved kind (the statement is ambiguous: "must be String" vs "benefit of the doubt")', 'message wording']
    run.assumptions += ['stub: alloc::fmt::format -> String::new()']
    run.extra['explanation'] = 'Kani/CBMC over check_container for all element categories and over check_containers + walk_types for symbolic nesting; native sweep of 405 container types in 5 syntactic positions confirms.'
    ksupport.decide(run, 'C08', SPECS, {'c08': native.sweep_c08})
    # every container at any depth is checked: engine T on walk_types + the closure check_containers hands to it
    import c15
    c15.check(run, which=('step_types', 'deep_types', 'outer_types'), native_bad=native.sweep_c08()[1])
    try:
        S = tc.Setup()
        ok, detail = tc.closure_calls(S, 'check_containers', r'check_container$')
        if ok:
            run.holds('the closure check_containers hands to the walker calls check_container on exactly the node it is given', 'T', bound='MIR of check_containers::{closure#0}')
        else:
            nb = native.sweep_c08()[1]
            run.violated('check_containers closure calls check_container on its node, on every path', 'T', 'check-containers-closure', {'detail': detail, 'native': nb[:1]}, bool(nb), detail=detail)
    except mir.Unsupported as e:
        run.inconclusive('check_containers closure', 'T', str(e))
    # check_containers is nothing but that walk: no diagnostic is added, removed or rewritten before / after it
    try:
        title = 'check_containers consists of the walk alone: on every path the only call is walk_types with that closure - nothing filters, removes or rewrites the diagnostics afterwards'
        fs = [g for g in S.prog.fns if re.search(r'(^|::)validation::check_containers$', g.name) and '::verif' not in g.name]
        cl = [g for g in S.prog.fns if re.search(r'(^|::)check_containers::\{closure#0\}$', g.name)]
        if len(fs) != 1 or len(cl) != 1:
            raise mir.Unsupported('check_containers: %d / closure: %d candidates' % (len(fs), len(cl)))
        bad, n = [], 0
        for pc, ev in mir.cfg_paths(fs[0]):
            s = z3.Solver(); s.add(*pc)
            if s.check() != z3.sat:
                continue
            n += 1
            calls = [c for (_b, c, _a, _d) in ev if c != '=']
            if len(calls) != 1 or not re.search(r'walk_types::<', calls[0]):
                bad.append('calls on a path of check_containers: %s' % [c.split('::')[-1][:30] for c in calls][:6])
        others = [g.name for g in S.prog.fns if g.name.startswith(fs[0].name + '::{closure') and g is not cl[0]]
        if others:
            bad.append('check_containers has further closures: %s' % [o[-30:] for o in others])
        # the closure: check_container(node, diagnostics) and nothing else that touches the diagnostics
        for pc, ev in mir.cfg_paths(cl[0]):
            calls = [c for (_b, c, _a, _d) in ev if c != '=']
            if len(calls) != 1 or not re.search(r'(^|::)check_container$', calls[0]):
                bad.append('calls in the per-node closure: %s' % [c.split('::')[-1][:30] for c in calls][:6])
        if bad:
            nb = native.sweep_c08()[1]
            run.violated(title, 'M', 'check-containers-not-just-the-walk', {'detail': bad[:3], 'native': nb[:1]}, bool(nb), detail=bad[0])
        else:
            run.holds(title, 'M', queries=n, bound='all feasible CFG paths of check_containers and of its closure')
    except mir.Unsupported as e:
        run.inconclusive('shape of check_containers', 'M', str(e))
