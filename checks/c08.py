"""C08 -- array, list and map element rules are enforced on every container type (engine K)."""
import ksupport
import native
from common import src_line

LEVEL = 'model_checking'
SPECS = [
    ('c08::c08_array_element', 'array element over all 17 categories: one Error on the element iff the statement forbids it', 'quick', ['c08']),
    ('c08::c08_list_element', 'list element over all 17 categories', 'quick', ['c08']),
    ('c08::c08_map_key_value', 'map key x value over 16 x 17 categories', 'quick', ['c08']),
    ('c08::c08_raw_containers', 'raw List/Map: one Warning on the keyword; non-containers: nothing', 'quick', ['c08']),
    ('c08::c08_walk_depth2_return', 'check_containers through the real type walker, symbolic nesting to depth 2, return type', 'quick', ['c08']),
    ('c08::c08_walk_depth2_arg', 'same, argument position', 'quick', ['c08']),
    ('c08::c08_walk_depth2_field', 'same, parcelable field', 'quick', ['c08']),
    ('c08::c08_walk_depth2_const', 'same, constant', 'thorough', ['c08']),
    ('c08::c08_walk_depth3_return', 'depth-3 spines', 'thorough', ['c08']),
]


def check(run):
    run.functions += ['validation::check_container (%s)' % src_line('src/validation.rs', 'fn check_container('), 'check_array_element / check_list_element / check_map_key / check_map_value',
                      'validation::check_containers -> traverse::walk_types (%s)' % src_line('src/traverse.rs', 'pub fn walk_types')]
    run.bounds += ['17 leaf categories per element position; container shapes to depth 2 (all of array/list/map(String,x)/map(x,String)), depth-3 spines in the thorough tier; unwind 4-5']
    run.outside += ['map key of unresolved kind (the statement is ambiguous: "must be String" vs "benefit of the doubt")', 'message wording']
    run.assumptions += ['stub: alloc::fmt::format -> String::new()']
    run.extra['explanation'] = 'Kani/CBMC over check_container for all element categories and over check_containers + walk_types for symbolic nesting; native sweep of 405 container types in 5 syntactic positions confirms.'
    ksupport.decide(run, 'C08', SPECS, {'c08': native.sweep_c08})
