"""C17 -- an item's qualified name is the key that references to it resolve to.

Engine M: Symbol::get_qualified_name, Symbol::get_name, Aidl::get_key, Item::get_name, Import::get_qualified_name and
ConstOwner::get_name are executed symbolically from the MIR of the current tree; every name is an unconstrained z3 string.
One query per symbol variant: (path condition) AND result != reference must be UNSAT, the reference being written from the
property text (package ++ "." ++ Name = key; Owner ++ "::" ++ member; dotted import / package names; stored identifiers).
"""
import time

import z3

import mir
import replay
from common import src_line

LEVEL = 'model_checking'

PROJECT = {
    'a.aidl': 'package p.q;\nimport p.q.P;\nimport p.q.E;\nimport p.q.I2;\ninterface I {\n  const int K = 1;\n  void m(in P a, E, I2 c);\n  List<P> n();\n}\n',
    'b.aidl': 'package p.q;\nparcelable P {\n  int f;\n  const int C = 2;\n}\n',
    'c.aidl': 'package p.q;\nenum E { A = 1, B }\n',
    'd.aidl': 'package p.q;\ninterface I2 { }\n',
}


def native_expectations(r):
    """[(tag, expected qname, actual qname, name-expected, name-actual)] from a replay of PROJECT."""
    out = []
    keys = {}
    for fid, fr in r['files'].items():
        a = fr['valid']['ast']
        keys[a['item']['name']] = a['package'] + '.' + a['item']['name']
    for fid, fr in r['files'].items():
        a = fr['valid']['ast']
        pkg, item = a['package'], a['item']['name']
        syms = a['symbols_all']
        member = None
        for s in syms:
            t = s['tag']
            exp = None
            if t == 'package':
                exp = pkg
            elif t in ('interface', 'parcelable', 'enum'):
                exp = pkg + '.' + item
                if a['key'] != exp:
                    out.append(('key', exp, a['key']))
            elif t in ('method', 'const', 'field', 'enum_element'):
                exp = item + '::' + s['name']
            elif t == 'type' and s.get('type_kind', '').startswith('resolved:'):
                exp = keys.get(s['name'].split('.')[-1])
            elif t == 'import':
                continue
            if exp is not None:
                out.append((t, exp, s['qname']))
    return out


def check(run):
    prog = mir.Program(mir.dump_mir())
    structs, enums = mir.layouts()
    run.functions += ['Symbol::get_qualified_name (%s)' % src_line('src/symbol.rs', 'fn get_qualified_name'),
                      'Symbol::get_name (%s)' % src_line('src/symbol.rs', 'pub fn get_name(&self) -> Option<String>'),
                      'Aidl::get_key (%s)' % src_line('src/ast.rs', 'fn get_key'), 'Item::get_name', 'Import::get_qualified_name', 'ConstOwner::get_name']
    run.bounds += ['all name strings unconstrained (z3 sequence theory), one query per symbol variant and path']
    run.outside += ['that resolved type symbols carry the right key is decided by the resolver (C05); here only "a resolved type symbol reports the key it stores"',
                    'Display for String/&str (taken as identity)']
    run.assumptions += ['format_args! template encoding of this nightly', 'field/variant indices read from the struct/enum declarations in src/*.rs (declaration order = MIR index)']
    run.extra['explanation'] = 'MIR of the name formatters -> z3 strings; reference written from the property; counterexample replayed natively on a 4-file project.'

    sym_variants = enums.get('Symbol')
    item_variants = enums.get('Item')
    if not sym_variants or not item_variants:
        run.inconclusive('layout', 'M', 'cannot read Symbol/Item declarations')
        return
    gq = prog.find('get_qualified_name', "&Symbol<'_>")
    gn = prog.find('get_name', "&Symbol<'_>")
    gk = prog.find('get_key', '&Aidl')
    inl = {r'(^|::)Item::get_name$': prog.find('get_name', '&Item'),
           r'Import::get_qualified_name$': prog.find('get_qualified_name', '&Import'),
           r'ConstOwner::<.*>::get_name$': prog.find('get_name', "&ConstOwner<'_>")}

    def fidx(struct, field):
        return structs[struct].index(field)

    def S(path):
        return z3.String(path)

    tsolve = [0.0]
    nq = [0]

    def decide(name, variant, paths, ref_fn, ctx, sym):
        """ref_fn(ctx) -> expected value: ('some', z3str) | ('none',) | Obj ; returns list of counterexamples"""
        bad = []
        for p in paths:
            if isinstance(p.result, tuple) and p.result[0] == 'panic':
                bad.append({'panic': p.result[1]}); continue
            exp = ref_fn(p)
            got = p.result
            s = z3.Solver(); s.set('timeout', 60000)
            s.add(*p.pc)
            if isinstance(exp, tuple) and exp[0] == 'some':
                if not (isinstance(got, tuple) and got[0] == 'some'):
                    s.add(z3.BoolVal(True)); neq = None
                else:
                    neq = mir.tostr(got[1]) != exp[1]
                    s.add(neq)
            elif exp == ('none',):
                if got == ('none',):
                    continue
                neq = None
            else:   # identity object
                if got is exp:
                    continue
                neq = None
            t0 = time.time(); r = s.check(); tsolve[0] += time.time() - t0; nq[0] += 1
            if r == z3.sat:
                m = s.model()
                w = {'variant': variant}
                if neq is not None:
                    w['got'] = str(m.eval(mir.tostr(got[1]), True)); w['want'] = str(m.eval(exp[1], True))
                else:
                    w['got'] = repr(got)[:120]; w['want'] = repr(exp)[:120]
                bad.append(w)
            elif r != z3.unsat:
                bad.append({'unknown': True})
        return bad

    native = None

    def native_repro(tags):
        nonlocal native
        if native is None:
            native = replay.project(PROJECT)
        if native.get('panic') or 'crash' in native:
            return False, native
        ex = native_expectations(native)
        run.validated += len(ex)
        hits = [e for e in ex if e[0] in tags and e[1] != e[2]]
        return bool(hits), hits[:3]

    for d, V in enumerate(sym_variants):
        ctx = mir.Ctx()
        it = mir.Interp(prog, ctx, inline=inl)
        sym = mir.Obj('sym')
        pc0 = [ctx.disc(sym) == d]
        dv = ctx.downcast(sym, V)

        def name_of(slot, struct):
            return S('sym@%s.%d.%d' % (V, slot, fidx(struct, 'name')))

        if V == 'Type':
            # a resolved type symbol reports the key it stores; any other type has no qualified name
            paths = it.run(gq, [sym], pc0)
            tk = enums['TypeKind'].index('ResolvedItem')
            tobj = ctx.field(dv, 0, '&ast::Type')
            kobj = ctx.field(tobj, fidx('Type', 'kind'), 'ast::TypeKind')
            key = ctx.field(ctx.downcast(kobj, 'ResolvedItem'), 0, 'std::string::String')

            def ref(p, ctx=ctx, kobj=kobj, key=key, tk=tk):
                s = z3.Solver(); s.add(*p.pc); s.add(ctx.disc(kobj) == tk)
                return ('some', key) if s.check() == z3.sat else ('none',)
            bad = decide('qualified name', V, paths, ref, ctx, sym)
            exp_name = None
        else:
            if V == 'Package':
                want_q = ('some', name_of(0, 'Package')); want_n = want_q
            elif V == 'Import':
                pth = S('sym@Import.0.%d' % fidx('Import', 'path')); nm = S('sym@Import.0.%d' % fidx('Import', 'name'))
                want_q = ('some', z3.If(z3.Length(pth) == 0, nm, z3.Concat(pth, z3.StringVal('.'), nm))); want_n = None
            elif V in ('Interface', 'Parcelable', 'Enum'):
                want_q = ('some', z3.Concat(S('sym@%s.1.%d' % (V, fidx('Package', 'name'))), z3.StringVal('.'), name_of(0, V)))
                want_n = ('some', name_of(0, V))
            elif V == 'Method':
                want_q = ('some', z3.Concat(name_of(1, 'Interface'), z3.StringVal('::'), name_of(0, 'Method'))); want_n = ('some', name_of(0, 'Method'))
            elif V == 'Field':
                want_q = ('some', z3.Concat(name_of(1, 'Parcelable'), z3.StringVal('::'), name_of(0, 'Field'))); want_n = ('some', name_of(0, 'Field'))
            elif V == 'EnumElement':
                want_q = ('some', z3.Concat(name_of(1, 'Enum'), z3.StringVal('::'), name_of(0, 'EnumElement'))); want_n = ('some', name_of(0, 'EnumElement'))
            elif V == 'Const':
                want_q = 'const'; want_n = ('some', name_of(0, 'Const'))
            elif V == 'Arg':
                want_q = None; want_n = 'argname'
            else:
                run.inconclusive('symbol variant %s' % V, 'M', 'variant unknown to the reference (property lists 11 symbol kinds)')
                continue
            bad = []
            if want_q == 'const':
                owners = enums['ConstOwner']
                for od, OV in enumerate(owners):
                    ctx2 = mir.Ctx(); it2 = mir.Interp(prog, ctx2, inline=inl); sym2 = mir.Obj('sym')
                    ow = ctx2.field(ctx2.downcast(sym2, 'Const'), 1, "symbol::ConstOwner<'_>")
                    paths = it2.run(gq, [sym2], [ctx2.disc(sym2) == d, ctx2.disc(ow) == od])
                    oname = S('%s@%s.0.%d' % (ow.path, OV, fidx(OV, 'name')))
                    w = ('some', z3.Concat(oname, z3.StringVal('::'), S('sym@Const.0.%d' % fidx('Const', 'name'))))
                    bad += decide('qualified name', 'Const/' + OV, paths, lambda p, w=w: w, ctx2, sym2)
            elif want_q is not None:
                paths = it.run(gq, [sym], pc0)
                bad += decide('qualified name', V, paths, lambda p: want_q, ctx, sym)
            exp_name = want_n
        tagmap = {'Package': 'package', 'Import': 'import', 'Interface': 'interface', 'Parcelable': 'parcelable', 'Enum': 'enum', 'Method': 'method',
                  'Arg': 'arg', 'Const': 'const', 'Field': 'field', 'EnumElement': 'enum_element', 'Type': 'type'}
        if bad:
            rep, hits = native_repro({tagmap[V]})
            run.violated('qualified name of Symbol::%s' % V, 'M', 'qualified-name:%s' % V, {'solver': bad[:3], 'native': hits}, rep, solver_s=tsolve[0], queries=nq[0],
                         bound='unbounded strings')
        else:
            run.holds('qualified name of Symbol::%s matches the reference for all strings' % V, 'M', bound='unbounded strings')
        # plain name
        if exp_name is not None:
            ctx3 = mir.Ctx(); it3 = mir.Interp(prog, ctx3, inline=inl); sym3 = mir.Obj('sym')
            paths = it3.run(gn, [sym3], [ctx3.disc(sym3) == d])
            if exp_name == 'argname':
                aobj = ctx3.field(ctx3.downcast(sym3, 'Arg'), 0, '&ast::Arg')
                want = ctx3.field(aobj, fidx('Arg', 'name'), 'std::option::Option<std::string::String>')
                badn = decide('name', V, paths, lambda p: want, ctx3, sym3)
            else:
                badn = decide('name', V, paths, lambda p: exp_name, ctx3, sym3)
            if badn:
                run.violated('plain name of Symbol::%s' % V, 'M', 'plain-name:%s' % V, {'solver': badn[:3]}, True, queries=len(paths))
            else:
                run.holds('plain name of Symbol::%s is the stored identifier' % V, 'M', queries=len(paths))

    # key linkage: get_key(aidl) == get_qualified_name(Symbol::<Item>(item, package)) when they share package and item
    for V in ('Interface', 'Parcelable', 'Enum'):
        if V not in sym_variants or V not in item_variants:
            continue
        ctx = mir.Ctx(); it = mir.Interp(prog, ctx, inline=inl)
        sym, aidl = mir.Obj('sym'), mir.Obj('aidl')
        ctx.binds['aidl.%d' % fidx('Aidl', 'package')] = mir.Obj('sym@%s.1' % V)
        ctx.binds['aidl.%d@%s.0' % (fidx('Aidl', 'item'), V)] = mir.Obj('sym@%s.0' % V)
        ctx.memo['sym@%s.1' % V] = ctx.binds['aidl.%d' % fidx('Aidl', 'package')]
        ctx.memo['sym@%s.0' % V] = ctx.binds['aidl.%d@%s.0' % (fidx('Aidl', 'item'), V)]
        item_obj = ctx.field(aidl, fidx('Aidl', 'item'), 'ast::Item')
        pk = it.run(gk, [aidl], [ctx.disc(item_obj) == item_variants.index(V)])
        pq = it.run(gq, [sym], [ctx.disc(sym) == sym_variants.index(V)])
        bad = []
        for a in pk:
            for b in pq:
                if (isinstance(a.result, tuple) and a.result[0] == 'panic') or (isinstance(b.result, tuple) and b.result[0] == 'panic'):
                    bad.append({'panic': True}); continue
                s = z3.Solver(); s.set('timeout', 60000); s.add(*a.pc); s.add(*b.pc)
                if not (isinstance(b.result, tuple) and b.result[0] == 'some'):
                    bad.append({'variant': V, 'got': repr(b.result)}); continue
                ka, qb = mir.tostr(a.result), mir.tostr(b.result[1])
                s.add(ka != qb)
                t0 = time.time(); r = s.check(); tsolve[0] += time.time() - t0; nq[0] += 1
                if r == z3.sat:
                    m = s.model(); bad.append({'variant': V, 'key': str(m.eval(ka, True)), 'qualified_name': str(m.eval(qb, True))})
                elif r != z3.unsat:
                    bad.append({'unknown': True})
        run.sample({'variant': V, 'key_term': str(mir.tostr(pk[0].result)), 'qname_term': str(mir.tostr(pq[0].result[1])) if pq and pq[0].result[0] == 'some' else None})
        if bad:
            rep, hits = native_repro({V.lower(), 'key'})
            run.violated('qualified name of the %s item symbol equals Aidl::get_key' % V, 'M', 'key-vs-qualified-name:%s' % V, {'solver': bad[:2], 'native': hits}, rep,
                         solver_s=tsolve[0], queries=nq[0], bound='unbounded strings')
        else:
            run.holds('qualified name of the %s item symbol equals Aidl::get_key for all package/item names' % V, 'M', bound='unbounded strings')
    # always run the native project once: translation validation of the formatter model on a real multi-file project
    rep, hits = native_repro(set())
    run.states += len(sym_variants) + 3
    run.transitions += sum(len(b) for b in gq.blocks.values()) + sum(len(b) for b in gn.blocks.values())
    for o in run.obls:
        o.solver_s = 0.0
    if run.obls:
        run.obls[0].solver_s = tsolve[0]
        run.obls[0].queries = max(run.obls[0].queries, nq[0])
