"""C05 -- every user-type reference is resolved per AIDL scoping, or reported unknown (partial; engine K)."""
import ksupport
import mir
import native
import travcheck as tc
from common import src_line

LEVEL = 'model_checking'
SPECS = [
    ('c05::c05_builtin_tables', 'built-in tables: names round-trip, only ParcelFileDescriptor may be written qualified', 'quick', ['c05']),
    ('c05::c05_resolve_no_imports', 'resolve_type without imports/forward declarations: 12 names (built-ins, qualified names, near-misses): kind and exactly one Error on the name or none', 'quick', ['c05']),
    ('c05::c05_resolve_leaves_classified_alone', 'already classified types are not touched', 'quick', ['c05']),
]


def check(run):
    run.functions += ['traverse::walk_types_mut (%s)' % src_line('src/traverse.rs', 'fn walk_types_mut'), 'validation::resolve_type (%s)' % src_line('src/validation.rs', 'fn resolve_type('),
                      'ast::AndroidTypeKind::{from_name, from_qualified_name, get_name, get_qualified_name, can_be_qualified}']
    run.bounds += ['type walker: any depth by induction (engine T) and depth 2 unsummarised; 12-name pool; empty import and forward-declaration sets; unwind 4 / 34 (string compares)']
    run.outside += ['more than 2 (quick) / 3 (thorough) imports, 1 forward declaration, 1-2 registered keys per resolution', 'how validate builds the import / declaration sets and the key map (HashMap collect)',
                    'std HashSet / HashMap themselves: contains / get / iter().find are modelled (find may return ANY matching element: hash order is quantified away)']
    run.assumptions += ['stub: std::hash::RandomState::new -> fixed keys (empty containers only)', 'stub: alloc::fmt::format -> String::new()']
    run.extra['explanation'] = ('Engine T + z3 strings: resolve_type on symbolic names, import sets, forward declarations and key map against the scoping rules of the statement; every type node reaches the '
                                'resolver exactly once (induction); Kani: built-in tables and the import-free resolver; native sweep of 67 references confirms counterexamples.')
    ksupport.decide(run, 'C05', SPECS, {'c05': native.sweep_c05})
    resolver_obligations(run)
    scope_obligation(run)
    # every type node, at any depth, reaches the resolver exactly once: engine T on walk_types_mut + the closure resolve_types hands to it
    import c15
    c15.check(run, which=('step_types_mut', 'deep_types_mut', 'outer_types_mut'), native_bad=native.sweep_c05()[1])
    try:
        S = tc.Setup()
        ok, detail = tc.closure_calls(S, 'resolve_types', r'resolve_type$')
        if ok:
            run.holds('the closure resolve_types hands to the walker calls resolve_type on exactly the node it is given, on every path (no cache or early return skips it)', 'T', bound='MIR of resolve_types::{closure#0}', detail=detail)
        else:
            nb = native.sweep_c05()[1]
            run.violated('resolve_types closure calls resolve_type on its node, on every path', 'T', 'resolve-closure', {'detail': detail, 'native': nb[:2]}, bool(nb), detail=detail)
    except mir.Unsupported as e:
        run.inconclusive('resolve_types closure', 'T', str(e))


def scope_obligation(run):
    """the scope resolve_type works with is the file's own: import / forward-declaration sets = qualified names of its own statements"""
    import pipeline
    title = ('the import and forward-declaration sets handed to resolve_types are exactly the qualified names of the file\'s own import / parcelable statements '
             '(collected from the tree being resolved, not modified afterwards)')
    try:
        ok, n, bad = pipeline.scope_facts(mir.Program(mir.dump_mir()))
    except mir.Unsupported as e:
        run.inconclusive(title, 'M', str(e)); return
    if ok:
        run.holds(title, 'M', queries=n, bound='all %d feasible CFG paths of the per-file closure that reach resolve_types' % n)
    else:
        nb = native.sweep_c05()[1]
        run.violated(title, 'M', 'scope:sets-not-own-statements', {'detail': bad[:3], 'native': nb[:2]}, bool(nb), detail=bad[0])


_S = None


def _rc_task(cfg):
    import resolvecheck as rc
    import tmir, time
    tmir.DEADLINE[0] = time.time() + 900      # wall-clock cap per configuration: exceeding it is inconclusive, never a verdict
    try:
        np, nq, viol = rc.run(_S, *cfg)
        return cfg, np, nq, viol, None
    except mir.Unsupported as e:
        return cfg, 0, 0, [], str(e)


def resolver_obligations(run):
    """resolve_type against the scoping rules, on symbolic names / import sets / forward declarations / key map (engine T + z3 strings)."""
    import multiprocessing as mp
    global _S
    try:
        _S = tc.Setup()
    except (mir.Unsupported, RuntimeError) as e:
        run.inconclusive('resolve_type (symbolic)', 'T', str(e)); return
    cfgs = [(0, 0, 0), (1, 0, 0), (1, 0, 1), (1, 1, 0), (2, 0, 1), (2, 1, 1)] if run.tier == 'quick' else [(0, 0, 0), (1, 0, 0), (1, 0, 1), (1, 1, 0), (2, 0, 1), (2, 1, 1), (2, 1, 2), (3, 1, 1)]
    with mp.Pool(len(cfgs)) as pool:
        res = pool.map(_rc_task, cfgs)
    nat = None
    for cfg, np, nq, viol, err in res:
        title = 'resolve_type follows the scoping rules for every written name, %d import(s), %d forward declaration(s), %d registered key(s), any hash order' % cfg
        run.states += np
        run.transitions += nq
        if err:
            run.inconclusive(title, 'T', err)
        elif viol:
            if nat is None:
                nat = native.sweep_c05()[1]
            roles = {}
            for v in viol:
                roles.setdefault(v['what'][:70], []).append(v)
            for role, vs in roles.items():
                run.violated(title, 'T', 'resolve:' + role, {'solver': vs[:2], 'native': nat[:2]}, bool(nat), queries=nq, bound='unbounded strings', detail=vs[0]['what'][:200])
        else:
            run.holds(title, 'T', queries=nq, bound='unbounded strings; %d paths' % np)
