"""C05 -- every user-type reference is resolved per AIDL scoping, or reported unknown (partial; engine K)."""
import ksupport
import mir
import native
import travcheck as tc
from common import src_line

LEVEL = 'model_checking'
SPECS = [
    ('c05::c05_builtin_tables', 'built-in tables: names round-trip, only ParcelFileDescriptor may be written qualified', 'quick', ['c05']),
    ('c05::c05_resolve_no_imports', 'resolve_type without imports/forward declarations: 12 names (built-ins, qualified names, near-misses): kind and exactly one Error on the name or none', 'quick', ['c05']),
    ('c05::c05_resolve_leaves_classified_alone', 'already classified types are not touched', 'quick', ['c05']),
]


def check(run):
    run.functions += ['traverse::walk_types_mut (%s)' % src_line('src/traverse.rs', 'fn walk_types_mut'), 'validation::resolve_type (%s)' % src_line('src/validation.rs', 'fn resolve_type('),
                      'ast::AndroidTypeKind::{from_name, from_qualified_name, get_name, get_qualified_name, can_be_qualified}']
    run.bounds += ['type walker: any depth by induction (engine T) and depth 2 unsummarised; 12-name pool; empty import and forward-declaration sets; unwind 4 / 34 (string compares)']
    run.outside += ['matching against a NON-EMPTY import / forward-declaration set (HashSet<String> iteration + format!): not encodable under CBMC (one insert: > 14 min); covered only by the native sweep',
                    'the key -> kind map over all parsed files']
    run.assumptions += ['stub: std::hash::RandomState::new -> fixed keys (empty containers only)', 'stub: alloc::fmt::format -> String::new()']
    run.extra['explanation'] = 'Kani/CBMC: every type node reaches the resolver exactly once; built-in tables; resolver on import-free files; native sweep (67 references incl. imports, near-misses, imported built-ins) for the rest.'
    ksupport.decide(run, 'C05', SPECS, {'c05': native.sweep_c05})
    # every type node, at any depth, reaches the resolver exactly once: engine T on walk_types_mut + the closure resolve_types hands to it
    import c15
    c15.check(run, which=('step_types_mut', 'deep_types_mut', 'outer_types_mut'), native_bad=native.sweep_c05()[1])
    try:
        S = tc.Setup()
        ok, detail = tc.closure_calls(S, 'resolve_types', r'resolve_type$')
        if ok:
            run.holds('the closure resolve_types hands to the walker calls resolve_type on exactly the node it is given', 'T', bound='MIR of resolve_types::{closure#0}')
        else:
            run.violated('resolve_types closure calls resolve_type on its node', 'T', 'resolve-closure', {'detail': detail}, True)
    except mir.Unsupported as e:
        run.inconclusive('resolve_types closure', 'T', str(e))
