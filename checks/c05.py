"""C05 -- every user-type reference is resolved per AIDL scoping, or reported unknown (partial; engine K)."""
import ksupport
import native
from common import src_line

LEVEL = 'model_checking'
SPECS = [
    ('c05::c05_walk_mut_return_d2', 'walk_types_mut offers every type node (25 shapes of depth <= 2) exactly once: return type', 'quick', ['c05']),
    ('c05::c05_walk_mut_arg_d2', 'argument type', 'quick', ['c05']),
    ('c05::c05_walk_mut_field_d2', 'parcelable field', 'quick', ['c05']),
    ('c05::c05_walk_mut_const_d2', 'constant', 'thorough', ['c05']),
    ('c05::c05_walk_mut_spine_d3', 'depth-3 spines', 'thorough', ['c05']),
    ('c05::c05_builtin_tables', 'built-in tables: names round-trip, only ParcelFileDescriptor may be written qualified', 'quick', ['c05']),
    ('c05::c05_resolve_no_imports', 'resolve_type without imports/forward declarations: 12 names (built-ins, qualified names, near-misses): kind and exactly one Error on the name or none', 'quick', ['c05']),
    ('c05::c05_resolve_leaves_classified_alone', 'already classified types are not touched', 'quick', ['c05']),
]


def check(run):
    run.functions += ['traverse::walk_types_mut (%s)' % src_line('src/traverse.rs', 'fn walk_types_mut'), 'validation::resolve_type (%s)' % src_line('src/validation.rs', 'fn resolve_type('),
                      'ast::AndroidTypeKind::{from_name, from_qualified_name, get_name, get_qualified_name, can_be_qualified}']
    run.bounds += ['type shapes to depth 2 (all 25) / depth-3 spines; 12-name pool; empty import and forward-declaration sets; unwind 4 / 34 (string compares)']
    run.outside += ['matching against a NON-EMPTY import / forward-declaration set (HashSet<String> iteration + format!): not encodable under CBMC (one insert: > 14 min); covered only by the native sweep',
                    'the key -> kind map over all parsed files']
    run.assumptions += ['stub: std::hash::RandomState::new -> fixed keys (empty containers only)', 'stub: alloc::fmt::format -> String::new()']
    run.extra['explanation'] = 'Kani/CBMC: every type node reaches the resolver exactly once; built-in tables; resolver on import-free files; native sweep (67 references incl. imports, near-misses, imported built-ins) for the rest.'
    ksupport.decide(run, 'C05', SPECS, {'c05': native.sweep_c05})
