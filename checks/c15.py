"""C15 -- traversal visits every node once, in order; filter and find agree with it (engine K)."""
import ksupport
import native
from common import src_line

LEVEL = 'model_checking'
SPECS = [
    ('c15::c15_symbols_interface_return_d2', 'walk_symbols(All) on an interface whose return type has any of the 25 shapes of depth <= 2: exactly the source-order pre-order', 'quick', ['c15']),
    ('c15::c15_symbols_interface_arg_const', 'argument type (depth 2) and constant type (depth 1) symbolic', 'quick', ['c15']),
    ('c15::c15_symbols_parcelable_d2', 'parcelable: field type depth 2, constant type depth 1', 'quick', ['c15']),
    ('c15::c15_levels', 'item kind x filter level: coarser levels are the sub-sequences item / item + members', 'quick', ['c15']),
    ('c15::c15_find_and_filter', 'find_symbol = first match in visit order for every node incl. the package, None when nothing matches; filter_symbols = the matches', 'quick', ['c15', 'c16']),
    ('c15::c15_find_levels', 'find_symbol at the three levels', 'quick', ['c15', 'c16']),
    ('c15::c15_walk_types_methods_args', 'walk_types / walk_methods / walk_args on an interface', 'quick', ['c15']),
    ('c15::c15_walk_types_parcelable', 'walk_types on a parcelable', 'thorough', ['c15']),
    ('c15::c15_symbols_spine_d3', 'depth-3 spines', 'thorough', ['c15']),
]


def check(run):
    run.functions += ['traverse::walk_symbols_with_control_flow / walk_symbols / filter_symbols / find_symbol (%s)' % src_line('src/traverse.rs', 'fn walk_symbols_with_control_flow'),
                      'traverse::walk_types / walk_methods / walk_args', 'Symbol::get_range']
    run.bounds += ['trees: package, one import, item of each kind, <= 2 members, <= 1 argument; type shapes: all 25 of depth <= 2, depth-3 spines (thorough); unwind 4-5']
    run.outside += ['trees with more members/arguments than the harness trees', 'two deep siblings at depth 3']
    run.assumptions += ['node identity = symbol-range offset (all distinct in the harness trees); the expected order is produced by the tree builder']
    run.extra['explanation'] = 'Kani/CBMC over the real walkers with symbolic tree shape, level and predicate index; native sweep on generated documents (369 symbols, 90 lookups) confirms.'
    ksupport.decide(run, 'C15', SPECS, {'c15': native.sweep_c15, 'c16': native.sweep_c16})
