"""C15 -- traversal visits every node once, in order; filter and find agree with it.

Engine T: event-trace symbolic execution of the MIR of src/traverse.rs (closures, slice iterators and `?` modelled; the tree is
symbolic: enum discriminants and vector lengths are z3 integers the executor forks on).
  STEP    inductive step of each recursive type walker (`visit_type`), recursive calls replaced by the induction hypothesis
          -> the type order / exactly-once / stop-at-Break result holds for types of ANY nesting depth;
  OUTER   walk_symbols_with_control_flow on every tree within the width bounds x 3 filter levels, with that summary;
  DEEP    the same walkers with nothing summarised, types nested to depth 2 in each type position (independent of code shape);
  find_symbol / filter_symbols / walk_types / walk_types_mut / walk_methods / walk_args on top.
Counterexamples are confirmed by native sweeps over generated documents.
"""
import re
import time

import mir
import native
import travcheck as tc
from common import src_line

LEVEL = 'model_checking'


def role_of(err):
    if 'continued after a Break' in err or 'went on after the predicate held' in err:
        m = re.search(r"\('(\w+)'", err)
        return 'break-ignored:%s' % (m.group(1) if m else '?')
    if "predicate held at ('Package'" in err:
        return 'break-ignored:Package'
    m = re.search(r"(?:first missing|reference order has|missing) \[?\('(?:Type|node)', \(?'([^']*)'", err)
    if m and m.group(1).count('[') >= 3:
        return 'nested-types-not-visited'
    if 'type nodes offered' in err or 'types offered' in err:
        return 'nested-types-not-visited' if re.search(r"\[\d+\]\.\d+\[\d+\]\.\d+\[\d+\]", err) else 'type-walk-order'
    if 'children of the node were never iterated' in err:
        return 'children-not-visited'
    return 'traversal-order'


def report(run, title, ok, detail, native_bad, **kw):
    if ok:
        run.holds(title, 'T', **kw)
        return
    roles = {}
    for d in detail:
        roles.setdefault(role_of(d), []).append(d)
    for role, ds in roles.items():
        if 'vacuity' in ds[0]:
            run.inconclusive(title, 'T', ds[0], **kw)
            continue
        run.violated(title, 'T', role, {'paths': len(ds), 'examples': ds[:3], 'native': native_bad[:2]}, bool(native_bad), detail=ds[0][:300], **kw)


ALL = ('step_symbols', 'step_types', 'step_types_mut', 'outer_symbols', 'deep_symbols', 'deep_types', 'deep_types_mut', 'outer_types', 'outer_types_mut', 'find', 'filter', 'methods_args')


def check(run, which=ALL, native_bad=None):
    S = tc.Setup()
    sub = which != ALL
    if not sub:
        run.functions += ['traverse::walk_symbols_with_control_flow and its closures (%s)' % src_line('src/traverse.rs', 'fn walk_symbols_with_control_flow'),
                          'traverse::walk_symbols / filter_symbols / find_symbol', 'traverse::walk_types / walk_types_mut / walk_methods / walk_args and their visit_type helpers']
        run.extra['explanation'] = ('Event-trace symbolic execution of the traversal MIR with inductive summaries for the recursive type walker; z3 decides path feasibility and supplies the tree of '
                                    'each path; native sweeps confirm counterexamples.')
        n15, bad15 = native.sweep_c15()
        n16, bad16 = native.sweep_c16()
        run.validated += n15 + n16
        run.extra['native_sweeps'] = {'c15': {'cases': n15, 'discrepancies': len(bad15)}, 'c16': {'cases': n16, 'discrepancies': len(bad16)}}
        nat = bad15 + bad16
    else:
        nat = native_bad or []
    run.bounds += ['engine T STEP: any nesting depth (induction), 0..3 generic parameters per type', 'engine T OUTER: imports, members, arguments <= 2, all item kinds and member kinds, 3 filter levels',
                   'engine T DEEP: one member, one argument, types nested to depth 2 (2 parameters, each with <= 1 parameter) in each of the 4 type positions']
    run.outside += ['trees wider than the bounds (the walkers treat all elements of a vector alike: slice iterators)', 'std: slice::Iter, Iterator::{next, for_each, try_for_each}, ControlFlow as Try are modelled, not executed']
    run.assumptions += ['derive(PartialEq) on TypeKind: equality with the unit variant Array is equality of discriminants',
                        'model of std iterators: elements in index order, try_for_each stops at the first Break and returns it']
    npaths = 0
    t0 = time.time()
    tasks = task_list(S, which)
    import multiprocessing as mp
    global _S
    _S = S
    with mp.Pool(min(12, len(tasks))) as pool:
        results = pool.map(run_task, tasks)
    for (kind, args, title, bound), (status, ok, n, detail) in zip(tasks, results):
        if status == 'na':
            run.extra.setdefault('not_applicable_to_code_shape', []).append('%s: %s' % (title, detail))
            continue
        if status == 'unsupported':
            run.inconclusive(title, 'T', detail)
            continue
        npaths += n
        report(run, title, ok, detail, nat, queries=n, bound=bound)
    run.states += npaths
    run.transitions += npaths
    run.extra['engine_T_seconds'] = round(time.time() - t0, 1)
    if not sub and nat and not any(o.status == 'violated' or o.status == 'inconclusive' for o in run.obls):
        run.inconclusive('native sweeps', 'replay', 'native discrepancy not explained by a solver verdict: %s' % str(nat[0])[:300])


_S = None


def task_list(S, which):
    names = {'step_symbols': 'walk_symbols_with_control_flow::visit_type', 'step_types': 'walk_types::visit_type', 'step_types_mut': 'walk_types_mut::visit_type'}
    have = {k: any(f.name.endswith(n) for f in S.prog.fns) for k, n in names.items()}
    T = []
    for k, n in names.items():
        if k in which:
            T.append(('step', (n, k == 'step_symbols'), 'STEP %s: [children.., node] for arrays / [node, children..] otherwise, stop at the first Break (any depth by induction)' % n, '0..3 children, any depth'))
    if 'outer_symbols' in which and have['step_symbols']:
        T.append(('outer_symbols', (), 'OUTER walk_symbols_with_control_flow: reference pre-order at all 3 levels, Break stops the walk and is returned', 'widths <= 2'))
    for fname in tc.focuses(S):
        if 'deep_symbols' in which:
            T.append(('deep_symbols', (fname,), 'DEEP walk_symbols: %s nested to depth 2, nothing summarised' % fname, 'depth 2'))
        if 'deep_types' in which:
            T.append(('deep_types', ('walk_types', fname), 'DEEP walk_types: %s nested to depth 2: every type node exactly once, in source order' % fname, 'depth 2'))
        if 'deep_types_mut' in which:
            T.append(('deep_types', ('walk_types_mut', fname), 'DEEP walk_types_mut: %s nested to depth 2: every type node exactly once' % fname, 'depth 2'))
    if 'outer_types' in which and have['step_types']:
        T.append(('outer_types', ('walk_types',), 'OUTER walk_types: every member type in source order', 'widths <= 2'))
    if 'outer_types_mut' in which and have['step_types_mut']:
        T.append(('outer_types', ('walk_types_mut',), 'OUTER walk_types_mut: every member type offered', 'widths <= 2'))
    if 'find' in which:
        T.append(('derived_find', (), 'find_symbol returns the first symbol in visit order satisfying the predicate (the package included), None if none', 'widths <= 2, 3 levels'))
    if 'filter' in which:
        T.append(('derived_filter', (1,), 'filter_symbols returns exactly the visited symbols satisfying the predicate, in visit order', 'widths <= 1, 3 levels'))
    if 'methods_args' in which:
        for fn in ('walk_methods', 'walk_args'):
            T.append(('outer_methods_args', (fn,), '%s yields every %s of an interface in source order and nothing else' % (fn, 'method' if fn == 'walk_methods' else '(method, argument) pair'), 'widths <= 2'))
    return T


def run_task(task):
    kind, args, title, bound = task
    S = _S
    try:
        if kind == 'step':
            try:
                ok, n, detail = tc.step_obligation(S, *args)
            except mir.Unsupported as e:
                if 'candidates' in str(e):
                    return ('na', True, 0, str(e))
                raise
            return ('ok', ok, n, detail)
        r = getattr(tc, kind)(S, *args)
        return ('ok', r[0], r[1], r[-1])
    except mir.Unsupported as e:
        return ('unsupported', False, 0, str(e))
