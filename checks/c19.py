"""C19 -- serialising a tree and reading it back gives an equal tree (decided through the derive attributes' consistency).

Engine M on the MIR of the derive-generated code of the current tree.  A derive-generated round trip loses information exactly
when (a) a field is skipped by the writer but required by the reader, (b) a field is skipped at a value other than the one the
reader substitutes, (c) writer and reader spell a field / variant name differently, (d) two fields share a name.  All four are
read off the generated `serialize` / `visit_map` / `visit_str` bodies; (b) is a z3 query per skipped field over all values:
skip_predicate(v) AND v != default(v type)  must be UNSAT, with crate predicates / defaults translated from their MIR
(BoolExt::is_true, Direction::is_unspecified, Direction::default) and std ones axiomatised.
Counterexamples are replayed natively through RON on a project that exercises every optional field in both states.
"""
import re
import time

import z3

import mir
import replay
from common import src_line

LEVEL = 'model_checking'

PROJECT = {
    'a.aidl': ('package p.q;\nimport p.q.P;\nimport p.q.E;\n/** doc */\n@Ann(k=1, j)\ninterface I {\n  /** c */ @A const int K = 1;\n  const String S = "s";\n'
               '  /** m */ @B(x="y") oneway void m(in P a, /** d */ out @C P[] b, inout List<P> c, E, in Map<String,P> e) = 3;\n  void n() = 4;\n  List<String> o();\n}\n'),
    'b.aidl': 'package p.q;\n/** pd */\n@X\nparcelable P {\n  /** f */ @F int f = 3;\n  String g;\n  const int C = 2;\n  ParcelFileDescriptor pfd;\n  IBinder b;\n  Unknown u;\n}\n',
    'c.aidl': 'package p.q;\n/** e */ @Y\nenum E { /** a */ A = 1, B }\n',
    'd.aidl': 'package p.q;\nparcelable Fwd;\noneway interface J { void p(in Fwd f); oneway void q(); }\n',
    # documentation comments without text (doc = Some("")), no oneway method: must survive on its own
    # boundary values of the numeric fields (transact codes 0, binder limit -1 / limit, u32::MAX), no oneway method
    'f.aidl': 'package p.q;\ninterface L { void a() = 0; void b() = 16777214; void c() = 16777215; void d() = 4294967295; void e(); }\n',
    'e.aidl': 'package p.q;\n/** */\nparcelable Q {\n  /**\n   */ int z;\n  /***/ const int W = 1;\n}\n',
}


def blocks_text(f):
    return {bb: ' ; '.join(st) for bb, st in f.blocks.items()}


def analyse_serialize(f):
    """-> (struct name, [(field name, always|conditional, pred callee, field index, field type)])  or (enum name, [variant names])"""
    out = []
    bt = f.blocks
    # predicate result locals: _X = PRED(copy _Y) with _Y = &((*_1).IDX: TYPE)
    refs = {}
    preds = {}
    for bb, sts in bt.items():
        for st in sts:
            m = re.match(r'^(_\d+) = &\(\(\*_1\)\.(\d+): (.*)\);$', st)
            if m:
                refs.setdefault(bb, {})[m.group(1)] = (int(m.group(2)), m.group(3))
            sc = mir.split_call(st.rstrip(';'))
            if sc and re.match(r'^(?:copy|move) _\d+$', sc[2].strip()):
                arg = sc[2].strip().split()[-1]
                if arg in refs.get(bb, {}):
                    preds[(bb, sc[0])] = (sc[1], refs[bb][arg], sc[3])
    name = None
    for bb, sts in bt.items():
        for st in sts:
            m = re.search(r'serialize_struct\(move _\d+, const "(\w+)"', st)
            if m:
                name = m.group(1)
    fields = []
    for bb, sts in sorted(bt.items(), key=lambda x: int(x[0][2:])):
        for st in sts:
            m = re.search(r'SerializeStruct>::serialize_field::<(.*)>\(copy _\d+, const "(\w+)", copy (_\d+)\)', st)
            if m:
                fields.append({'name': m.group(2), 'bb': bb, 'kind': 'write'})
            m = re.search(r'SerializeStruct>::skip_field\(copy _\d+, const "(\w+)"\)', st)
            if m:
                fields.append({'name': m.group(1), 'bb': bb, 'kind': 'skip'})
    # conditional fields: a switchInt on a predicate result leading to the skip block
    cond = {}
    for bb, sts in bt.items():
        for st in sts:
            m = re.match(r'^switchInt\(move (_\d+)\) -> \[0: (bb\d+), otherwise: (bb\d+)\];$', st)
            if m:
                # find the predicate producing this local: defined in a predecessor block returning into bb
                for (pbb, dest), (callee, (idx, ty), ret) in preds.items():
                    if dest == m.group(1) and ret == bb:
                        cond[m.group(3)] = (callee, idx, ty, True)     # skip block reached when predicate != 0
                        cond[m.group(2)] = (callee, idx, ty, False)
    res = {}
    for fdesc in fields:
        e = res.setdefault(fdesc['name'], {'name': fdesc['name'], 'written': False, 'skipped': None})
        if fdesc['kind'] == 'write':
            e['written'] = True
        else:
            c = cond.get(fdesc['bb'])
            e['skipped'] = c if c else ('unknown', None, None, None)
    return name, list(res.values())


def analyse_visit_map(f, nfields):
    """-> ['default:<type>' | 'required:<name>'] in field declaration order, or None"""
    seq = []
    for bb, sts in sorted(f.blocks.items(), key=lambda x: int(x[0][2:])):
        for st in sts:
            m = re.search(r'= <(.*) as Default>::default\(\)', st)
            if m:
                seq.append(('default', m.group(1)))
            m = re.search(r'missing_field::<.*>\(const "(\w+)"\)', st)
            if m:
                seq.append(('required', m.group(1)))
    return seq


def consts_in(f):
    out = []
    for sts in f.blocks.values():
        for st in sts:
            out += re.findall(r'const "(\w+)"', st)
    return out


def check(run):
    txt = mir.dump_mir()
    prog = mir.Program(txt)
    structs, enums = mir.layouts()
    run.functions += ['derive(Serialize) / derive(Deserialize) output for every ast type (%s ...)' % src_line('src/ast.rs', '#[derive(Serialize, Deserialize'),
                      'ast::BoolExt::is_true, ast::Direction::is_unspecified, <Direction as Default>::default']
    run.bounds += ['field values unbounded (bool, option/sequence/map emptiness, enum discriminants); all 22 derive-generated writers and their readers']
    run.outside += ['serde\'s own impls for String, usize, tuples, Option, Vec, HashMap and the generated visitors\' handling of PRESENT fields (the derive visitors cannot be executed symbolically: EnumElement alone timed out under Kani)',
                    'the data format (RON) itself']
    run.assumptions += ['a skipped field is absent for the reader (true for self-describing formats such as RON/JSON)',
                        'std axioms: Option::is_none <=> None, Vec/HashMap::is_empty <=> no element, bool::default() = false, Option/Vec/HashMap::default() = empty']
    run.extra['explanation'] = 'Skip predicates, defaults and field/variant names read off the derive-generated MIR of the current tree; z3 decides predicate => default per field; native RON round trip of a project exercising all optional fields.'

    ser = [f for f in prog.fns if re.search(r'ast::_::<impl at src/ast.rs:\d+:\d+: \d+:\d+>::serialize$', f.name)]
    if len(ser) < 10:
        run.inconclusive('locate derive(Serialize) output', 'M', '%d functions' % len(ser)); return
    native = None

    def native_rt():
        nonlocal native
        if native is None:
            native = replay.roundtrip(PROJECT)
            run.validated += len(PROJECT)
        return native
    nq, tz = 0, 0.0
    checked_fields = 0
    for f in ser:
        tyname = mir.norm_ty(f.params[0][1]).lstrip('&')
        sname, fields = analyse_serialize(f)
        if sname is None:
            # enum: variant names written vs accepted
            written = [c for c in consts_in(f)]
            vis = [g for g in prog.fns if g.name.endswith('::visit_str') and re.search(r'for (?:ast::)?%s>::deserialize::__FieldVisitor' % re.escape(tyname), g.params[0][1])]
            if len(vis) != 1:
                run.inconclusive('reader of enum %s' % tyname, 'M', '%d visit_str candidates' % len(vis)); continue
            accepted = set(consts_in(vis[0]))
            wv = [w for w in written if w != tyname]
            missing = [w for w in wv if w not in accepted]
            if missing:
                run.violated('variant names of %s agree between writer and reader' % tyname, 'M', 'variant-name:%s:%s' % (tyname, missing[0]), {'written': wv, 'accepted': sorted(accepted)},
                             not all(v.get('equal', True) for v in native_rt().values() if isinstance(v, dict)))
            else:
                run.holds('variant names of %s agree between writer and reader (%d variants)' % (tyname, len(set(wv))), 'M')
            continue
        vm = [g for g in prog.fns if g.name.endswith('::visit_map') and re.match(r'Result<(?:ast::)?%s, ' % re.escape(sname), g.ret)]
        vs = [g for g in prog.fns if g.name.endswith('::visit_str') and re.search(r'for (?:ast::)?%s>::deserialize::__FieldVisitor' % re.escape(sname), g.params[0][1])]
        if len(vm) != 1 or len(vs) != 1:
            run.inconclusive('reader of struct %s' % sname, 'M', '%d visit_map / %d visit_str candidates' % (len(vm), len(vs))); continue
        reader = analyse_visit_map(vm[0], len(fields))
        accepted = set(consts_in(vs[0]))
        if len(reader) != len(fields):
            run.inconclusive('reader of struct %s' % sname, 'M', 'reader handles %d fields, writer %d' % (len(reader), len(fields))); continue
        names = [x['name'] for x in fields]
        bad = []
        if len(set(names)) != len(names):
            bad.append(('duplicate-name:%s' % sname, {'names': names}))
        for x, rd in zip(fields, reader):
            checked_fields += 1
            if x['name'] not in accepted:
                bad.append(('field-name:%s.%s' % (sname, x['name']), {'accepted': sorted(accepted)}))
            if rd[0] == 'required' and rd[1] != x['name']:
                bad.append(('field-order-or-name:%s.%s' % (sname, x['name']), {'reader_expects': rd[1]}))
            if x['skipped'] is None:
                continue
            callee, idx, fty, when = x['skipped']
            if callee == 'unknown':
                run.inconclusive('skip condition of %s.%s' % (sname, x['name']), 'M', 'cannot find the predicate'); continue
            if rd[0] != 'default':
                bad.append(('skipped-but-required:%s.%s' % (sname, x['name']), {'predicate': callee}))
                continue
            # (b) predicate(v) => v == default
            t0 = time.time()
            try:
                v, pred, dflt = model_field(prog, enums, callee, fty, rd[1])
            except mir.Unsupported as e:
                run.inconclusive('skip predicate of %s.%s' % (sname, x['name']), 'M', str(e)); continue
            s = z3.Solver()
            s.add(pred if when else z3.Not(pred))
            s.add(v != dflt)
            r = s.check(); nq += 1; tz += time.time() - t0
            if r == z3.sat:
                bad.append(('skip-nondefault:%s.%s' % (sname, x['name']), {'predicate': callee, 'value': str(s.model().eval(v, True)), 'reader_default': str(dflt)}))
            elif r != z3.unsat:
                run.inconclusive('skip predicate of %s.%s' % (sname, x['name']), 'M', 'z3 unknown')
        run.sample({'struct': sname, 'fields': [{'name': x['name'], 'skip_if': (x['skipped'][0] if x['skipped'] else None), 'reader': rd[0]} for x, rd in zip(fields, reader)]})
        if bad:
            nat = native_rt()
            lossy = [k for k, v in nat.items() if isinstance(v, dict) and v.get('ast') and not v.get('equal')]
            for key, w in bad:
                # a finding about a doc field is confirmed by the file whose only peculiarity is text-less doc comments
                conf = ('e.aidl' in lossy) if key.endswith('.doc') else bool(lossy)
                run.violated('writer and reader of %s are consistent' % sname, 'M', key, dict(w, native_lossy_files=lossy, native=nat), conf, solver_s=tz, queries=max(1, nq))
        else:
            run.holds('struct %s: every skipped field is defaulted by the reader at exactly the skipped value; names agree (%d fields)' % (sname, len(fields)), 'M', queries=max(1, len(fields)))
    # (e) present fields go through the field type's own Serialize / Deserialize impl: a per-field codec (`with`, `serialize_with`,
    #     `deserialize_with`) or a container conversion (`from`, `try_from`, `into`) is code the obligations above do not see
    # (the derive nests `impl Deserialize for __DeserializeWith` inside visit_map / visit_seq and `impl Serialize for __SerializeWith` inside serialize)
    hooks = sorted({f.name for f in prog.fns if re.search(r'__DeserializeWith|__SerializeWith|::visit_(map|seq)::<impl at [^>]*>::deserialize$|::serialize::<impl at [^>]*>::serialize$', f.name)})
    conv = sorted({f.name for f in prog.fns if re.search(r'ast::_::<impl at [^>]*>::(serialize|deserialize)$', f.name)
                   and any(re.search(r'as (TryFrom|From|Into|TryInto)<', st) for sts in f.blocks.values() for st in sts)})
    title = 'every present field is written and read by its own type\'s serde impl (no per-field codec or container conversion between writer and reader)'
    if hooks or conv:
        nat = native_rt()
        lossy = [k for k, v in nat.items() if isinstance(v, dict) and v.get('ast') and not v.get('equal')]
        plain = [k for k in lossy if k in ('b.aidl', 'c.aidl', 'e.aidl', 'f.aidl')]
        run.violated(title, 'M', 'field-codec:' + re.sub(r'.*::', '', (hooks + conv)[0])[:40], {'adaptors': (hooks + conv)[:4], 'native_lossy_files': lossy, 'native': {k: nat[k] for k in plain[:1]}}, bool(plain),
                     detail='adaptor %s sits between writer and reader' % (hooks + conv)[0][-80:])
    else:
        run.holds(title, 'M', queries=len(ser), bound='all %d derive-generated writers and their readers' % len(ser))
    run.states += checked_fields
    run.transitions += nq
    nat = native_rt()
    lossy = [k for k, v in nat.items() if isinstance(v, dict) and v.get('ast') and not v.get('equal')]
    run.extra['native_roundtrip'] = nat
    if lossy and not any(o.status in ('violated', 'inconclusive') for o in run.obls):
        run.inconclusive('native round trip', 'replay', 'files %s do not survive RON although every attribute obligation holds' % lossy)


def model_field(prog, enums, callee, fty, default_ty):
    """-> (value term, predicate term, default term)"""
    t = mir.norm_ty(fty)
    if t == 'bool':
        v = z3.Bool('v')
        dflt = z3.BoolVal(False)
        if re.search(r'BoolExt>::\w+$|BoolExt::\w+$', callee) or 'ast::' in callee:
            fn = prog.find(callee.split('::')[-1], '&bool')
            it = mir.Interp(prog)
            paths = it.run(fn, [v])
            pred = z3.Or([z3.And(p.pc + [p.result]) if p.pc else p.result for p in paths])
            return v, pred, dflt
        raise mir.Unsupported('bool predicate ' + callee)
    if t.startswith('Option<'):
        v = z3.Int('v_disc')          # 0 = None, 1 = Some
        if callee.endswith('::is_none'):
            return v, z3.And(v == 0), z3.IntVal(0)
        if callee.endswith('::is_some'):
            return v, z3.And(v == 1), z3.IntVal(0)
        # a predicate of the crate over Option<String>: executed from its MIR (engine T) on None and on Some(arbitrary text)
        import tmir
        structs, enums2 = mir.layouts()
        cands = [g for g in prog.fns if g.name.split('::')[-1] == callee.split('::')[-1] and len(g.params) == 1 and 'Option' in g.params[0][1] and '::verif' not in g.name]
        if len(cands) != 1 or 'String' not in t:
            raise mir.Unsupported('Option predicate ' + callee)
        ex = tmir.Exec(prog, enums2, structs)
        payload = z3.String('v_payload')
        cases = []
        for disc, val in ((0, ('enum', 'Option', 'None', [])), (1, ('enum', 'Option', 'Some', [payload]))):
            for s2, ret in ex.run_fn(cands[0], [val], tmir.State()):
                if not z3.is_expr(ret):
                    raise mir.Unsupported('Option predicate %s returns %r' % (callee, ret))
                cases.append(z3.And([v == disc] + list(s2.pc) + [ret]))
        return v, z3.Or(cases), z3.IntVal(0)
    if t.startswith('Vec<') or t.startswith('HashMap<'):
        v = z3.Int('v_len')
        if callee.endswith('::is_empty'):
            s = z3.And(v == 0)
            return v, s, z3.IntVal(0)
        raise mir.Unsupported('container predicate ' + callee)
    if t in enums:
        v = mir.Obj('v')
        it = mir.Interp(prog)
        fn = prog.find(callee.split('::')[-1], '&' + t)
        paths = it.run(fn, [v])
        disc = it.ctx.disc(v)
        pred = z3.Or([z3.And(p.pc + [p.result]) for p in paths])
        dfn = [g for g in prog.fns if g.name.endswith('::default') and mir.norm_ty(g.ret) == t and not g.params]
        if len(dfn) != 1:
            raise mir.Unsupported('Default impl of %s: %d candidates' % (t, len(dfn)))
        dp = mir.Interp(prog).run(dfn[0], [])
        if len(dp) != 1 or not (isinstance(dp[0].result, tuple) and dp[0].result[0] == 'variant'):
            raise mir.Unsupported('Default impl of %s is not a unit variant' % t)
        dv = dp[0].result[1].split('::')[-1]
        return disc, z3.And(pred, disc >= 0, disc < len(enums[t])), z3.IntVal(enums[t].index(dv))
    raise mir.Unsupported('field type ' + t)
