"""C03 -- syntax verdicts agree with the grammar; failure is never silent.

Engine P (LALR tables of the current grammar + validated driver model, path-forking symbolic execution) with one z3 query per path:
the parser's verdict is constant on a path's box of token assignments; z3 decides, with a bounded CYK encoding of an independent
reference grammar (lib/refgrammar.py, written from the property text), whether the box contains an assignment on which the reference
disagrees.  Slots: whole token sequences and symbolic windows inside well-formed frames.
Engine L: keywords / reserved words never lex as IDENT, every other identifier-shaped word does (z3 regular expressions, unbounded).
Engine M: every unrecovered or recovered parse error becomes an Error diagnostic (from_parse_error MIR), the four `!` actions push it.
"""
import multiprocessing as mp
import re
import time

import z3

import lexl
import lrdriver
import mir
import pengine
import refgrammar
import replay
import tables
from common import NCPU, src_line

LEVEL = 'model_checking'
_T = None
_SOLVERS = {}


def slots(T):
    S = lambda *xs: pengine.S(T, *xs)
    head = S('PACKAGE', 'IDENT', '";"')
    return {
        'whole': ([], []),
        'after_package': (head, []),
        'header': (head, S('INTERFACE', 'IDENT', '"{"', '"}"')),
        'trailing': (head + S('INTERFACE', 'IDENT', '"{"', '"}"'), []),
        'trailing_parcelable': (head + S('PARCELABLE', 'IDENT', '"{"', '"}"'), []),
        'trailing_enum': (head + S('ENUM', 'IDENT', '"{"', 'IDENT', '"}"'), []),
        'iface_body': (head + S('INTERFACE', 'IDENT', '"{"'), S('"}"')),
        'parc_body': (head + S('PARCELABLE', 'IDENT', '"{"'), S('"}"')),
        'enum_body': (head + S('ENUM', 'IDENT', '"{"'), S('"}"')),
        'args': (head + S('INTERFACE', 'IDENT', '"{"', 'VOID', 'IDENT', '"("'), S('")"', '";"', '"}"')),
        'after_type': (head + S('INTERFACE', 'IDENT', '"{"', 'PRIMITIVE'), S('";"', '"}"')),
        'field_value': (head + S('PARCELABLE', 'IDENT', '"{"', 'PRIMITIVE', 'IDENT', '"="'), S('";"', '"}"')),
        'const_value': (head + S('INTERFACE', 'IDENT', '"{"', 'CONST', 'PRIMITIVE', 'IDENT', '"="'), S('";"', '"}"')),
        'annotation_params': (head + S('ANNOTATION', '"("'), S('")"', 'INTERFACE', 'IDENT', '"{"', '"}"')),
        'type_params': (head + S('INTERFACE', 'IDENT', '"{"', 'LIST', '"<"'), S('">"', 'IDENT', '"("', '")"', '";"', '"}"')),
        'package_name': (S('PACKAGE'), S('";"', 'ENUM', 'IDENT', '"{"', '"}"')),
        'import_path': (head + S('IMPORT'), S('";"', 'ENUM', 'IDENT', '"{"', '"}"')),
    }


def _solver(slot, k):
    key = (slot, k)
    if key in _SOLVERS:
        return _SOLVERS[key]
    T = _T
    pre, suf = slots(T)[slot]
    cyk = refgrammar.Cyk(T.tix)
    s = z3.SolverFor('QF_BV')
    wv = [z3.BitVec('w%d' % i, 6) for i in range(k)]
    toks = [z3.BitVecVal(t, 6) for t in pre] + wv + [z3.BitVecVal(t, 6) for t in suf]
    ref = cyk.formula(s, toks, 'Aidl')
    _SOLVERS[key] = (s, wv, ref)
    return _SOLVERS[key]


def work(args):
    slot, k, first = args
    T = _T
    pre, suf = slots(T)[slot]
    dom = set(range(T.nterm - 1))
    s, wv, ref = _solver(slot, k)
    st = {'paths': 0, 'accepting': 0, 'queries': 0, 'tz': 0.0, 'disagree': [], 'silent': [], 'trans': 0, 'box': 0}

    def mk():
        win = [set(dom) for _ in range(k)]
        if first is not None:
            win[0] = {first}
        return pre + win + suf

    def on_path(doms, res):
        ok, errors, trace = res
        verdict = bool(ok and not errors)
        tree = bool(ok and not pengine.item_dropped(T, trace))
        st['paths'] += 1
        st['accepting'] += verdict
        st['trans'] += len(trace)
        card = 1
        for d in doms[len(pre):len(pre) + k]:
            card *= len(d)
        st['box'] += card
        if not tree and not errors:
            st['silent'].append([sorted(d)[0] for d in doms[len(pre):len(pre) + k]])
        t1 = time.time()
        s.push()
        for i in range(k):
            dd = doms[len(pre) + i]
            if len(dd) < len(dom):
                s.add(z3.Or([wv[i] == z3.BitVecVal(t, 6) for t in sorted(dd)]))
        s.add(ref != z3.BoolVal(verdict))
        r = s.check()
        st['queries'] += 1
        if r == z3.sat:
            m = s.model()
            if len(st['disagree']) < 20:
                st['disagree'].append(([m.eval(w, True).as_long() for w in wv], verdict))
        elif r != z3.unsat:
            st['unknown'] = True
        s.pop()
        st['tz'] += time.time() - t1
    lrdriver.explore(T, mk, on_path)
    return slot, k, first, st


def _init(T):
    global _T
    _T = T


def plan(T, tier):
    """(slot, kmax) per tier; windows of length >= 4 are split on the first token's domain across the workers."""
    if tier == 'quick':
        km = {'whole': 4, 'after_package': 4, 'header': 4, 'trailing': 3, 'trailing_parcelable': 3, 'trailing_enum': 3, 'iface_body': 4, 'parc_body': 4, 'enum_body': 5, 'args': 4, 'after_type': 4,
              'field_value': 4, 'const_value': 4, 'annotation_params': 4, 'type_params': 4, 'package_name': 4, 'import_path': 4}
    else:
        km = {'whole': 5, 'after_package': 5, 'header': 5, 'trailing': 4, 'trailing_parcelable': 4, 'trailing_enum': 4, 'iface_body': 5, 'parc_body': 5, 'enum_body': 6, 'args': 5, 'after_type': 5,
              'field_value': 5, 'const_value': 5, 'annotation_params': 5, 'type_params': 5, 'package_name': 5, 'import_path': 5}
    jobs = []
    for slot, kmax in km.items():
        for k in range(0, kmax + 1):
            if k >= 4:
                jobs += [(slot, k, t) for t in range(T.nterm - 1)]
            else:
                jobs.append((slot, k, None))
    # big jobs first
    jobs.sort(key=lambda j: -j[1])
    return km, jobs


def _check_main(run):
    global _T
    T = pengine.load()
    _T = T
    gen = replay.generated_parser()
    run.functions += ['LALR tables generated from src/aidl.lalrpop (mod __parse__OptAidl: __ACTION %dx%d, __EOF_ACTION, __goto, __simulate_reduce; %d productions)' % (T.nstates, T.nterm, len(T.prod)),
                      'lexer table __intern_token of the generated parser (37 patterns)', 'Diagnostic::from_parse_error / from_error_recovery (%s)' % src_line('src/diagnostic.rs', 'fn from_parse_error'),
                      'the four `! =>?` actions (%s)' % src_line('src/aidl.lalrpop', '! =>?')]
    run.outside += ['lexing other than whole tokens (maximal munch across token boundaries, unterminated strings/comments, non-ASCII characters)',
                    '"no stored identifier is a keyword" follows from the token-level result only under the assumption that names are copied from IDENT tokens (C02, not decided)',
                    'windows longer than the stated bound per slot; slots other than those listed']
    run.assumptions += ['driver model of lalrpop_util 0.19.8 validated against the real parser on random token strings and on every witness',
                        'reference grammar lib/refgrammar.py transcribes the language the property describes']
    run.extra['explanation'] = ('Real LALR tables + validated driver model explored path by path; z3 compares each path box with a CYK encoding of an independent reference grammar; '
                                'z3 regular expressions for the lexer table; MIR dataflow for error -> diagnostic.')

    seqs = pengine.random_sequences(T, 2000 + run.seed, 600 if run.tier == 'quick' else 3000)
    ncmp, bad = pengine.validate_model(T, seqs)
    run.validated += ncmp
    if bad:
        run.inconclusive('driver model vs real parser', 'P', 'model disagrees with the real parser: %s' % str(bad[0])[:400])
        return

    km, jobs = plan(T, run.tier)
    run.bounds += ['slot %s: every window of 0..%d terminals over all %d terminals' % (s, k, T.nterm - 1) for s, k in km.items()]
    agg = {}
    t0 = time.time()
    with mp.Pool(min(NCPU, 15), initializer=_init, initargs=(T,)) as pool:
        for slot, k, first, st in pool.imap_unordered(work, jobs, chunksize=1):
            a = agg.setdefault((slot, k), {'paths': 0, 'accepting': 0, 'queries': 0, 'tz': 0.0, 'disagree': [], 'silent': [], 'trans': 0, 'box': 0})
            for key in ('paths', 'accepting', 'queries', 'tz', 'trans', 'box'):
                a[key] += st[key]
            a['disagree'] += st['disagree']
            a['silent'] += st['silent']
            if st.get('unknown'):
                a['unknown'] = True
    run.extra['exploration_wall_s'] = round(time.time() - t0, 1)
    run.states += sum(a['paths'] for a in agg.values())
    run.transitions += sum(a['trans'] for a in agg.values())
    run.extra['token_assignments_covered'] = sum(a['box'] for a in agg.values())
    SL = slots(T)
    table = []
    for slot in km:
        rows = [{'k': k, 'paths': agg[(slot, k)]['paths'], 'accepting_paths': agg[(slot, k)]['accepting'], 'z3_queries': agg[(slot, k)]['queries'], 'z3_s': round(agg[(slot, k)]['tz'], 1)}
                for k in range(0, km[slot] + 1)]
        table.append({'slot': slot, 'frame': tables.render(T, SL[slot][0]) + ' <W> ' + tables.render(T, SL[slot][1]), 'windows': rows})
    run.extra['slots'] = table
    run.sample(table[4])
    for slot in km:
        dis, sil, unk = [], [], False
        nq, tz, npaths = 0, 0.0, 0
        for k in range(0, km[slot] + 1):
            a = agg[(slot, k)]
            dis += [(k, w, v) for (w, v) in a['disagree']]
            sil += [(k, w) for w in a['silent']]
            unk = unk or a.get('unknown', False)
            nq += a['queries']; tz += a['tz']; npaths += a['paths']
        pre, suf = SL[slot]
        if unk:
            run.inconclusive('slot %s' % slot, 'P', 'z3 returned unknown on some path')
        if dis:
            seqs = [pre + w + suf for (k, w, v) in dis[:6]]
            nat = pengine.native_run(T, seqs)
            run.validated += len(nat)
            cyk = refgrammar.Cyk(T.tix)
            wit, rep = [], False
            for (k, w, v), nr, toks in zip(dis[:6], nat, seqs):
                refv = cyk.derives_concrete('Aidl', [T.terms[t] for t in toks])
                natv = nr['ast'] and not nr['errors']
                wit.append({'text': nr['text'], 'parser_clean': natv, 'reference_wellformed': refv, 'messages': nr['messages'][:2]})
                if natv != refv:
                    rep = True
            kind = 'accepts-malformed' if any(x['parser_clean'] and not x['reference_wellformed'] for x in wit) else 'rejects-wellformed'
            run.violated('slot %s: parser verdict = reference grammar verdict' % slot, 'P', '%s:%s:%s' % (kind, slot, ' '.join(T.terms[t] for t in dis[0][1])), {'examples': wit}, rep,
                         solver_s=tz, queries=nq, bound='windows 0..%d' % km[slot])
        else:
            run.holds('slot %s: on all %d paths the parser reports no syntax error exactly when the reference grammar derives the document' % (slot, npaths), 'P',
                      solver_s=tz, queries=nq, bound='windows 0..%d' % km[slot])
        if sil:
            seqs = [pre + w + suf for (k, w) in sil[:3]]
            nat = pengine.native_run(T, seqs)
            rep = any((not nr['ast']) and not nr['errors'] for nr in nat)
            run.violated('slot %s: a result without a tree carries an Error' % slot, 'P', 'silent-no-tree:%s' % slot, {'examples': [nr['text'] for nr in nat]}, rep)
    run.holds('every path without a tree carries at least one error event (all slots)', 'P', queries=run.states) if not any(a['silent'] for a in agg.values()) else None

    # --- L
    obs, pats = lexl.obligations(gen)
    for name, status, wit, secs in obs:
        if status == 'holds':
            run.holds(name, 'L', solver_s=secs, bound='unbounded word length')
        elif status == 'violated':
            # native: the word used as an interface name
            kw = wit in lexl.REF_KEYWORDS or wit in lexl.REF_RESERVED
            r = replay.project({'a.aidl': 'package p; interface %s { }' % wit})
            fr = r['files']['a.aidl']['parse'] if 'files' in r else None
            clean = bool(fr and fr['ast'] and not fr['diags'])
            rep = clean if kw else not clean
            run.violated(name, 'L', ('keyword-as-ident:' if kw else 'ident-rejected:') + str(wit), {'word': wit, 'native_clean': clean}, rep, solver_s=secs)
        else:
            run.inconclusive(name, 'L', str(wit))

    # --- M: error => diagnostic, recovery actions push it
    try:
        prog = mir.Program(mir.dump_mir())
        ok, detail, nq = from_parse_error_total(prog)
        import native
        nn, nbad = native.sweep_error_tokens()
        run.validated += nn
        if ok:
            run.holds('every non-User parse error becomes Some(Error diagnostic) (from_parse_error, all variants)', 'M', queries=nq)
            if nbad:
                run.inconclusive('native sweep of long / multi-byte offending tokens', 'replay', 'discrepancy not explained by a solver verdict: %s' % str(nbad[0])[:300])
        else:
            run.violated('parse error becomes an Error diagnostic', 'M', 'from_parse_error:' + detail[0][:60], {'detail': detail, 'native': nbad[:2]}, bool(nbad), queries=nq)
    except mir.Unsupported as e:
        run.inconclusive('from_parse_error', 'M', str(e))
    src = open(gen).read()
    acts = re.findall(r'if let Some\(d\) = Diagnostic::from_error_recovery\("([^"]*)", lookup, __0\) \{\s*diagnostics\.push\(d\);\s*\}\s*Ok\(None\)', src)
    nrec = len(pengine.error_prods(T))
    if len(acts) >= nrec and nrec >= 1:
        run.assumptions.append('syntactic check (not a solver verdict): all %d `!` actions have the shape `if let Some(d) = from_error_recovery(..) { diagnostics.push(d) } Ok(None)`' % nrec)
    else:
        run.inconclusive('shape of the `!` actions', 'A', '%d of %d recovery actions have the expected shape' % (len(acts), nrec))


def from_parse_error_total(prog):
    import z3 as _z
    fpe = [x for x in prog.fns if x.name.endswith('::from_parse_error') and '::verif::' not in x.name]
    if len(fpe) != 1:
        raise mir.Unsupported('from_parse_error: %d candidates' % len(fpe))
    it = mir.Interp(prog, opaque=[r'record_expected$', r'Range::new$', r'Vec::<.*>::new$', r'expected_token_str$'])
    base = it.call

    def call2(fname, args, env, pc, calls):
        if fname.endswith('<Vec<String> as Deref>::deref'):
            return [(pc, it.operand(args[0], env))]
        return base(fname, args, env, pc, calls)
    it.call = call2
    e = mir.Obj('e')
    paths = it.run(fpe[0], [mir.Obj('lookup'), e])
    structs, enums = mir.layouts()
    fields = structs.get('Diagnostic', [])
    detail, nq = [], 0
    variants = {0: 'InvalidToken', 1: 'UnrecognizedEOF', 2: 'UnrecognizedToken', 3: 'ExtraToken', 4: 'User'}
    for p in paths:
        if isinstance(p.result, tuple) and p.result[0] == 'panic':
            detail.append('panic path'); continue
        if p.result == ('none',):
            s = _z.Solver(); s.add(*p.pc); s.add(it.ctx.disc(e) != 4, it.ctx.disc(e) >= 0, it.ctx.disc(e) <= 4); nq += 1
            if s.check() != _z.unsat:
                detail.append('None returned for a non-User variant')
            continue
        if not (p.result[0] == 'some' and p.result[1][0] == 'struct'):
            raise mir.Unsupported('from_parse_error result')
        d = dict(zip(fields, p.result[1][2]))
        if d.get('kind') != ('variant', 'DiagnosticKind::Error'):
            detail.append('kind %r' % (d.get('kind'),))
        rg = d.get('range')
        if not (isinstance(rg, tuple) and rg[0] == 'call' and rg[1].endswith('Range::new')):
            detail.append('range is not built by Range::new')
    return (not detail), detail, nq + len(paths)



def check(run):
    _check_main(run)
    import mirror
    mirror.silent_recovery_obligation(run)
