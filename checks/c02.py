"""C02 -- well-formed documents yield a tree that mirrors the source, whatever the layout (partial).

The parser is never executed symbolically.  The claim is decomposed along the generated code instead:
  LAYOUT (engine L, lib/layout.py)   the generated lexer's pattern table as z3 regular expressions: no token pattern matches a
      word that starts like trivia, no token can be extended across a trivia boundary, comments end where they should and accept
      arbitrary text  =>  the sequence of (token kind, token text) does not depend on the white space / comments between tokens;
  CONTENT (engine A + lib/content.py) every user action of the grammar (`__actionN`, 202 productions) is executed symbolically from
      its MIR on symbolic token texts, child nodes and positions; lib/mirror.py decides per production and path: every content-carrying
      child is used exactly once, verbatim, in source order, in the field the statement names; positions reach only ranges and the
      documentation look-up; direction / oneway / transact-code constants; qualified-name strings by z3;
  the LR driver consumes token kinds only (engine P's validated model) and which production fires is C03's subject.
By induction over the derivation, the tree is the mirror of the token sequence, and that sequence is layout-independent.
Native: reference trees of three documents using every construct, under 8 layouts (incl. no space at all but `/**/`)."""
import time

import mir
import layout
import mirror
import native
import replay
from common import src_line

LEVEL = 'model_checking'


def role_of(key):
    if key.startswith('dropped:Value<-'):
        return 'dropped:Value<-array-elements'
    return key


def reference_strip(text):
    """trivia removed the way the statement describes it: `//` to the end of the line, `/*` to the FIRST `*/`; strings untouched"""
    out, k = [], 0
    while k < len(text):
        if text.startswith('//', k):
            e = k
            while e < len(text) and text[e] not in '\n\r':
                e += 1
            out.append(' '); k = e; continue
        if text.startswith('/*', k):
            e = text.find('*/', k + 2)
            if e < 0:
                out.append(text[k:]); break
            out.append(' '); k = e + 2; continue
        if text[k] == '"':
            e = text.find('"', k + 1)
            e = len(text) - 1 if e < 0 else e
            out.append(text[k:e + 1]); k = e + 1; continue
        out.append(text[k]); k += 1
    return ''.join(out)


def native_layout_witness(word):
    """a solver witness placed between two statements: the real parser must treat it exactly like its reference-stripped form"""
    if not word:
        return None
    doc = 'package p;\n' + word + '\ninterface I { void f(); }\n'
    a = replay.project({'w.aidl': doc})
    b = replay.project({'w.aidl': reference_strip(doc)})
    try:
        fa, fb = a['files']['w.aidl']['parse'], b['files']['w.aidl']['parse']
        sa = (native.strip_positions(fa['ast']) if fa['ast'] else None, len(fa['diags']))
        sb = (native.strip_positions(fb['ast']) if fb['ast'] else None, len(fb['diags']))
        return {'document': doc, 'differs': sa != sb, 'with_witness': str(sa)[:120], 'reference': str(sb)[:120]}
    except (KeyError, TypeError):
        return {'document': doc, 'differs': False, 'error': str(a)[:100]}


def check(run):
    gen = replay.generated_parser()
    prog = mir.Program(mir.dump_mir())
    run.functions += ['generated lexer table __intern_token (37 patterns) of OUT_DIR/aidl.rs', 'every user action rules::aidl::__actionN of the grammar (MIR), from src/aidl.lalrpop',
                      'ast::Type::simple_type / array / list / non_generic_list / map / non_generic_map (%s)' % src_line('src/ast.rs', 'pub(crate) fn simple_type')]
    run.bounds += ['token texts, child nodes, positions: unconstrained (strings / opaque nodes / integers); lists abstract (any length)',
                   'qualified names: 1..3 identifiers of arbitrary text (z3 strings)', 'lexer words: unbounded (z3 regular expressions)']
    run.outside += ['which production the LR automaton reduces for a token sequence (C03: verdicts agree with the reference grammar on bounded windows; tree SHAPE agreement is not re-derived here)',
                    'the regex crate executing the generated patterns as written, and longest-match / priority as implemented by lalrpop_util (trusted; whole-token behaviour is C03 engine L)',
                    'layouts with NO separator between two tokens (the statement\'s "or no separator where the lexer does not need one") - only natively, with `/**/`',
                    'annotations written on a forward-declared parcelable are not kept (the statement lists forward declarations by name and order only)',
                    'annotation parameters are kept as a key -> value map: the order of parameters and repeated keys (`@A(k=1, k=2)`) are not part of what is compared',
                    'attached documentation (C18) and positions (C04)']
    run.assumptions += ['std: to_owned / to_string / into / clone are identity on text; Vec::push appends; vec![..] / Vec::from keep order; into_iter().flatten().collect() keeps the Some elements in order; '
                        '[&str]::join and format! concatenate; str::rsplit_once splits at the last occurrence',
                        'a nonterminal\'s value is used as an opaque node by its parent (induction over the derivation)']
    run.extra['explanation'] = 'z3 regular expressions over the generated lexer table (layout independence of the token sequence) + symbolic execution of every grammar action from MIR with mirror obligations (linearity, verbatim, order, fields, positions, constants, z3 strings for qualified names).'
    nat = None

    def native_bad():
        nonlocal nat
        if nat is None:
            nat = native.sweep_c02()
        return nat
    # LAYOUT
    try:
        for name, status, wit, secs, nq in layout.obligations(gen):
            if status == 'holds':
                run.holds(name, 'L', queries=max(1, nq), solver_s=secs, bound='unbounded words')
            elif status == 'violated':
                n, bad = native_bad()
                lb = [b for b in bad if b.get('hint') == 'layout']
                wn = native_layout_witness((wit or {}).get('word'))
                run.violated(name, 'L', 'layout:' + name[:2], {'solver': wit, 'native': lb[:1], 'native_witness': wn}, bool(lb) or bool(wn and wn.get('differs')), queries=nq, solver_s=secs, detail=str(wit)[:200])
            else:
                run.inconclusive(name, 'L', str(wit)[:300])
    except (ValueError, KeyError, IndexError) as e:
        run.inconclusive('lexer table translation', 'L', 'unsupported pattern syntax: %s' % e)
    # CONTENT
    t0 = time.time()
    try:
        An = mirror.Analysis(gen, prog)
    except (mir.Unsupported, RuntimeError) as e:
        run.inconclusive('symbolic evaluation of the grammar actions', 'A', str(e)); return
    run.states += len(An.results)
    run.extra['productions_evaluated'] = len(An.results)
    run.extra['std_models_used'] = sorted(An.E.used_models)
    if An.unsupported:
        run.inconclusive('symbolic evaluation of the grammar actions', 'A', '%d production(s) outside the supported shape: %s' % (len(An.unsupported), An.unsupported[0]))
    else:
        run.holds('every production\'s user action evaluates symbolically (%d productions, error productions excluded)' % len(An.results), 'A', queries=len(An.results), solver_s=time.time() - t0)
    for r in (100, 113, 175):
        if r in An.results:
            lhs, rhs, res = An.results[r]
            import content
            run.sample({'production': '%s = %s' % (lhs, ', '.join(rhs)), 'built': [content.show(v)[:300] for _c, v in res][:2]})
    parts = (('M1-M5: every content-carrying child is used exactly once, verbatim, in source order, in the field the statement names; positions reach only ranges and the documentation look-up', An.structural),
             ('M6: Direction variants follow the keyword (the unreachable arm is infeasible for every DIRECTION word: z3 regex), oneway flag = keyword present, transact code = the parsed INTEGER', An.constants),
             ('M8: Package / Type / Import / forward-declaration names are the identifiers joined with `.` resp. split at the last `.` (z3 strings, 1..3 identifiers)', An.names))
    for title, fn in parts:
        t0 = time.time()
        try:
            viol, n = fn()
        except (mir.Unsupported, KeyError, IndexError) as e:
            run.inconclusive(title, 'A', 'unsupported: %s' % e); continue
        run.transitions += n
        if not viol:
            run.holds(title, 'A', queries=max(1, n), solver_s=time.time() - t0, bound='all paths of all %d productions' % len(An.results))
            continue
        roles = {}
        for k, ws in viol.items():
            roles.setdefault(role_of(k), []).extend(ws)
        cnt, bad = native_bad()
        for role, ws in sorted(roles.items()):
            # a finding with a dedicated reference expectation is confirmed by that expectation only; anything else by a native discrepancy no finding explains
            hint = {'dropped:Value<-array-elements': 'dropped:Value<-Value+'}.get(role, role)
            dedicated = {'dropped:Value<-Value+', 'dropped:EnumElement<-OptAnnotation+'}
            if hint in dedicated:
                conf = [x for x in bad if x.get('hint') == hint]
            else:
                conf = [x for x in bad if x.get('hint') not in dedicated]
            run.violated(title, 'A', role, {'solver': ws[:2], 'native': conf[:1]}, bool(conf), queries=n, detail='%s (%d production paths)' % (role, len(ws)))
    cnt, bad = native_bad()
    run.validated += cnt
    run.extra['native_reference_trees'] = {'comparisons': cnt, 'discrepancies': len(bad)}
    dedicated = {'dropped:Value<-Value+': 'dropped:Value<-array-elements', 'dropped:EnumElement<-OptAnnotation+': 'dropped:EnumElement<-OptAnnotation+'}
    keys = {o.key for o in run.obls if o.status == 'violated'}
    # a reference expectation tied to a finding is explained by that finding's obligation only; every other discrepancy needs some other verdict
    other = [x for x in bad if x.get('hint') not in dedicated or dedicated[x.get('hint')] not in keys]
    explained = any(o.status == 'inconclusive' or (o.status == 'violated' and o.key not in dedicated.values()) for o in run.obls)
    if other and not explained:
        run.inconclusive('native reference trees / layouts', 'replay', 'native discrepancy not explained by a solver verdict: %s' % str(other[0])[:300])
