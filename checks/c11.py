"""C11 -- validation output is deterministic and ordered by position.

Two parts.  ORDER (below): the final sort.  HASH ORDER (hash_part): every place where the iteration order of a hash container
could reach the output is examined -
  (a) the key -> kind map is collected from the stored files in hash order; z3 decides whether two iteration orders of the same
      files can give different maps (last-wins collection: yes, when two files register one key with different kinds);
  (b) the choices `resolve_type` / `check_declared_parcelables` make among a file's imports: self-composition (engine T, the
      function executed twice on the same inputs with independent hash orders; z3 on every pair of paths with different outcomes);
  (c) diagnostics pushed while iterating a hash container have pairwise distinct statement ranges on every path, so the stable
      sort leaves no hash-dependent tie;
  (d) the per-file results are collected into a map keyed by the file's own id (no order), each tagged with that id.
Together with C12 (the state is a finite map id -> parse result) and C13 (a file's result is a function of its own stored
result and the key map) this covers repeated calls, new parsers, insertion orders and hash seeds.  Threads / processes add
nothing the crate can observe (no global state: C12).

Engine M.  From the MIR of validate's per-file closure of the current tree:
  (1) the key of the final sort on the file's diagnostics is translated and z3 decides, over unbounded integers, whether two
      diagnostics with (line, col)_1 <lex (line, col)_2 can have key_1 >= key_2.  UNSAT => the (stable) sort leaves the
      diagnostics in ascending start position whatever order the hash maps produced them in.
  (2) on every path of the closure that runs a validation step, the sort runs afterwards and nothing touches the diagnostic
      vector after it (CFG paths, feasibility of path conditions by z3).
A SAT model of (1) is realised as two diagnostics on one line and replayed natively (validate() repeated on fresh parsers).
"""
import re
import time

import z3

import mir
import replay
from common import src_line

LEVEL = 'model_checking'
TASK_CAP_S = 900      # wall-clock cap per self-composition task; exceeding it is inconclusive, never a verdict


def lex_lt(a, b):
    return z3.Or(a[0] < b[0], z3.And(a[0] == b[0], a[1] < b[1]))


def key_lt(k1, k2):
    """strict order of sort keys (ints or tuples of ints, lexicographic)."""
    if isinstance(k1, tuple) and k1[0] == 'tuple':
        a, b = k1[1], k2[1]
        if len(a) == 0:
            return z3.BoolVal(False)
        rest = key_lt(('tuple', a[1:]), ('tuple', b[1:])) if len(a) > 1 else z3.BoolVal(False)
        return z3.Or(key_lt(a[0], b[0]), z3.And(key_eq(a[0], b[0]), rest))
    return k1 < k2


def key_eq(k1, k2):
    if isinstance(k1, tuple) and k1[0] == 'tuple':
        return z3.And([key_eq(x, y) for x, y in zip(k1[1], k2[1])] or [z3.BoolVal(True)])
    return k1 == k2


def sort_part(run):
    prog = mir.Program(mir.dump_mir())
    structs, enums = mir.layouts()
    run.functions += ['validation::validate per-file closure (%s)' % src_line('src/validation.rs', '.map(|(id, mut fr)|'),
                      'sort key closure (%s)' % src_line('src/validation.rs', 'fr.diagnostics.sort')]
    run.bounds += ['positions: unbounded integers; closure CFG: all non-unwinding paths']
    run.outside += ['equality of trees and diagnostic *sets* across runs, threads and insertion orders (needs HashMap under the solver)',
                    'relative order of diagnostics that share a start position',
                    'that slice::sort_by_key is a correct stable sort (std)']
    run.assumptions += ['a key on `offset` is accepted under the assumption that offsets and (line, column) are co-monotone within a file']
    run.extra['explanation'] = 'Sort-key closure of validate translated from MIR; z3 decides that the key refines (line, column) order; CFG of the closure checked for sort-last.'

    cl = [f for f in prog.fns if re.search(r'(^|::)validate::\{closure#0\}$', f.name)]
    if len(cl) != 1:
        run.inconclusive('locate validate closure', 'M', '%d candidates' % len(cl)); return
    cl = cl[0]
    paths = mir.cfg_paths(cl)
    sorts = []
    for pc, ev in paths:
        for (bb, callee, args, dest) in ev:
            if re.search(r'<impl \[diagnostic::Diagnostic\]>::sort', callee) or re.search(r'Vec::<diagnostic::Diagnostic>::sort', callee):
                sorts.append((bb, callee, args))
    sorts = sorted(set(sorts))
    if len(sorts) != 1:
        # no sort at all => order is whatever the hash maps give: violation by construction of the claim; several => unsupported shape
        if not sorts:
            rep = native_two_orders()
            run.violated('diagnostics are sorted before being returned', 'M', 'no-final-sort', {'native': rep}, rep.get('distinct', 1) > 1,
                         detail='no sort call on the diagnostic vector in validate closure')
        else:
            run.inconclusive('final sort', 'M', 'several sort calls: %s' % sorts)
        return
    sbb, callee, args = sorts[0]
    m = re.search(r'(sort_by_key|sort_by_cached_key|sort_unstable_by_key|sort_by|sort_unstable_by|sort|sort_unstable)::<(.*)>$', callee)
    kind = m.group(1) if m else None
    unstable = kind in ('sort_unstable_by_key', 'sort_unstable_by', 'sort_unstable')
    if unstable:
        # an unstable sort may permute diagnostics with equal keys according to the input permutation, which is hash-order dependent;
        # two different diagnostics CAN share a start position (e.g. a raw `Map` argument: non-generic warning + missing direction)
        rep = native_ties()
        run.violated('the final sort is stable (diagnostics that share a start position keep one order)', 'M', 'unstable-final-sort',
                     {'sort_call': callee[:120], 'native': rep}, rep.get('distinct', 1) > 1, detail='the final sort is `%s`: equal keys are ordered by the hash-dependent input permutation' % kind)
        if kind != 'sort_unstable_by_key':
            return
        kind = 'sort_by_key'
    if kind not in ('sort_by_key', 'sort_by_cached_key'):
        run.inconclusive('final sort shape', 'M', 'unsupported sort form %s (supported: sort_by_key / sort_by_cached_key with a projection or tuple key)' % kind)
        return
    stable = True
    loc = re.search(r'\{closure@([^}]*)\}', callee).group(1)
    kc = [f for f in prog.fns if len(f.params) == 2 and ('{closure@%s}' % loc) in f.params[0][1]]
    if len(kc) != 1:
        run.inconclusive('locate key closure', 'M', '%d candidates for %s' % (len(kc), loc)); return
    kc = kc[0]
    ctx = mir.Ctx()
    it = mir.Interp(prog, ctx)
    d1, d2 = mir.Obj('d1'), mir.Obj('d2')
    p1 = it.run(kc, [mir.Obj('c'), d1])
    p2 = it.run(kc, [mir.Obj('c'), d2])
    if len(p1) != 1 or len(p2) != 1 or p1[0].pc or p2[0].pc:
        run.inconclusive('key closure', 'M', 'key closure is not a plain projection (%d paths)' % len(p1)); return
    k1, k2 = p1[0].result, p2[0].result

    def pos(d):
        ri = structs['Diagnostic'].index('range'); si = structs['Range'].index('start'); li = structs['Position'].index('line_col'); oi = structs['Position'].index('offset')
        base = '%s.%d.%d' % (d.path, ri, si)
        return (z3.Int('%s.%d.0' % (base, li)), z3.Int('%s.%d.1' % (base, li))), z3.Int('%s.%d' % (base, oi))
    (l1, o1), (l2, o2) = pos(d1), pos(d2)
    s = z3.Solver()
    for v in (l1[0], l1[1], l2[0], l2[1]):
        s.add(v >= 1)
    s.add(o1 >= 0, o2 >= 0)
    # co-monotonicity of offsets and (line, col) within one file
    s.add((o1 < o2) == lex_lt(l1, l2), (o1 == o2) == z3.And(l1[0] == l2[0], l1[1] == l2[1]))
    s.add(lex_lt(l1, l2))
    try:
        s.add(z3.Not(key_lt(k1, k2)))
    except Exception as e:
        run.inconclusive('key closure', 'M', 'key is not an integer / tuple of integers: %s' % e); return
    t0 = time.time(); r = s.check(); ts = time.time() - t0
    run.sample({'sort_call': callee[:160], 'key_of_d1': str(k1)})
    run.states += len(paths); run.transitions += sum(len(e) for _, e in paths)
    if r == z3.unsat:
        rep = native_two_orders()
        run.validated += 40
        run.extra['native_determinism'] = rep
        if rep.get('distinct') != 1 or rep.get('out_of_order'):
            run.inconclusive('native cross-check of the sort-key verdict', 'replay', 'solver says the key orders positions but the native run shows %s' % rep)
        run.holds('sort key refines (line, column) order: diagnostics at distinct start positions come out in ascending order for every hash order', 'M',
                  solver_s=ts, bound='unbounded integers')
    elif r == z3.sat:
        mdl = s.model()
        w = {'d1': [mdl.eval(l1[0], True).as_long(), mdl.eval(l1[1], True).as_long()], 'd2': [mdl.eval(l2[0], True).as_long(), mdl.eval(l2[1], True).as_long()],
             'key': str(k1)}
        same_line = w['d1'][0] == w['d2'][0]
        rep = native_two_orders()
        w['native'] = {k: rep.get(k) for k in ('distinct', 'out_of_order')}
        role = 'sort-key-ignores-column' if same_line else 'sort-key-misorders-lines'
        run.violated('sort key refines (line, column) order', 'M', role, w, bool(rep.get('distinct', 1) > 1 or rep.get('out_of_order')), solver_s=ts,
                     detail='two diagnostics at %s and %s get keys that do not order them' % (w['d1'], w['d2']), bound='unbounded integers')
    else:
        run.inconclusive('sort key query', 'M', 'solver returned unknown')

    # (2) sort is last and not bypassed
    bad = []
    nq = 0
    for pc, ev in paths:
        names = [c for (_, c, _, _) in ev]
        idx_sort = [i for i, c in enumerate(names) if 'sort' in c and 'Diagnostic' in c]
        idx_val = [i for i, c in enumerate(names) if re.match(r'^validation::\w+$', c)]
        if not idx_val:
            continue
        sv = z3.Solver(); sv.add(*pc); nq += 1
        if sv.check() != z3.sat:
            continue
        if not idx_sort or max(idx_val) > idx_sort[-1]:
            bad.append('validation step after/without the final sort: %s' % names)
        after = ev[idx_sort[-1] + 1:] if idx_sort else []
        for (_, c, a, _) in after:
            if c != '=' and ('Diagnostic' in c and ('push' in c or 'extend' in c or 'insert' in c or 'reverse' in c or 'swap' in c)):
                bad.append('diagnostic vector modified after the sort: ' + c)
    if bad:
        run.violated('final sort is the last operation on the diagnostics of every validated file', 'M', 'sort-not-last', {'detail': bad[:3]}, True, queries=nq)
    else:
        run.holds('on every feasible path that runs a validation step the sort runs afterwards and nothing modifies the vector after it', 'M', queries=nq,
                  bound='all %d CFG paths of the closure' % len(paths))


def native_two_orders():
    """Two unresolved imports on one line (+ two on separate lines): validate repeatedly, report distinct outputs and order violations."""
    files = {'a.aidl': 'package p;\nimport q.A; import q.B; import q.C; import q.D;\nimport q.E;\nimport q.F;\ninterface I { }\n'}
    r = replay.determinism(files, 40)
    one = replay.project(files)
    ooo = False
    try:
        ds = one['files']['a.aidl']['valid']['diags']
        pos = [(d['range'][2], d['range'][3]) for d in ds]
        ooo = pos != sorted(pos)
    except Exception:
        pass
    return {'distinct': r.get('distinct', 0), 'out_of_order': ooo, 'crash': r.get('crash')}


def native_ties():
    """> 20 diagnostics, several pairs sharing a start position, several hash-ordered warnings: validate repeatedly."""
    imports = ''.join('import q.U%d;\n' % k for k in range(30))
    methods = ''.join('  void m%d(Map a%d);\n' % (k, k) for k in range(12))
    files = {'a.aidl': 'package p;\n' + imports + 'interface I {\n' + methods + '}\n'}
    r = replay.determinism(files, 80)
    return {'distinct': r.get('distinct', 0), 'crash': r.get('crash')}


def native_ambiguous():
    """projects in which one file has two imports with the same simple name: validate repeatedly on fresh parsers"""
    out = {}
    for name, files in (('type', {'a.aidl': 'package p; import q.X; import r.X; interface A { void f(in X b); }', 'b1.aidl': 'package q; parcelable X { int x; }', 'b2.aidl': 'package r; interface X { void g(); }'}),
                        ('declared', {'a.aidl': 'package p; import q.X; import r.X; parcelable X; interface A { void f(in X b); }'}),
                        ('unimported', {'a.aidl': 'package p; interface A { void f(in X b, in zz.Y y); }', 'b1.aidl': 'package q; parcelable X { int x; }', 'b2.aidl': 'package r; interface X { void g(); }',
                                        'b3.aidl': 'package zz; parcelable Y { int x; }', 'b4.aidl': 'package p; enum X { A }'})):
        out[name] = replay.determinism(files, 60).get('distinct', 0)
    return out


def native_key_collision():
    files = {'a.aidl': 'package p; import p.B; interface A { void f(in B b); }', 'b1.aidl': 'package p; parcelable B { int x; }', 'b2.aidl': 'package p; interface B { void g(); }'}
    return replay.determinism(files, 60).get('distinct', 0)


def _choice_task(job):
    import nonint
    kind, cfg = job
    t0 = time.time()
    import tmir
    tmir.DEADLINE[0] = t0 + TASK_CAP_S
    try:
        if kind == 'resolve':
            r = nonint.choice_pair_resolve(_S, *cfg)
        elif kind == 'declared':
            r = nonint.choice_pair_declared(_S, *cfg)
        else:
            n, bad = nonint.hash_ordered_ranges(_S)
            r = (n, 0, [{'what': b} for b in bad])
        return kind, cfg, r, None, time.time() - t0
    except mir.Unsupported as e:
        return kind, cfg, (0, 0, []), str(e), time.time() - t0


_S = None


def hash_part(run):
    global _S
    import itertools
    import multiprocessing as mp
    import framecheck
    import travcheck as tc
    prog = mir.Program(mir.dump_mir())
    run.functions += ['Parser::collect_item_keys (%s)' % src_line('src/parser.rs', 'fn collect_item_keys'),
                      'validation::resolve_type (%s)' % src_line('src/validation.rs', 'fn resolve_type('),
                      'validation::check_declared_parcelables (%s)' % src_line('src/validation.rs', 'fn check_declared_parcelables'),
                      'validation::check_imports (%s)' % src_line('src/validation.rs', 'fn check_imports')]
    run.bounds += ['key-map collection: 2 and 3 stored files, every pair of iteration orders, keys and kinds unconstrained',
                   'hash-order choices: <= 2 imports (3 thorough), <= 2 forward declarations, unbounded strings']
    # (a) key map
    t0 = time.time()
    try:
        ok, n, bad = framecheck.collect_keys(prog)
        if not ok:
            raise mir.Unsupported('collect_item_keys has an unexpected shape: %s' % bad[0])
        nq, wit = 0, None
        for nfiles in (2, 3):
            has = [z3.Bool('has%d' % i) for i in range(nfiles)]
            key = [z3.Int('key%d' % i) for i in range(nfiles)]
            kind = [z3.Int('kind%d' % i) for i in range(nfiles)]
            k = z3.Int('k')

            def collected(order):
                e = z3.IntVal(-1)          # last entry in iteration order wins (HashMap::from_iter / extend)
                for i in order:
                    e = z3.If(z3.And(has[i], key[i] == k), kind[i], e)
                return e
            perms = list(itertools.permutations(range(nfiles)))
            for pa, pb in itertools.combinations(perms, 2):
                s = z3.Solver()
                s.add(*[z3.And(kd >= 0, kd <= 2) for kd in kind])
                s.add(collected(pa) != collected(pb))
                nq += 1
                if s.check() == z3.sat and wit is None:
                    m = s.model()
                    wit = {'files': [{'has_tree': bool(m.eval(has[i], True)), 'key': m.eval(key[i], True).as_long(), 'kind': m.eval(kind[i], True).as_long()} for i in range(nfiles)],
                           'order_a': pa, 'order_b': pb}
        if wit is None:
            run.holds('the key -> kind map does not depend on the hash order in which the stored files are visited', 'M', queries=nq, solver_s=time.time() - t0)
        else:
            d = native_key_collision()
            wit['native_distinct_outputs'] = d
            run.violated('the key -> kind map does not depend on the hash order in which the stored files are visited', 'M', 'item-key-collision:last-in-hash-order-wins', wit, d > 1,
                         queries=nq, solver_s=time.time() - t0, detail='two files with a tree register the same key with different kinds: the collected map keeps whichever is visited last')
    except mir.Unsupported as e:
        run.inconclusive('key map collection', 'M', str(e))
    # (d) per-file results keyed by id
    try:
        ok, detail = results_keyed_by_id(prog)
        if ok:
            run.holds('validate collects the per-file results into a map keyed by the file\'s own id, each tagged with that id (no order involved)', 'M', detail=detail)
        else:
            run.violated('validate collects the per-file results keyed by id', 'M', 'results-not-keyed-by-id', {'detail': detail}, native_two_orders().get('distinct', 1) > 1, detail=detail)
    except mir.Unsupported as e:
        run.inconclusive('result collection', 'M', str(e))
    # (e) nothing is carried from one file to the next: the per-file closure captures shared references only
    try:
        ok, detail = closure_is_stateless(prog)
        title = 'the per-file closure of validate captures shared references only (no state is carried from one file to the next, whatever order the files are visited in)'
        if ok:
            run.holds(title, 'M', detail=detail)
        else:
            d = native_duplicate_items()
            run.violated(title, 'M', 'per-file-closure-carries-state', {'detail': detail, 'native_distinct_outputs': d}, d > 1, detail=detail)
    except mir.Unsupported as e:
        run.inconclusive('captures of the per-file closure', 'M', str(e))
    # (b), (c)
    try:
        _S = tc.Setup()
    except (mir.Unsupported, RuntimeError) as e:
        run.inconclusive('engine T set-up', 'T', str(e)); return
    # (imports, forward declarations, registered keys): two imports exercise the choice among imports, two keys any look through the key map
    jobs = [('resolve', (2, 0, 1)), ('resolve', (2, 1, 1)), ('resolve', (0, 0, 2)), ('resolve', (1, 0, 2)), ('declared', (1, 2, 0)), ('declared', (2, 2, 1)), ('ranges', ())]
    if run.tier == 'thorough':
        jobs += [('resolve', (3, 0, 1)), ('resolve', (2, 0, 2)), ('declared', (2, 3, 1))]
    with mp.Pool(len(jobs)) as pool:
        res = pool.map(_choice_task, jobs)
    nat = None
    for kind, cfg, (pairs, nq, viol), err, secs in res:
        title = {'resolve': 'resolve_type gives the same classification and diagnostic texts whatever the iteration order of the import set and of the key map (%d imports, %d forward declarations, %d keys)',
                 'declared': 'check_declared_parcelables gives the same diagnostics whatever the iteration order of the import map (%d declarations, %d imports, %d resolved keys)',
                 'ranges': 'diagnostics pushed while iterating a hash container have pairwise distinct statement ranges on every path (no hash-dependent tie for the stable sort)'}[kind]
        title = title % cfg if cfg else title
        run.states += pairs
        if err:
            run.inconclusive(title, 'T', err)
        elif any(v['what'].startswith('solver returned unknown') for v in viol):
            run.inconclusive(title, 'T', 'solver returned unknown on a pair of paths')
        elif viol:
            if nat is None:
                nat = native_ambiguous()
            rep = {'resolve': nat['type'] > 1 or nat['unimported'] > 1, 'declared': nat['declared'] > 1, 'ranges': native_ties().get('distinct', 1) > 1}[kind]
            key = {'resolve': 'hash-order-choice:resolve_type', 'declared': 'hash-order-choice:check_declared_parcelables', 'ranges': 'hash-ordered-tie'}[kind]
            run.violated(title, 'T', key, {'solver': viol[:2], 'native_distinct_outputs': nat}, rep, queries=nq, solver_s=secs, detail=viol[0]['what'], bound='unbounded strings')
        else:
            run.holds(title, 'T', queries=max(1, nq), solver_s=secs, bound='unbounded strings; %d path pairs' % pairs)


def closure_is_stateless(prog):
    cl = [f for f in prog.fns if re.search(r'(^|::)validate::\{closure#0\}$', f.name)]
    if len(cl) != 1:
        raise mir.Unsupported('validate closure: %d candidates' % len(cl))
    # the closure is called through FnMut (map): its environment parameter is `&mut {closure}`; what matters is the type of each captured field
    txt = ' '.join(' '.join(b) for b in cl[0].blocks.values())
    caps = sorted(set(re.findall(r'\(\(\*_1\)\.(\d+): ([^)]*?)\)', txt)))
    bad = [(i, t) for i, t in caps if not t.startswith('&') or t.startswith('&mut')]
    outer = [f for f in prog.fns if re.search(r'(^|::)validation::validate$|^validate$', f.name) and '::verif' not in f.name]
    agg = None
    for b in outer[0].blocks.values():
        for st in b:
            m = re.search(r'= \{closure@[^}]*\} \{ (.*) \};', st)
            if m:
                agg = m.group(1)
    if agg and re.search(r'&mut ', agg):
        bad.append(('aggregate', agg[:80]))
    if bad:
        return False, 'captured by value or by unique reference: %s' % bad[:3]
    return True, '%d captured field(s), all shared references' % len(caps)


def native_duplicate_items():
    files = {'a.aidl': 'package p; interface X { void f(); }', 'b.aidl': 'package p; interface X { void f(); }', 'c.aidl': 'package p; interface X { void f(); }',
             'd.aidl': 'package p; import p.X; interface I { void g(in X x); }'}
    return replay.determinism(files, 60).get('distinct', 0)


def results_keyed_by_id(prog):
    outer = [f for f in prog.fns if re.search(r'(^|::)validation::validate$|^validate$', f.name) and '::verif' not in f.name]
    if len(outer) != 1:
        raise mir.Unsupported('validate: %d candidates' % len(outer))
    t = ' '.join(' '.join(b) for b in outer[0].blocks.values())
    if not (re.search(r'IntoIterator>::into_iter\(', t) and re.search(r'as Iterator>::map::<', t) and re.search(r'as Iterator>::collect::<(?:std::collections::)?HashMap<ID, ', t)):
        return False, 'validate is not into_iter().map(closure).collect::<HashMap<ID, _>>()'
    cl = [f for f in prog.fns if re.search(r'(^|::)validate::\{closure#0\}$', f.name)]
    paths = mir.cfg_paths(cl[0])
    n = 0
    for pc, ev in paths:
        s = z3.Solver(); s.add(*pc)
        if s.check() != z3.sat:
            continue
        n += 1
        defs = {}
        for (_b, c, a, d) in ev:
            defs[d] = (c, a)
        ret = defs.get('_0')
        if not ret or ret[0] != '=':
            return False, 'the closure does not return a tuple'
        m = re.search(r'_0 = \((?:move|copy) (_\d+), (?:move|copy) (_\d+)\)', ret[1])
        if not m:
            return False, 'the closure does not return (id, result): %s' % ret[1][:80]

        def origin(l, depth=0):
            c, a = defs.get(l, ('', ''))
            mm = re.search(r'= (?:move|copy) (_\d+)$', a) if c == '=' else None
            if mm and depth < 8:
                return origin(mm.group(1), depth + 1)
            return l, c, a
        kid = origin(m.group(1))
        # the key is the id that came in with the file: a field of the closure argument
        if not (re.search(r'\(_2\.0: ID\)', kid[2]) or kid[0] == '_2'):
            return False, 'the key of the result is not the id the file was stored under: %s' % kid[2][:80]
    return True, '%d feasible paths' % n


def check(run):
    sort_part(run)
    hash_part(run)
