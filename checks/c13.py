"""C13 -- a file's result depends only on its own text and the kinds of what it imports.

(1) Frame (engine M, CFG paths): the per-file closure of validation::validate captures nothing but a shared reference to the
    key -> kind map; that map flows only into resolve_types and check_imports; resolve_types hands it only to resolve_type; the
    key map itself is built from (Aidl::get_key, Item::get_kind) of every stored tree and nothing else.
(2) Non-interference by self-composition (engine T + z3 strings, lib/nonint.py): resolve_type and check_imports are executed
    twice on the same file-side inputs and two different key maps; z3 decides that two maps agreeing on every import of the
    file (registered? which kind?) cannot produce different outcomes.
(3) Item::get_kind is a function of the item's variant alone (engine M).
Native confirmation: perturbation sweep (10 result-preserving perturbations of the rest of a project, 4 negative controls)."""
import multiprocessing as mp
import re
import time

import mir
import framecheck
import native
import nonint
import pipeline
import travcheck as tc
from common import src_line

LEVEL = 'model_checking'
TASK_CAP_S = 900      # wall-clock cap per self-composition task; exceeding it is inconclusive, never a verdict
_S = None


def _task(job):
    kind, cfg = job
    t0 = time.time()
    import tmir
    tmir.DEADLINE[0] = t0 + TASK_CAP_S
    try:
        if kind == 'resolve':
            pairs, nq, viol = nonint.resolve_pair(_S, *cfg)
        else:
            pairs, nq, viol = nonint.imports_pair(_S, *cfg)
        return kind, cfg, pairs, nq, viol, None, time.time() - t0
    except mir.Unsupported as e:
        return kind, cfg, 0, 0, [], str(e), time.time() - t0


def get_kind_obligation(prog):
    f = prog.find('get_kind', '&Item')
    paths = mir.cfg_paths(f)
    vals = set()
    for pc, ev in paths:
        rets = [a for (_b, c, a, d) in ev if c == '=' and d == '_0']
        calls = [c for (_b, c, a, d) in ev if c != '=']
        if calls:
            return False, 'Item::get_kind calls %s' % calls[0][-40:]
        if len(rets) != 1 or not re.search(r'= (?:ast::)?ResolvedItemKind::\w+$', rets[0]):
            return False, 'Item::get_kind does not return a constant kind on every path: %s' % rets
        vals.add(rets[0].split('::')[-1])
    return vals == {'Interface', 'Parcelable', 'Enum'}, 'kinds returned: %s' % sorted(vals)


def check(run):
    global _S
    prog = mir.Program(mir.dump_mir())
    run.functions += ['validation::validate + per-file closure (%s)' % src_line('src/validation.rs', '.map(|(id, mut fr)|'),
                      'validation::resolve_types / resolve_type (%s)' % src_line('src/validation.rs', 'fn resolve_type('),
                      'validation::check_imports (%s)' % src_line('src/validation.rs', 'fn check_imports'),
                      'Parser::collect_item_keys (%s)' % src_line('src/parser.rs', 'fn collect_item_keys'),
                      'Item::get_kind (%s)' % src_line('src/ast.rs', 'fn get_kind')]
    quick = run.tier == 'quick'
    run.bounds += ['self-composition: resolve_type <= %d imports, check_imports <= 2 imports, <= 1 forward declaration, key maps of <= 2 entries each; names, import paths and keys are unbounded z3 strings' % (2 if quick else 3),
                   'frame facts: all non-unwinding CFG paths']
    run.outside += ['a file with two imports that match the same written name (the implementation picks one in hash order: decided under C11)',
                    'two files registering the same item key with different kinds (which kind the key map holds is hash order: decided under C11)',
                    'Aidl::get_key = package + "." + name is C17\'s subject',
                    'the checks that never receive the key map (containers, methods, forward declarations) depend on the file alone by the frame facts; their content is C06-C10']
    run.assumptions += ['std containers: find over a hash set returns any matching element; HashMap::get / contains_key are functional lookups',
                        'Import::get_qualified_name is an atomic string per import in the check_imports runs (C17)']
    run.extra['explanation'] = 'Information-flow facts from MIR CFG paths; 2-safety (non-interference) of resolve_type / check_imports by self-composition under engine T, z3 strings deciding every pair of paths with different outcomes.'
    nat = None

    def native_bad():
        nonlocal nat
        if nat is None:
            nat = native.sweep_c13()
        return nat
    # (1) frame
    for what, fn in (('the per-file closure captures only a shared reference to the key map, which flows only into resolve_types and check_imports', framecheck.validate_closure_flow),
                     ('resolve_types hands the key map only to resolve_type; check_imports / resolve_type only look keys up in it (get / contains_key)', framecheck.defined_uses),
                     ('the key map is values().flat_map(ast).map(|f| (f.get_key(), f.item.get_kind())).collect()', framecheck.collect_keys),
                     ('the import / forward-declaration sets handed to resolve_types are collected from the file\'s own statements (qualified names) and not touched afterwards; the import and '
                      'declaration checks receive the file\'s own statements, the resolved set and the import map of this file', pipeline.scope_facts),
                     ('no mutable global state in the crate (statics, thread-locals, interior mutability) outside the verif-hooks recorder', framecheck.no_globals)):
        t0 = time.time()
        try:
            ok, n, bad = fn(prog)
        except mir.Unsupported as e:
            run.inconclusive(what, 'M', str(e)); continue
        if ok:
            run.holds(what, 'M', queries=max(1, n), solver_s=time.time() - t0, bound='all feasible non-unwinding CFG paths')
        else:
            n_nat, nb = native_bad()
            run.violated(what, 'M', 'flow:' + fn.__name__, {'detail': bad[:3], 'native': nb[:1]}, bool(nb), detail=bad[0])
    try:
        ok, detail = get_kind_obligation(prog)
        if ok:
            run.holds('Item::get_kind is a constant per item variant (the kind registered for a file does not depend on the item\'s body)', 'M', detail=detail)
        else:
            n_nat, nb = native_bad()
            run.violated('Item::get_kind is a constant per item variant', 'M', 'flow:get_kind', {'detail': detail, 'native': nb[:1]}, bool(nb), detail=detail)
    except mir.Unsupported as e:
        run.inconclusive('Item::get_kind', 'M', str(e))
    # (2) self-composition
    try:
        _S = tc.Setup()
    except (mir.Unsupported, RuntimeError) as e:
        run.inconclusive('self-composition set-up', 'T', str(e)); return
    if quick:
        jobs = [('resolve', (1, 0, 1, 1)), ('resolve', (1, 1, 1, 1)), ('resolve', (2, 0, 1, 1)), ('resolve', (2, 0, 2, 1)), ('imports', (1, 0, 1, 1)), ('imports', (2, 1, 1, 2)), ('imports', (2, 1, 2, 2))]
    else:
        jobs = [('resolve', (1, 0, 1, 1)), ('resolve', (1, 1, 1, 2)), ('resolve', (2, 0, 1, 1)), ('resolve', (2, 0, 2, 2)), ('resolve', (2, 1, 2, 1)), ('resolve', (3, 0, 1, 1)),
                ('imports', (1, 0, 1, 1)), ('imports', (2, 1, 1, 2)), ('imports', (2, 1, 2, 2)), ('imports', (2, 2, 2, 2))]      # 3 imports: > 900 s of path pairs, not run
    with mp.Pool(min(len(jobs), 14)) as pool:
        res = pool.map(_task, jobs)
    for kind, cfg, pairs, nq, viol, err, secs in res:
        if kind == 'resolve':
            title = 'resolve_type: key maps (%d and %d entries) agreeing on each of the file\'s %d import(s) give the same classification (%d forward declaration(s))' % (cfg[2], cfg[3], cfg[0], cfg[1])
        else:
            title = 'check_imports: key maps (%d and %d entries) agreeing on which of the file\'s %d import(s) are registered give the same diagnostics (%d resolved key(s))' % (cfg[2], cfg[3], cfg[0], cfg[1])
        run.states += pairs
        run.transitions += nq
        if err:
            run.inconclusive(title, 'T', err)
        elif any(v['what'].startswith('solver returned unknown') for v in viol):
            run.inconclusive(title, 'T', 'solver returned unknown on a pair of paths')
        elif viol:
            n_nat, nb = native_bad()
            run.violated(title, 'T', 'interference:' + kind, {'solver': viol[:2], 'native': nb[:1]}, bool(nb), queries=nq, solver_s=secs, detail=viol[0]['what'], bound='unbounded strings')
        else:
            run.holds(title, 'T', queries=max(1, nq), solver_s=secs, bound='unbounded strings; %d path pairs' % pairs)
    n_nat, nb = native_bad()
    run.validated += n_nat
    run.extra['native_perturbation_sweep'] = {'cases': n_nat, 'discrepancies': len(nb)}
    if nb and not any(o.status in ('violated', 'inconclusive') for o in run.obls):
        run.inconclusive('native perturbation sweep', 'replay', 'native discrepancy not explained by a solver verdict: %s' % str(nb[0])[:400])
