"""C06 -- imports and forward declarations get exactly the diagnostics they deserve.

Engine T + z3 strings.  `check_imports` and `check_declared_parcelables` are executed symbolically from their MIR on lists of
n <= 2 (quick) / 3 imports resp. forward declarations whose path and name are unconstrained z3 strings, with small symbolic
`resolved` / `defined` / import-map collections.  The local HashMaps are modelled explicitly (entry / insert / get fork on key
equality); iteration over a HashMap yields its entries in EVERY order, `find` returns ANY matching entry - hash order is
quantified away.  For every path and every (statement, category) pair z3 decides
     present  =>  path condition implies the category's condition       (no undeserved diagnostic)
     absent   =>  path condition contradicts the category's condition   (no missing diagnostic)
with the conditions written from the property statement (first-occurrence semantics for repeats).
"""
import re
import time
import multiprocessing as mp

import z3

import mir
import native
import tmir
import travcheck as tc
from common import src_line

LEVEL = 'model_checking'
BUILTIN_Q = ['android.os.IBinder', 'java.os.FileDescriptor', 'android.os.ParcelFileDescriptor', 'android.os.ParcelableHolder']
_S = None


def qmodel(ex, args, st):
    """Import::get_qualified_name is replaced by an atomic string per statement (its own correctness is C17's subject): the import
    and declaration checks only compare qualified names for equality."""
    return z3.String(args[0].path + '#q')


def diag_fields(e):
    d = e[2] if e[0] == 'push' else e[1]
    if not (isinstance(d, tuple) and d[0] == 'struct'):
        return None
    f = dict(zip(d[3], d[2]))
    kind = f['kind'][1].split('::')[-1] if isinstance(f.get('kind'), tuple) else None
    rg = f.get('range')
    rel = f.get('related_infos')
    rels = []
    if isinstance(rel, tuple) and rel[0] == 'vec':
        for r in rel[1]:
            if isinstance(r, tuple) and r[0] == 'struct':
                rr = dict(zip(r[3], r[2])).get('range')
                rels.append(getattr(rr, 'path', str(rr)))
    msg = f.get('message')
    mtxt = str(z3.simplify(msg)) if z3.is_expr(msg) else str(msg)
    return {'kind': kind, 'range': getattr(rg, 'path', str(rg)), 'related': rels, 'msg': mtxt}


def sat(pc, *extra):
    import zutil
    return zutil.check(list(pc) + list(extra), 30000)[0]


def imports_task(cfg):
    tmir.DEADLINE[0] = time.time() + 900      # wall-clock cap per configuration (inconclusive when exceeded)
    n, nres, ndef = cfg
    S = _S
    try:
        fn = [g for g in S.prog.fns if re.search(r'(^|::)validation::check_imports$', g.name) and '::verif' not in g.name]
        if len(fn) != 1:
            raise mir.Unsupported('check_imports: %d candidates' % len(fn))
        ex = tmir.Exec(S.prog, S.enums, S.structs)
        ex.explicit_new = True
        ex.models = {r'Import::get_qualified_name$': qmodel}
        I = S.structs['Import']
        pi, ni, si = I.index('path'), I.index('name'), I.index('symbol_range')
        imps = ex.obj('imps', 'Vec<Import>')
        resolved, defined, diags = ex.obj('resolved', 'HashSet'), ex.obj('defined', 'HashMap'), ex.obj('diags', 'Vec')
        R = [z3.String('R%d' % k) for k in range(nres)]
        K = [(z3.String('K%d' % k), ex.obj('kind%d' % k, 'ResolvedItemKind')) for k in range(ndef)]
        ex.memo[('coll', 'resolved')] = R
        ex.memo[('coll', 'defined')] = K
        st = tmir.State()
        st.lens['imps'] = n
        Q = [z3.String('imps[%d]#q' % a) for a in range(n)]
        paths = ex.run_fn(fn[0], [imps, resolved, defined, diags], st)
        viol, nq = [], 0
        builtin = lambda q: z3.Or([q == z3.StringVal(b) for b in BUILTIN_Q])
        for s2, ret in paths:
            if tc.model_of(s2) is None:
                continue
            D = [x for x in (diag_fields(e) for e in s2.events if e[0] in ('push', 'diag')) if x]
            used = [False] * len(D)
            for a in range(n):
                sym = 'imps[%d].%d' % (a, si)
                dup = z3.Or([Q[b] == Q[a] for b in range(a)]) if a else z3.BoolVal(False)
                known = z3.Or([Q[a] == k for k, _v in K] + [builtin(Q[a])])
                unresolved = z3.And(z3.Not(dup), z3.Not(known))
                unused = z3.And(z3.Not(dup), known, z3.And([Q[a] != r for r in R]) if R else z3.BoolVal(True))
                cats = (('duplicate', 'Error', 'Duplicated', dup), ('unresolved', 'Warning', 'Unresolved', unresolved), ('unused', 'Warning', 'Unused', unused))
                for cname, kind, word, cond in cats:
                    idx = [i for i, d in enumerate(D) if d['kind'] == kind and d['range'] == sym and word in d['msg']]
                    for i in idx:
                        used[i] = True
                    if len(idx) > 1:
                        viol.append({'what': 'import #%d gets %d `%s` diagnostics' % (a, len(idx), cname)})
                    elif len(idx) == 1:
                        nq += 1
                        if sat(s2.pc, z3.Not(cond)) != z3.unsat:
                            viol.append({'what': 'import #%d gets an undeserved `%s` %s' % (a, cname, kind), 'category': cname})
                        if cname == 'duplicate':
                            rel = D[idx[0]]['related']
                            ok = False
                            for b in range(a):
                                if rel == ['imps[%d].%d' % (b, si)]:
                                    first = z3.And(Q[b] == Q[a], z3.And([Q[c] != Q[a] for c in range(b)]) if b else z3.BoolVal(True))
                                    nq += 1
                                    ok = sat(s2.pc, z3.Not(first)) == z3.unsat
                            if not ok:
                                viol.append({'what': 'the Error on repeated import #%d does not point back to the first occurrence (related = %s)' % (a, rel), 'category': 'duplicate-related'})
                    else:
                        nq += 1
                        if sat(s2.pc, cond) != z3.unsat:
                            viol.append({'what': 'import #%d deserves a `%s` %s but gets none' % (a, cname, kind), 'category': cname + '-missing'})
            for i, d in enumerate(D):
                if not used[i]:
                    viol.append({'what': 'a diagnostic that no import situation calls for: %s on %s (%s)' % (d['kind'], d['range'], d['msg'][:40]), 'category': 'other'})
        return cfg, len(paths), nq, viol, None
    except mir.Unsupported as e:
        return cfg, 0, 0, [], str(e)


def declared_task(cfg):
    tmir.DEADLINE[0] = time.time() + 900      # wall-clock cap per configuration (inconclusive when exceeded)
    n, nimp, nres = cfg
    S = _S
    try:
        fn = [g for g in S.prog.fns if re.search(r'(^|::)validation::check_declared_parcelables$', g.name) and '::verif' not in g.name]
        if len(fn) != 1:
            raise mir.Unsupported('check_declared_parcelables: %d candidates' % len(fn))
        ex = tmir.Exec(S.prog, S.enums, S.structs)
        ex.explicit_new = True
        ex.models = {r'Import::get_qualified_name$': qmodel}
        I = S.structs['Import']
        pi, ni, si, fi = I.index('path'), I.index('name'), I.index('symbol_range'), I.index('full_range')
        decl = ex.obj('decl', 'Vec<Import>')
        imports, resolved, diags = ex.obj('imports', 'HashMap'), ex.obj('resolved', 'HashSet'), ex.obj('diags', 'Vec')
        R = [z3.String('R%d' % k) for k in range(nres)]
        IM = []
        for k in range(nimp):
            io = ex.obj('imp%d' % k, 'Import')
            IM.append((z3.String('IK%d' % k), io))
        ex.memo[('coll', 'resolved')] = R
        ex.memo[('coll', 'imports')] = IM
        st = tmir.State()
        st.lens['decl'] = n
        N = [z3.String('decl[%d].%d' % (a, ni)) for a in range(n)]
        IN = [z3.String('imp%d.%d' % (k, ni)) for k in range(nimp)]
        Q = [z3.String('decl[%d]#q' % a) for a in range(n)]
        paths = ex.run_fn(fn[0], [decl, imports, resolved, diags], st)
        viol, nq = [], 0
        for s2, ret in paths:
            if tc.model_of(s2) is None:
                continue
            D = [x for x in (diag_fields(e) for e in s2.events if e[0] in ('push', 'diag')) if x]
            used = [False] * len(D)
            conflict = [z3.Or([IN[k] == N[a] for k in range(nimp)]) if nimp else z3.BoolVal(False) for a in range(n)]
            for a in range(n):
                sym, full = 'decl[%d].%d' % (a, si), 'decl[%d].%d' % (a, fi)
                dup = z3.And(z3.Not(conflict[a]), z3.Or([z3.And(z3.Not(conflict[b]), Q[b] == Q[a]) for b in range(a)]) if a else z3.BoolVal(False))
                unique = z3.And(z3.Not(conflict[a]), z3.Not(dup))
                is_used = z3.Or([Q[a] == r for r in R]) if R else z3.BoolVal(False)
                cats = (('conflict', 'Error', 'conflicts', conflict[a]), ('repeated', 'Error', 'Multiple', dup),
                        ('unused', 'Warning', 'Unused', z3.And(unique, z3.Not(is_used))), ('usage', 'Warning', 'Usage', z3.And(unique, is_used)))
                total = 0
                for cname, kind, word, cond in cats:
                    idx = [i for i, d in enumerate(D) if d['kind'] == kind and d['range'] in (sym, full) and word in d['msg']]
                    for i in idx:
                        used[i] = True
                    total += len(idx)
                    if len(idx) > 1:
                        viol.append({'what': 'forward declaration #%d gets %d `%s` diagnostics' % (a, len(idx), cname), 'category': cname})
                    elif len(idx) == 1:
                        nq += 1
                        if sat(s2.pc, z3.Not(cond)) != z3.unsat:
                            viol.append({'what': 'forward declaration #%d gets an undeserved `%s` %s' % (a, cname, kind), 'category': cname})
                        rel = D[idx[0]]['related']
                        if cname == 'conflict':
                            ok = any(rel == ['imp%d.%d' % (k, si)] and sat(s2.pc, IN[k] != N[a]) == z3.unsat for k in range(nimp))
                            nq += 1
                            if not ok:
                                viol.append({'what': 'the conflict Error on declaration #%d does not point at an import with the same simple name (related = %s)' % (a, rel), 'category': 'conflict-related'})
                        if cname == 'repeated':
                            ok = False
                            for b in range(a):
                                if rel == ['decl[%d].%d' % (b, si)]:
                                    nq += 1
                                    ok = sat(s2.pc, z3.Not(z3.And(Q[b] == Q[a], z3.Not(conflict[b])))) == z3.unsat
                            if not ok:
                                viol.append({'what': 'the repeated-declaration Error on #%d does not point back to an earlier declaration of the same name (related = %s)' % (a, rel), 'category': 'repeated-related'})
                    else:
                        nq += 1
                        if sat(s2.pc, cond) != z3.unsat:
                            viol.append({'what': 'forward declaration #%d deserves a `%s` %s but gets none' % (a, cname, kind), 'category': cname + '-missing'})
                if total != 1 and not any('declaration #%d' % a in v['what'] for v in viol):
                    viol.append({'what': 'forward declaration #%d is reported %d times (exactly once expected)' % (a, total), 'category': 'count'})
            for i, d in enumerate(D):
                if not used[i]:
                    viol.append({'what': 'a diagnostic that no forward-declaration situation calls for: %s on %s (%s)' % (d['kind'], d['range'], d['msg'][:40]), 'category': 'other'})
        return cfg, len(paths), nq, viol, None
    except mir.Unsupported as e:
        return cfg, 0, 0, [], str(e)


def check(run):
    global _S
    _S = tc.Setup()
    run.functions += ['validation::check_imports and its fold closure (%s)' % src_line('src/validation.rs', 'fn check_imports'),
                      'validation::check_declared_parcelables and its fold closure (%s)' % src_line('src/validation.rs', 'fn check_declared_parcelables'),
                      'ast::Import::get_qualified_name, AndroidTypeKind::from_qualified_name', 'validation::resolve_types closure (keys inserted into the resolved set)']
    quick = run.tier == 'quick'
    icfg = [(1, 0, 0), (1, 1, 1), (2, 0, 0), (2, 1, 1), (2, 2, 1)] if quick else [(1, 0, 0), (1, 1, 1), (2, 0, 0), (2, 1, 1), (2, 2, 1), (3, 1, 1), (3, 2, 1)]
    dcfg = [(1, 0, 0), (1, 1, 1), (2, 0, 1), (2, 1, 0), (2, 1, 1)] if quick else [(1, 0, 0), (1, 1, 1), (2, 0, 1), (2, 1, 0), (2, 1, 1), (3, 1, 1), (2, 2, 2)]
    run.bounds += ['import lists of <= %d statements, forward-declaration lists of <= %d, resolved sets of <= 2 keys, <= 1 registered key / <= %d imports in the map; all names unconstrained strings; every hash iteration order' % (
        max(c[0] for c in icfg), max(c[0] for c in dcfg), max(c[1] for c in dcfg))]
    run.outside += ['longer lists', 'std HashMap/HashSet themselves (entry, insert, get, contains, iteration are modelled by their documented meaning)',
                    'the coupling "a reference the traversal misses makes a used import look unused" is split: every type node reaches the resolver (C05, engine T) and the resolver closure records the key (obligation below)',
                    'message wording beyond the category word (Duplicated / Unresolved / Unused / conflicts / Multiple / Usage) that tells the categories apart']
    run.assumptions += ['Import::get_qualified_name is replaced by one atomic string per statement (the two checks only compare qualified names for equality; its formatting is decided in C17)']
    run.extra['explanation'] = ('Symbolic execution of the MIR of check_imports / check_declared_parcelables with explicit small HashMap models and unconstrained name strings; per path and per '
                                '(statement, category) z3 decides "present => deserved" and "absent => not deserved"; native sweep of import / declaration lists confirms counterexamples.')
    t0 = time.time()
    with mp.Pool(min(12, len(icfg) + len(dcfg))) as pool:
        r1 = pool.map_async(imports_task, icfg)
        r2 = pool.map_async(declared_task, dcfg)
        res_i, res_d = r1.get(), r2.get()
    run.extra['engine_T_seconds'] = round(time.time() - t0, 1)
    nat = None

    def report(kind, res):
        nonlocal nat
        for cfg, np, nq, viol, err in res:
            if kind == 'imports':
                title = 'check_imports: %d import(s), resolved set of %d, %d registered key(s): each import gets exactly the diagnostics its situation calls for' % cfg
            else:
                title = 'check_declared_parcelables: %d declaration(s), %d import(s) in the map, resolved set of %d: each declaration is reported exactly once, in the right category' % cfg
            run.states += np
            run.transitions += nq
            if err:
                run.inconclusive(title, 'T', err)
            elif viol:
                if nat is None:
                    nat = native.sweep_c06()[1]
                roles = {}
                for v in viol:
                    roles.setdefault(kind + ':' + v.get('category', 'other'), []).append(v)
                for role, vs in roles.items():
                    run.violated(title, 'T', role, {'solver': [v['what'] for v in vs[:3]], 'native': nat[:2]}, bool(nat), queries=nq, bound='unbounded strings', detail=vs[0]['what'][:200])
            else:
                run.holds(title, 'T', queries=nq, bound='unbounded strings; %d paths' % np)
    report('imports', res_i)
    report('declared', res_d)
    # the resolved set: the closure of resolve_types records the key of what each node resolved to
    try:
        ok, detail = resolved_set_obligation(_S)
        if ok:
            run.holds('resolve_types records, for every type node, the key it resolved to (item key, java.lang.String / CharSequence, built-in qualified name) in the resolved set', 'T', bound='MIR of resolve_types::{closure#0}')
        else:
            run.violated('resolve_types records the resolved keys', 'T', 'resolved-set', {'detail': detail}, bool(native.sweep_c06()[1]))
    except mir.Unsupported as e:
        run.inconclusive('resolved set', 'T', str(e))
    n_nat, nat_bad = native.sweep_c06() if nat is None else (0, nat)
    run.validated += n_nat
    run.extra['native_sweep'] = {'cases': n_nat, 'discrepancies': len(nat_bad)}
    if nat_bad and not any(o.status in ('violated', 'inconclusive') for o in run.obls):
        run.inconclusive('native sweep', 'replay', 'native discrepancy not explained by a solver verdict: %s' % str(nat_bad[0])[:300])


def resolved_set_obligation(S):
    cl = [g for g in S.prog.fns if re.search(r'(^|::)resolve_types::\{closure#0\}$', g.name)]
    if len(cl) != 1:
        raise mir.Unsupported('resolve_types closure: %d candidates' % len(cl))
    ex = tmir.Exec(S.prog, S.enums, S.structs, opaque=[r'(^|::)resolve_type$'])
    clo_key = re.search(r'\{closure@([^}]*)\}', cl[0].params[0][1]).group(1)
    ncap = 0
    outer = [g for g in S.prog.fns if re.search(r'(^|::)validation::resolve_types$', g.name) and '::verif' not in g.name]
    order = None
    for b in outer[0].blocks.values():
        for st in b:
            m = re.search(r'= \{closure@[^}]*\} \{ (.*) \};', st)
            if m:
                order = [x.split(':')[0].strip() for x in mir._split_top(m.group(1))]
    if not order:
        raise mir.Unsupported('capture list of the resolve_types closure not found')
    vals = {k: ex.obj(k, 'X') for k in order}
    clo = ('closure', clo_key, [vals[k] for k in order])
    t = ex.obj('t', 'Type')
    paths = ex.run_fn(cl[0], [clo, t], tmir.State())
    T = S.structs['Type']
    ki = T.index('kind')
    kinds = S.enums['TypeKind']
    bad = []
    seen = set()
    for s2, ret in paths:
        m = tc.model_of(s2)
        if m is None:
            continue
        kd = kinds[m.eval(z3.Int('t.%d#disc' % ki), True).as_long()]
        seen.add(kd)
        ins = [e for e in s2.events if e[0] == 'set_insert' and e[1] == 'resolved']
        called = [e for e in s2.events if e[0] == 'opaque' and e[1] == 'resolve_type' and e[2] and getattr(e[2][0], 'path', None) == 't']
        if len(called) != 1:
            bad.append('%s: resolve_type called %d times on the node' % (kd, len(called)))
        want = {'ResolvedItem': 1, 'CharSequence': 1, 'String': 1, 'AndroidType': 1}.get(kd, 0)
        if len(ins) != want:
            bad.append('%s: %d keys recorded, expected %d' % (kd, len(ins), want))
        elif want:
            v = ins[0][2]
            sv = str(z3.simplify(v)) if z3.is_expr(v) else str(v)
            if kd == 'ResolvedItem' and not sv.startswith('t.%d@ResolvedItem.0' % ki):
                bad.append('ResolvedItem: recorded key %s is not the item key stored in the kind' % sv)
            if kd == 'String' and 'java.lang.String' not in sv:
                bad.append('String: recorded %s' % sv)
            if kd == 'CharSequence' and 'java.lang.CharSequence' not in sv:
                bad.append('CharSequence: recorded %s' % sv)
    if not ({'ResolvedItem', 'String', 'CharSequence', 'AndroidType'} <= seen and len(seen) >= 5):
        bad.append('kinds reached: %s' % sorted(seen))
    return (not bad), bad
