"""C20 -- syntax-error messages name every token the parser was prepared to accept.

Engine M: the MIR of `diagnostic::expected_token_str` and `Diagnostic::from_parse_error` of the current tree is executed
symbolically (slice length n and index i are unbounded z3 integers); z3 decides
  (1) no index of the expectation vector is left unmentioned by the formatted message, on any path;
  (2) no path panics (checked arithmetic / index asserts of the MIR);
  (3) literal template pieces contain no terminal name (nothing outside the set is named);
  (4) in from_parse_error the message of UnrecognizedEOF / UnrecognizedToken embeds expected_token_str(<that error's own
      expected vector>) and from_error_recovery only prefixes.
Counterexamples are replayed natively (formatter alone and end-to-end through Parser::add_content with the recorder hook).
"""
import re

import z3

import mir
import replay
from common import src_line

LEVEL = 'model_checking'


def mention_conds(args, i):
    conds = []
    for a in args:
        if isinstance(a, tuple) and a[0] == 'elem':
            conds.append(i == a[2])
        elif isinstance(a, tuple) and a[0] == 'join':
            sl = a[1]
            if not (isinstance(sl, tuple) and sl[0] == 'slice'):
                raise mir.Unsupported('join over %r' % (sl,))
            conds.append(z3.And(sl[2] <= i, i < sl[3]))
        elif isinstance(a, tuple) and a[0] == 'fmt':
            conds.extend(mention_conds(a[2], i))
        else:
            raise mir.Unsupported('message argument %r' % (a,))
    return conds


def literal_text(v):
    out = [p[1] for p in v[1] if p[0] == 'lit']
    for a in v[2]:
        if isinstance(a, tuple) and a[0] == 'fmt':
            out += literal_text(a)
        if isinstance(a, tuple) and a[0] == 'join' and isinstance(a[2], tuple) and a[2][0] == 'str':
            out.append(a[2][1])
    return out


TERMINALS = ['ANNOTATION', 'BOOLEAN', 'CHAR_SEQUENCE', 'CONST', 'DIRECTION', 'ENUM', 'FLOAT', 'IDENT', 'IMPORT', 'INTEGER', 'INTERFACE', 'LIST', 'MAP',
             'ONEWAY', 'PACKAGE', 'PARCELABLE', 'PRIMITIVE', 'QUOTED_STRING', 'RESERVED_KEYWORD', 'STRING', 'VOID',
             '"("', '")"', '","', '"-"', '"."', '";"', '"<"', '"="', '">"', '"["', '"]"', '"{"', '"}"']

# error inputs for the end-to-end replay: (text, comment)
CORPUS = [
    'package x;', 'package', 'package x', 'package x; interface', 'package x; interface I', 'package x; interface I {',
    'package x; interface I { void', 'package x; interface I { void f', 'package x; interface I { void f(', 'package x; interface I { void f()',
    'package x; interface I { void f() =', 'package x; interface I { const', 'package x; interface I { const int', 'package x; interface I { const int X',
    'package x; interface I { const int X =', 'package x; interface I { List<', 'package x; interface I { Map<String', 'package x; parcelable P {',
    'package x; parcelable P { int', 'package x; parcelable P { int a', 'package x; parcelable P { int a =', 'package x; enum E {', 'package x; enum E { A',
    'package x; enum E { A =', 'package x; import', 'package x; import a', 'package x; import a.', 'package x; @A', 'package x; @A(', 'package x; @A(k', 'package x; @A(k=',
    'package x; interface I { void f(in', 'package x; interface I { void f(in int', 'package x; interface I { void f(int a', 'package x; interface I { int[',
    'package x; for', 'package x; interface I { for ; }', 'package x; interface I { void f(for); }', 'package x; parcelable P { = ; }', 'package x; enum E { =, B }',
    'package x; interface I { void f() = x; }', 'package x; interface I {} }', 'x', '',
]


def end_to_end(run):
    """Native: for every recorded expectation vector, the corresponding syntax-error message must name each entry."""
    files = {'f%03d.aidl' % k: t for k, t in enumerate(CORPUS)}
    r = replay.project(files)
    bad = []
    n = 0
    sizes = set()
    if r.get('panic') or 'crash' in r:
        return None, 0, set(), r
    for fid, fr in sorted(r['files'].items()):
        exp = fr['expected']
        msgs = [d['message'] for d in fr['parse']['diags'] if 'Unrecognized' in d['message']]
        if len(exp) != len(msgs):
            continue
        for e, m in zip(exp, msgs):
            n += 1
            sizes.add(len(e))
            tail = m.split('\n', 1)[1] if '\n' in m else ''
            missing = [t for t in e if t not in tail]
            if missing:
                bad.append({'input': files[fid], 'expected': e, 'message': m, 'missing': missing, 'n': len(e), 'index': e.index(missing[0])})
    return bad, n, sizes, None


def check(run):
    txt = mir.dump_mir()
    prog = mir.Program(txt)
    run.functions += ['diagnostic::expected_token_str (%s)' % src_line('src/diagnostic.rs', 'fn expected_token_str'),
                      'Diagnostic::from_parse_error (%s)' % src_line('src/diagnostic.rs', 'fn from_parse_error'),
                      'Diagnostic::from_error_recovery (%s)' % src_line('src/diagnostic.rs', 'fn from_error_recovery')]
    run.bounds += ['vector length n and index i: unbounded integers (loop-free MIR, all paths enumerated)']
    run.outside += ['Display of the individual token names (String as Display)', 'how lalrpop computes the expected vector it hands over (taken as the set to be named)',
                    'std: <[String]>::join and Index<Range> are axiomatised (join mentions exactly the slice elements, in order)']
    run.assumptions += ['format_args! template encoding of this nightly (0xc0 = argument, n<0x80 = n literal bytes) - checked against Aidl::get_key at start-up',
                        'references are transparent in the interpreted functions (no mutation through them)']
    run.extra['explanation'] = ('Symbolic execution of the nightly MIR of expected_token_str/from_parse_error/from_error_recovery of the current tree; '
                                'z3 decides index coverage over unbounded n; counterexamples replayed natively.')

    # self-check of the template decoding on a function whose template is known from the property text (package.Name)
    gk = prog.find('get_key', '&Aidl')
    it = mir.Interp(prog, inline={r'Item::get_name$': prog.find('get_name', '&Item')})
    paths = it.run(gk, [mir.Obj('aidl')])
    ok = all(p.result[0] == 'fmt' and len([x for x in p.result[1] if x[0] == 'arg']) == 2 for p in paths)
    if not ok:
        run.inconclusive('template decoding self-check', 'M', 'Aidl::get_key did not decode to a two-argument template')
        return

    # the hook wrapper has the same suffix: pick the one that is not in module verif
    cands = [x for x in prog.fns if (x.name.endswith('::expected_token_str') or x.name == 'expected_token_str') and '::verif::' not in x.name]
    if len(cands) != 1:
        run.inconclusive('locate expected_token_str', 'M', '%d candidates' % len(cands))
        return
    f = cands[0]
    it = mir.Interp(prog)
    v = mir.Obj('v')
    paths = it.run(f, [v])
    n = it.ctx.length(v)
    i = z3.Int('i')
    violations = []
    t_solve = 0.0
    import time
    nq = 0
    for p in paths:
        base = [n >= 0] + p.pc
        if isinstance(p.result, tuple) and p.result[0] == 'panic':
            s = z3.Solver(); s.add(*base)
            t0 = time.time(); r = s.check(); t_solve += time.time() - t0; nq += 1
            if r == z3.sat:
                m = s.model()
                violations.append(('panic', {'n': m.eval(n, True).as_long(), 'where': p.result[1]}))
            continue
        if not (isinstance(p.result, tuple) and p.result[0] == 'fmt'):
            raise mir.Unsupported('result of expected_token_str: %r' % (p.result,))
        conds = mention_conds(p.result[2], i)
        s = z3.Solver()
        s.add(*base)
        s.add(0 <= i, i < n)
        s.add(z3.Not(z3.Or(conds)) if conds else z3.BoolVal(True))
        t0 = time.time(); r = s.check(); t_solve += time.time() - t0; nq += 1
        if r == z3.sat:
            m = s.model()
            nn, ii = m.eval(n, True).as_long(), m.eval(i, True).as_long()
            # role: is the dropped index always n-2 on this path?
            s2 = z3.Solver(); s2.add(*base); s2.add(0 <= i, i < n, z3.Not(z3.Or(conds)) if conds else z3.BoolVal(True), i != n - 2)
            nq += 1
            role = 'dropped:n-2' if s2.check() == z3.unsat else 'dropped:i=%d,n=%d' % (ii, nn)
            violations.append((role, {'n': nn, 'index': ii}))
        elif r != z3.unsat:
            run.inconclusive('index coverage on path %s' % [str(c) for c in p.pc], 'M', 'solver returned unknown')
        # literal pieces must not name a terminal
        for lit in literal_text(p.result):
            for t in TERMINALS:
                if t in lit:
                    violations.append(('literal-names:' + t, {'literal': lit}))
        run.sample({'path': [str(c) for c in p.pc], 'template': p.result[1], 'args': [str(a)[:80] for a in p.result[2]]})
    run.states += len(paths)
    run.transitions += sum(len(b) for b in f.blocks.values())

    # end-to-end native sweep of the corpus: validates the claim "what the hook records is what gets formatted"
    bad, ncmp, sizes, err = end_to_end(run)
    if err is not None:
        run.inconclusive('native end-to-end corpus', 'replay', 'replay failed: %s' % str(err)[:300])
    else:
        run.validated += ncmp
        run.extra['native_corpus'] = {'error_points': ncmp, 'expected_set_sizes': sorted(sizes)}

    if not violations:
        run.holds('expected_token_str mentions every index of its argument exactly where the property needs it (all paths)', 'M',
                  solver_s=t_solve, queries=nq, bound='n, i unbounded')
        if bad:
            # the solver says the formatter is complete but the native messages are not: encoding is wrong
            run.inconclusive('native corpus disagrees with the encoding', 'replay', str(bad[0])[:400])
    for role, w in violations:
        if role.startswith('dropped'):
            r = replay.run(['ets', max(w['n'], 1)])
            rep = (r.get('text') is not None) and ('T%d' % w['index']) not in re.findall(r'T\d+', r.get('text') or '')
            # the formatter replay (real function, real build) is the reproduction; an end-to-end instance from the corpus is attached when there is one
            e2e = ([b for b in (bad or []) if b['n'] == w['n'] and b['index'] == w['index']] or [b for b in (bad or []) if b['n'] - b['index'] == w['n'] - w['index']]
                   or [b for b in (bad or []) if role != 'dropped:n-2' and b['n'] - b['index'] != 2])
            w = dict(w, native_formatter=r.get('text'), end_to_end=(e2e[0] if e2e else None))
            run.violated('expected_token_str leaves an index of the expectation vector unmentioned', 'M', role, w, bool(rep),
                         solver_s=t_solve, queries=nq, bound='n, i unbounded',
                         detail='z3 model n=%d i=%d; native: %r' % (w['n'], w['index'], r.get('text')))
        elif role == 'panic':
            r = replay.run(['ets', w['n']])
            run.violated('expected_token_str panics', 'M', 'panic:n=%d' % w['n'], w, bool(r.get('panic')), solver_s=t_solve, queries=nq)
        else:
            run.violated('message literal names a terminal', 'M', role, w, True, queries=1)

    # (4) dataflow in from_parse_error / from_error_recovery
    fpe = [x for x in prog.fns if x.name.endswith('::from_parse_error') and '::verif::' not in x.name]
    if len(fpe) != 1:
        run.inconclusive('locate from_parse_error', 'M', '%d candidates' % len(fpe))
        return
    it = mir.Interp(prog, opaque=[r'record_expected$', r'Range::new$', r'Vec::<.*>::new$', r'expected_token_str$'],
                    inline={})
    it.opaque_on_failure = True      # a helper of the crate whose body cannot be interpreted stays an uninterpreted call (the dataflow obligation then fails on it)
    it_call = it.call

    def call2(fname, args, env, pc, calls):
        if fname.endswith('<Vec<String> as Deref>::deref'):
            return [(pc, it.operand(args[0], env))]
        return it_call(fname, args, env, pc, calls)
    it.call = call2
    e = mir.Obj('e')
    paths = it.run(fpe[0], [mir.Obj('lookup'), e])
    structs, enums = mir.layouts()
    fields = structs.get('Diagnostic', [])
    nq2 = 0
    okflow = True
    detail = []
    seen_variants = set()
    for p in paths:
        if isinstance(p.result, tuple) and p.result[0] == 'panic':
            okflow = False; detail.append('panic path ' + p.result[1]); continue
        pcs = ' '.join(str(c) for c in p.pc)
        mvar = re.search(r'e#disc == (\d+)', pcs)
        if p.result == ('none',):
            # allowed only for the User variant (the last one)
            s = z3.Solver(); s.add(*p.pc); s.add(it.ctx.disc(e) != 4); nq2 += 1
            if s.check() != z3.unsat:
                okflow = False; detail.append('None returned for a non-User error variant')
            continue
        if not (p.result[0] == 'some' and p.result[1][0] == 'struct'):
            raise mir.Unsupported('from_parse_error result %r' % (p.result,))
        d = dict(zip(fields, p.result[1][2]))
        if d.get('kind') != ('variant', 'DiagnosticKind::Error'):
            okflow = False; detail.append('kind is %r' % (d.get('kind'),))
        msg = d.get('message')
        calls = [a for a in (msg[2] if isinstance(msg, tuple) and msg[0] == 'fmt' else []) if isinstance(a, tuple) and a[0] == 'call']
        for variant, vidx in (('UnrecognizedEOF', 1), ('UnrecognizedToken', 2)):
            s = z3.Solver(); s.add(*p.pc); s.add(it.ctx.disc(e) == vidx); nq2 += 1
            if s.check() == z3.sat:
                seen_variants.add(variant)
                want = it.ctx.field(it.ctx.downcast(e, variant), 1, 'std::vec::Vec<std::string::String>')
                if not any(c[1].endswith('expected_token_str') and c[2] and c[2][0] is want for c in calls):
                    okflow = False; detail.append('%s: message does not embed expected_token_str(own expected vector)' % variant)
    if seen_variants != {'UnrecognizedEOF', 'UnrecognizedToken'}:
        run.inconclusive('from_parse_error dataflow', 'M', 'variants reached: %s' % sorted(seen_variants))
    elif okflow:
        run.holds('from_parse_error: every non-User variant yields Some(Error); EOF/Token messages embed expected_token_str(own expected)', 'M', queries=nq2)
    else:
        # confirmed end to end by a corpus message that misses more than the known n-2 entry
        e2e = [b for b in (bad or []) if len(b['missing']) > 1 or b['n'] - b['index'] != 2]
        run.violated('from_parse_error dataflow', 'M', 'from_parse_error-dataflow', {'detail': detail, 'end_to_end': e2e[:1]}, bool(e2e), queries=nq2, detail='; '.join(detail))

    fer = [x for x in prog.fns if x.name.endswith('::from_error_recovery') and '::verif::' not in x.name]
    cl = [x for x in prog.fns if 'from_error_recovery::{closure#0}' in x.name and '::verif::' not in x.name]
    if len(fer) == 1 and len(cl) == 1:
        it = mir.Interp(prog, opaque=[r'Range::new$', r'<.* as Clone>::clone$'])
        try:
            ps = it.run(cl[0], [mir.Obj('closure'), mir.Obj('d')])
            good = True
            for p in ps:
                if isinstance(p.result, tuple) and p.result[0] == 'panic':
                    good = False
                    continue
                st = p.result
                if not (st[0] == 'struct'):
                    raise mir.Unsupported('closure result')
                d = dict(zip(fields, st[2]))
                msg = d.get('message')
                dm = it.ctx.field(mir.Obj('d'), fields.index('message'), 'std::string::String')
                # message = <prefix pieces> ++ d.message as last argument
                if not (isinstance(msg, tuple) and msg[0] == 'fmt' and any(a is dm for a in msg[2]) and msg[1] and msg[1][-1] == ('arg',)):
                    good = False
            if good:
                run.holds('from_error_recovery keeps the inner message as the tail of its own (prefix only)', 'M', queries=len(ps))
            else:
                run.violated('from_error_recovery rewrites the inner message', 'M', 'from_error_recovery-dataflow', {}, True)
        except mir.Unsupported as ex:
            run.inconclusive('from_error_recovery dataflow', 'M', str(ex))
    else:
        run.inconclusive('locate from_error_recovery closure', 'M', '%d/%d candidates' % (len(fer), len(cl)))
