"""C01 -- parsing and validation are total (partial: the four panic mechanisms the anchors name)."""
import ksupport
import native
from common import src_line

LEVEL = 'model_checking'
SPECS = [
    ('c18::c01_docscan_total_7', 'doc back-scan returns normally for every text of <= 7 characters over 10 classes (1- to 4-byte code points, comment delimiters, whitespace)', 'quick', ['javadoc']),
    ('c01::c01_container_arity', 'every type the real constructors build (nested once) passes check_container without unreachable!/index panic', 'quick', ['c08']),
    ('c01::c04_range_new_passes_offsets', 'Range::new hands its offsets to the lookup unchanged', 'quick', ['c04']),
    ('c18::c01_docscan_total_9', 'texts of <= 9 characters', 'thorough', ['javadoc']),
]


def check(run):
    import c04 as c04mod
    run.functions += ['javadoc::find_content_string (%s)' % src_line('src/javadoc.rs', 'fn find_content_string'), 'validation::check_container', 'ast::Type::{simple_type,array,list,non_generic_list,map,non_generic_map}',
                      'ast::Range::new', 'generated action wrappers (offsets handed to the lookup)', 'Diagnostic::from_parse_error']
    run.bounds += ['doc scan: <= 7 / 9 characters; containers nested once; offsets: all layouts (engine A)']
    run.outside += ['the lexer and the regex crate ("any text" is "any token stream the lexer can emit")', 'line-col / unicode-segmentation', 'parse_javadoc', 'termination', 'one result per id / id tagging (HashMap bookkeeping)']
    run.assumptions += ['stub: line_col::LineColLookup::get_by_cluster -> (1, offset + 1) in the constructor harness', 'stub: alloc::fmt::format']
    run.extra['explanation'] = 'The four panic mechanisms named by the property anchors: doc back-scan (Kani), offsets given to the lookup are token boundaries (engine A, z3 over all layouts), arity assumptions (Kani), parse failures become diagnostics (engine M).'
    ksupport.decide(run, 'C01', SPECS, {'javadoc': native.sweep_javadoc, 'c08': native.sweep_c08, 'c04': native.sweep_c04})
    # offsets handed to the lookup are token boundaries: engine A obligation G2 (shared with C04)
    c04mod.boundary_obligations(run)
    c04mod.parse_error_obligation(run)
