"""C01 -- parsing and validation are total (partial: the four panic mechanisms the anchors name)."""
import ksupport
import native
from common import src_line

LEVEL = 'model_checking'
SPECS = [
    ('c18::c01_docscan_total_7', 'doc back-scan returns normally for every text of <= 7 characters over 10 classes (1- to 4-byte code points, comment delimiters, whitespace)', 'quick', ['javadoc']),
    ('c01::c01_container_arity', 'every type the real constructors build (nested once) passes check_container without unreachable!/index panic', 'quick', ['c08']),
    ('c01::c04_range_new_passes_offsets', 'Range::new hands its offsets to the lookup unchanged', 'quick', ['c04']),
    ('c18::c01_docscan_total_9', 'texts of <= 9 characters', 'thorough', ['javadoc']),
]


def check(run):
    import c04 as c04mod
    run.functions += ['javadoc::find_content_string (%s)' % src_line('src/javadoc.rs', 'fn find_content_string'), 'validation::check_container', 'ast::Type::{simple_type,array,list,non_generic_list,map,non_generic_map}',
                      'ast::Range::new', 'generated action wrappers (offsets handed to the lookup)', 'Diagnostic::from_parse_error',
                      'every user action rules::aidl::__actionN and its closures (panic sites)', 'Parser::add_content / validate and validation::validate (one result per id)']
    run.bounds += ['doc scan: <= 7 / 9 characters; containers nested once; offsets: all layouts (engine A)']
    run.outside += ['the lexer and the regex crate ("any text" is "any token stream the lexer can emit")', 'line-col / unicode-segmentation', 'parse_javadoc', 'termination']
    run.assumptions += ['stub: line_col::LineColLookup::get_by_cluster -> (1, offset + 1) in the constructor harness', 'stub: alloc::fmt::format']
    run.extra['explanation'] = 'The four panic mechanisms named by the property anchors: doc back-scan (Kani), offsets given to the lookup are token boundaries (engine A, z3 over all layouts), arity assumptions (Kani), parse failures become diagnostics (engine M).'
    ksupport.decide(run, 'C01', SPECS, {'javadoc': native.sweep_javadoc, 'c08': native.sweep_c08, 'c04': native.sweep_c04})
    # offsets handed to the lookup are token boundaries: engine A obligation G2 (shared with C04)
    c04mod.boundary_obligations(run)
    c04mod.parse_error_obligation(run)

    action_panic_obligation(run)
    one_result_per_id_obligation(run)


def action_panic_obligation(run):
    """panic sites inside the grammar's user actions (and their closures): enumerated from the MIR; each must be infeasible"""
    import re
    import mir, mirror, replay
    title = 'the grammar actions cannot panic: every panic / assert / unwrap / index site in the MIR of the user actions is infeasible for every word of the token pattern that guards it'
    try:
        prog = mir.Program(mir.dump_mir())
        acts = [f for f in prog.fns if re.search(r'__action\d+(::\{closure#\d+\})*$', f.name)]
        sites = []
        for f in acts:
            for bb, sts in f.blocks.items():
                for st in sts:
                    if st.startswith('assert(') or re.search(r'\bpanic\w*\(|::unwrap\(|::expect\(|unwrap_failed|expect_failed| as Index<|slice_index|panic_bounds_check', st):
                        sites.append((f.name.split('::')[-1] if '{closure' not in f.name else f.name[-40:], st[:90]))
        An = mirror.Analysis(replay.generated_parser(), prog)
        viol, nq = An.constants()
        reach = {k: v for k, v in viol.items() if k.startswith('panic-arm')}
        seen = len(set(w for _pc, w in An.E.panics))
        sites = sorted(set(sites))
    except (mir.Unsupported, RuntimeError) as e:
        run.inconclusive(title, 'A', str(e)); return
    if An.unsupported:
        run.inconclusive(title, 'A', 'action outside the evaluator: ' + An.unsupported[0]); return
    if reach:
        w = list(reach.values())[0][0]
        if w.get('kind') == 'transact-code':
            text = 'package p; interface I { void f() = %s; }' % w.get('word', '0')
        else:
            text = 'package p; interface I { void f(%s int a); }' % (w.get('word', 'in').strip('"'))
        r = replay.project({'a.aidl': text})
        run.violated(title, 'A', 'action-panic', {'sites': sites[:4], 'solver': w, 'native': str(r.get('panic'))[:120]}, bool(r.get('panic')), queries=nq, detail='a panic arm of a grammar action is reachable')
    elif len(sites) != seen:
        run.inconclusive(title, 'A', '%d panic sites in the MIR of the actions but %d reached by the evaluator: %s' % (len(sites), seen, sites[:3]))
    else:
        run.holds(title, 'A', queries=max(1, nq), bound='%d action functions and closures; %d panic site(s): %s' % (len(acts), len(sites), [s0 for s0, _ in sites]))


def one_result_per_id_obligation(run):
    import mir, framecheck, histcheck
    import c11
    title = 'one result per id, tagged with that id: add_content stores ParseFileResult{id: clone of id, ..} under id; validate returns exactly the stored ids, each result carrying the id it was stored under'
    try:
        prog = mir.Program(mir.dump_mir())
        ok1, n1, bad1 = framecheck.add_content(prog)
        ok2, detail2 = c11.results_keyed_by_id(prog)
        obs, nq = histcheck.analyse(prog)
    except (mir.Unsupported, RuntimeError) as e:
        run.inconclusive(title, 'M', str(e)); return
    bad = list(bad1) + ([] if ok2 else [detail2]) + [o[2] for o in obs if o[1] != 'holds']
    if not bad:
        run.holds(title, 'M', queries=n1 + nq, bound='all MIR paths of add_content / validate / the per-file closure; unbounded histories (C12 invariant)')
    else:
        r = native.sweep_c12(2, 10, 20)
        run.violated(title, 'M', 'id-bookkeeping', {'detail': bad[:3], 'native': r[1][:1]}, bool(r[1]), detail=str(bad[0])[:200])
