//! C15 -- traversal visits every node once, in order; filter and find agree with it.
//! Node identity = the offset of its symbol range (every node of a harness tree gets a distinct id).
use crate::common::*;
use aidl_parser::ast;
use aidl_parser::symbol::Symbol;
use aidl_parser::traverse::{self, SymbolFilter};

pub const CAP: usize = 24;

/// Symbolic type shape: 0 leaf, 1 array, 2 list, 3 map; ids are assigned in construction order.
pub fn mk_type(c: &[u8], cur: &mut usize, depth: u8, id: &mut usize) -> ast::Type {
    let ch = if *cur < c.len() { c[*cur] } else { 0 };
    *cur += 1;
    *id += 1;
    let my = *id;
    if depth == 0 || ch == 0 || ch > 3 {
        return leaf(CAT_PRIMITIVE, my);
    }
    let a = mk_type(c, cur, depth - 1, id);
    match ch {
        1 => container(ast::TypeKind::Array, vec![a], my),
        2 => container(ast::TypeKind::List, vec![a], my),
        _ => { let b = mk_type(c, cur, depth - 1, id); container(ast::TypeKind::Map, vec![a, b], my) }
    }
}

pub struct Seq { pub v: [usize; CAP], pub n: usize }
impl Seq {
    pub fn new() -> Self { Seq { v: [0; CAP], n: 0 } }
    pub fn push(&mut self, x: usize) { if self.n < CAP { self.v[self.n] = x; } self.n += 1; }
}

/// Reference order of a type subtree: an array's element before the array, otherwise the node before its parameters.
pub fn ref_type(t: &ast::Type, out: &mut Seq) {
    if t.kind == ast::TypeKind::Array {
        let mut i = 0; while i < t.generic_types.len() { ref_type(&t.generic_types[i], out); i += 1; }
        out.push(t.symbol_range.start.offset);
    } else {
        out.push(t.symbol_range.start.offset);
        let mut i = 0; while i < t.generic_types.len() { ref_type(&t.generic_types[i], out); i += 1; }
    }
}

/// Reference pre-order of the whole tree at level: 0 = ItemsOnly, 1 = ItemsAndItemElements, 2 = All.
pub fn ref_symbols(a: &ast::Aidl, level: u8, out: &mut Seq) {
    if level == 2 {
        out.push(a.package.symbol_range.start.offset);
        let mut i = 0; while i < a.imports.len() { out.push(a.imports[i].symbol_range.start.offset); i += 1; }
    }
    out.push(a.item.get_symbol_range().start.offset);
    if level == 0 { return; }
    match &a.item {
        ast::Item::Interface(it) => {
            let mut i = 0;
            while i < it.elements.len() {
                match &it.elements[i] {
                    ast::InterfaceElement::Method(m) => {
                        out.push(m.symbol_range.start.offset);
                        if level == 2 {
                            ref_type(&m.return_type, out);
                            let mut j = 0;
                            while j < m.args.len() { out.push(m.args[j].symbol_range.start.offset); ref_type(&m.args[j].arg_type, out); j += 1; }
                        }
                    }
                    ast::InterfaceElement::Const(c) => { out.push(c.symbol_range.start.offset); if level == 2 { ref_type(&c.const_type, out); } }
                }
                i += 1;
            }
        }
        ast::Item::Parcelable(p) => {
            let mut i = 0;
            while i < p.elements.len() {
                match &p.elements[i] {
                    ast::ParcelableElement::Field(f) => { out.push(f.symbol_range.start.offset); if level == 2 { ref_type(&f.field_type, out); } }
                    ast::ParcelableElement::Const(c) => { out.push(c.symbol_range.start.offset); if level == 2 { ref_type(&c.const_type, out); } }
                }
                i += 1;
            }
        }
        ast::Item::Enum(e) => { let mut i = 0; while i < e.elements.len() { out.push(e.elements[i].symbol_range.start.offset); i += 1; } }
    }
}

pub fn filter_of(level: u8) -> SymbolFilter {
    match level { 0 => SymbolFilter::ItemsOnly, 1 => SymbolFilter::ItemsAndItemElements, _ => SymbolFilter::All }
}

fn assert_same(got: &Seq, exp: &Seq) {
    assert!(got.n == exp.n, "number of visited symbols equals the number of nodes");
    assert!(exp.n <= CAP);
    let mut k = 0;
    while k < CAP { if k < exp.n { assert!(got.v[k] == exp.v[k], "symbols are visited in source order (element before array)"); } k += 1; }
}

fn interface_tree(ret: ast::Type, argt: ast::Type, constt: ast::Type) -> ast::Aidl {
    let m = method(false, ret, vec![arg(direction(1, 61), argt, 62)], 50);
    let c = constant(constt, 70);
    let it = ast::Interface { oneway: false, name: String::new(), elements: vec![ast::InterfaceElement::Method(m), ast::InterfaceElement::Const(c)], annotations: Vec::new(), doc: None, full_range: rng(1), symbol_range: rng(2) };
    ast::Aidl { package: package(3), imports: vec![import(5)], declared_parcelables: Vec::new(), item: ast::Item::Interface(it) }
}

fn parcelable_tree(ft: ast::Type, constt: ast::Type) -> ast::Aidl {
    let p = ast::Parcelable { name: String::new(), elements: vec![ast::ParcelableElement::Field(field(ft, 50)), ast::ParcelableElement::Const(constant(constt, 70))], annotations: Vec::new(), doc: None, full_range: rng(1), symbol_range: rng(2) };
    ast::Aidl { package: package(3), imports: vec![import(5)], declared_parcelables: Vec::new(), item: ast::Item::Parcelable(p) }
}

fn enum_tree(n: usize) -> ast::Aidl {
    let mut els = Vec::new();
    let mut i = 0;
    while i < n { els.push(ast::EnumElement { name: String::new(), value: None, doc: None, symbol_range: rng(50 + i), full_range: rng(60 + i) }); i += 1; }
    let e = ast::Enum { name: String::new(), elements: els, annotations: Vec::new(), doc: None, full_range: rng(1), symbol_range: rng(2) };
    ast::Aidl { package: package(3), imports: vec![import(5)], declared_parcelables: Vec::new(), item: ast::Item::Enum(e) }
}

macro_rules! order_body {
    ($a:expr, $level:expr) => {{
        let a = $a;
        let level: u8 = $level;
        let mut exp = Seq::new();
        ref_symbols(&a, level, &mut exp);
        let mut got = Seq::new();
        traverse::walk_symbols(&a, filter_of(level), |s| got.push(s.get_range().start.offset));
        assert_same(&got, &exp);
        std::mem::forget(a);
    }};
}

/// Interface: return type of symbolic shape to depth 2 (all shapes incl. maps with two sub-trees), argument type to depth 1.
#[kani::proof]
#[kani::unwind(9)]
fn c15_symbols_interface_d2() {
    let c: [u8; 10] = kani::any();
    let mut cur = 0usize; let mut id = 100usize;
    let ret = mk_type(&c, &mut cur, 2, &mut id);
    let argt = mk_type(&c, &mut cur, 1, &mut id);
    let ct = leaf(CAT_PRIMITIVE, 90);
    kani::cover!(ret.generic_types.len() == 2 && ret.generic_types[0].generic_types.len() >= 1, "map whose key is itself a container");
    kani::cover!(ret.kind == ast::TypeKind::Array && ret.generic_types[0].kind == ast::TypeKind::Array, "array of arrays");
    order_body!(interface_tree(ret, argt, ct), 2)
}

/// Parcelable: field type to depth 2, constant type to depth 1.
#[kani::proof]
#[kani::unwind(9)]
fn c15_symbols_parcelable_d2() {
    let c: [u8; 10] = kani::any();
    let mut cur = 0usize; let mut id = 100usize;
    let ft = mk_type(&c, &mut cur, 2, &mut id);
    let ct = mk_type(&c, &mut cur, 1, &mut id);
    kani::cover!(ft.generic_types.len() == 1 && ft.generic_types[0].generic_types.len() == 2, "list of maps");
    order_body!(parcelable_tree(ft, ct), 2)
}

/// Coarser levels and the enum item: the sub-sequences item / item + members.
#[kani::proof]
#[kani::unwind(9)]
fn c15_levels() {
    let c: [u8; 4] = kani::any();
    let (kind, level) = (c[0], c[1]);
    kani::assume(kind < 3 && level < 3);
    let mut cur = 2usize; let mut id = 100usize;
    let t = mk_type(&c, &mut cur, 1, &mut id);
    let a = match kind { 0 => interface_tree(t, leaf(CAT_PRIMITIVE, 91), leaf(CAT_PRIMITIVE, 90)), 1 => parcelable_tree(t, leaf(CAT_PRIMITIVE, 90)), _ => enum_tree(2) };
    kani::cover!(kind == 2 && level == 2, "enum at the most detailed level");
    kani::cover!(kind == 0 && level == 1, "interface with its members only");
    order_body!(a, level)
}

/// find_symbol returns the first visited symbol satisfying the predicate -- for every node of the tree, the package included --
/// and None when nothing matches; filter_symbols returns exactly the matching symbols in visit order.
#[kani::proof]
#[kani::unwind(9)]
fn c15_find_and_filter() {
    let c: [u8; 6] = kani::any();
    let level = c[0];
    kani::assume(level < 3);
    let mut cur = 2usize; let mut id = 100usize;
    let ret = mk_type(&c, &mut cur, 2, &mut id);
    let a = interface_tree(ret, leaf(CAT_PRIMITIVE, 91), leaf(CAT_PRIMITIVE, 90));
    let mut exp = Seq::new();
    ref_symbols(&a, level, &mut exp);
    let k = c[1] as usize;
    kani::assume(k <= exp.n && k < CAP);
    // target = id of the k-th node in the reference order (k == n: an id that no node carries)
    let target = if k < exp.n { exp.v[k] } else { 9999 };
    let f = traverse::find_symbol(&a, filter_of(level), |s| s.get_range().start.offset == target);
    if k < exp.n {
        assert!(f.is_some(), "find_symbol finds every visited symbol (the package included)");
        if let Some(s) = f { assert!(s.get_range().start.offset == target, "find_symbol returns a symbol satisfying the predicate"); }
    } else {
        assert!(f.is_none(), "find_symbol returns None when nothing matches");
    }
    let v = traverse::filter_symbols(&a, filter_of(level), |s| s.get_range().start.offset == target);
    assert!(v.len() == (k < exp.n) as usize, "filter_symbols returns exactly the matching symbols");
    // predicate 'is at or after the k-th': find returns the k-th, filter returns the tail
    let mut cnt = 0usize;
    let f2 = traverse::find_symbol(&a, filter_of(level), |_s| { cnt += 1; cnt > k });
    if k < exp.n { assert!(f2.is_some()); if let Some(s) = f2 { assert!(s.get_range().start.offset == exp.v[k], "find_symbol returns the FIRST match in visit order"); } }
    else { assert!(f2.is_none()); }
    kani::cover!(k == 0 && level == 2, "predicate selects the package");
    kani::cover!(k == exp.n, "predicate selects nothing");
    std::mem::forget(v);
    std::mem::forget(a);
}

/// walk_types / walk_methods / walk_args yield every type (any depth), method and argument in source order.
#[kani::proof]
#[kani::unwind(9)]
fn c15_walk_types_methods_args() {
    let c: [u8; 10] = kani::any();
    let mut cur = 0usize; let mut id = 100usize;
    let ret = mk_type(&c, &mut cur, 2, &mut id);
    let argt = mk_type(&c, &mut cur, 1, &mut id);
    let a = interface_tree(ret, argt, leaf(CAT_PRIMITIVE, 90));
    let mut exp = Seq::new();
    if let ast::Item::Interface(ref it) = a.item {
        if let ast::InterfaceElement::Method(ref m) = it.elements[0] { ref_type(&m.return_type, &mut exp); ref_type(&m.args[0].arg_type, &mut exp); }
        if let ast::InterfaceElement::Const(ref k) = it.elements[1] { ref_type(&k.const_type, &mut exp); }
    }
    let mut got = Seq::new();
    traverse::walk_types(&a, |t| got.push(t.symbol_range.start.offset));
    assert_same(&got, &exp);
    let mut nm = 0usize; let mut mid = 0usize;
    traverse::walk_methods(&a, |m| { nm += 1; mid = m.symbol_range.start.offset; });
    assert!(nm == 1 && mid == 50, "walk_methods yields the method (and not the constant)");
    let mut na = 0usize; let mut aid = 0usize;
    traverse::walk_args(&a, |_m, x| { na += 1; aid = x.symbol_range.start.offset; });
    assert!(na == 1 && aid == 62, "walk_args yields the argument");
    kani::cover!(exp.n >= 6, "nested types present");
    std::mem::forget(a);
}

/// walk_types on a parcelable (field + constant).
#[kani::proof]
#[kani::unwind(9)]
fn c15_walk_types_parcelable() {
    let c: [u8; 10] = kani::any();
    let mut cur = 0usize; let mut id = 100usize;
    let ft = mk_type(&c, &mut cur, 2, &mut id);
    let ct = mk_type(&c, &mut cur, 1, &mut id);
    let a = parcelable_tree(ft, ct);
    let mut exp = Seq::new();
    if let ast::Item::Parcelable(ref p) = a.item {
        if let ast::ParcelableElement::Field(ref f) = p.elements[0] { ref_type(&f.field_type, &mut exp); }
        if let ast::ParcelableElement::Const(ref k) = p.elements[1] { ref_type(&k.const_type, &mut exp); }
    }
    let mut got = Seq::new();
    traverse::walk_types(&a, |t| got.push(t.symbol_range.start.offset));
    assert_same(&got, &exp);
    kani::cover!(exp.n >= 5, "nested types present");
    std::mem::forget(a);
}

/// Thorough: depth-3 spine (array/list chains, maps with one deep child) in the return type.
pub fn mk_spine(c: &[u8], cur: &mut usize, depth: u8, id: &mut usize) -> ast::Type {
    let ch = if *cur < c.len() { c[*cur] } else { 0 };
    *cur += 1;
    *id += 1;
    let my = *id;
    if depth == 0 || ch == 0 || ch > 4 { return leaf(CAT_PRIMITIVE, my); }
    let a = mk_spine(c, cur, depth - 1, id);
    match ch {
        1 => container(ast::TypeKind::Array, vec![a], my),
        2 => container(ast::TypeKind::List, vec![a], my),
        3 => { *id += 1; container(ast::TypeKind::Map, vec![leaf(CAT_PRIMITIVE, *id), a], my) }
        _ => { *id += 1; container(ast::TypeKind::Map, vec![a, leaf(CAT_PRIMITIVE, *id)], my) }
    }
}

#[kani::proof]
#[kani::unwind(9)]
fn c15_symbols_spine_d3() {
    let c: [u8; 4] = kani::any();
    let mut cur = 0usize; let mut id = 100usize;
    let ret = mk_spine(&c, &mut cur, 3, &mut id);
    kani::cover!(ret.generic_types.len() >= 1 && ret.generic_types[0].generic_types.len() >= 1 && ret.generic_types[0].generic_types[0].generic_types.len() >= 1, "depth 3 reached");
    order_body!(interface_tree(ret, leaf(CAT_PRIMITIVE, 91), leaf(CAT_PRIMITIVE, 90)), 2)
}
