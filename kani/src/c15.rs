//! C15 -- traversal visits every node once, in order; filter and find agree with it.
//! Node identity = the offset of its symbol range (every node of a harness tree gets a distinct id).  The expected visiting
//! order is produced by the tree *builder* (it knows the shape it builds), never by walking the heap, and the visiting closure
//! compares on the fly -- so the only loops/recursion CBMC has to unwind are those of the code under test.
use crate::common::*;
use aidl_parser::ast;
use aidl_parser::symbol::Symbol;
use aidl_parser::traverse::{self, SymbolFilter};

pub const CAP: usize = 20;

pub struct Seq { pub v: [usize; CAP], pub n: usize }
impl Seq {
    pub fn new() -> Self { Seq { v: [0; CAP], n: 0 } }
    pub fn push(&mut self, x: usize) { if self.n < CAP { self.v[self.n] = x; } self.n += 1; }
    pub fn at(&self, k: usize) -> usize { if k < CAP { self.v[k] } else { 0 } }
}

/// Symbolic type shape from codes c[cur..]: 0 leaf, 1 array, 2 list, 3 map (two sub-trees).  Ids are assigned in construction
/// order; `out` receives the ids in the order the property prescribes (an array's element before the array, otherwise the
/// node before its parameters).
pub fn mk_type(c: &[u8], cur: &mut usize, depth: u8, id: &mut usize, out: &mut Seq) -> ast::Type {
    let ch = if *cur < c.len() { c[*cur] } else { 0 };
    *cur += 1;
    *id += 1;
    let my = *id;
    if depth == 0 || ch == 0 || ch > 3 {
        out.push(my);
        return leaf(CAT_PRIMITIVE, my);
    }
    if ch == 1 {
        let a = mk_type(c, cur, depth - 1, id, out);
        out.push(my);
        return container(ast::TypeKind::Array, vec![a], my);
    }
    out.push(my);
    let a = mk_type(c, cur, depth - 1, id, out);
    if ch == 2 {
        container(ast::TypeKind::List, vec![a], my)
    } else {
        let b = mk_type(c, cur, depth - 1, id, out);
        container(ast::TypeKind::Map, vec![a, b], my)
    }
}

/// Spine shapes for depth 3: 0 leaf, 1 array, 2 list, 3 map(leaf, x), 4 map(x, leaf).
pub fn mk_spine(c: &[u8], cur: &mut usize, depth: u8, id: &mut usize, out: &mut Seq) -> ast::Type {
    let ch = if *cur < c.len() { c[*cur] } else { 0 };
    *cur += 1;
    *id += 1;
    let my = *id;
    if depth == 0 || ch == 0 || ch > 4 {
        out.push(my);
        return leaf(CAT_PRIMITIVE, my);
    }
    match ch {
        1 => { let a = mk_spine(c, cur, depth - 1, id, out); out.push(my); container(ast::TypeKind::Array, vec![a], my) }
        2 => { out.push(my); let a = mk_spine(c, cur, depth - 1, id, out); container(ast::TypeKind::List, vec![a], my) }
        3 => { out.push(my); *id += 1; let l = *id; out.push(l); let a = mk_spine(c, cur, depth - 1, id, out); container(ast::TypeKind::Map, vec![leaf(CAT_PRIMITIVE, l), a], my) }
        _ => { out.push(my); let a = mk_spine(c, cur, depth - 1, id, out); *id += 1; let l = *id; out.push(l); container(ast::TypeKind::Map, vec![a, leaf(CAT_PRIMITIVE, l)], my) }
    }
}

pub fn filter_of(level: u8) -> SymbolFilter {
    match level { 0 => SymbolFilter::ItemsOnly, 1 => SymbolFilter::ItemsAndItemElements, _ => SymbolFilter::All }
}

pub fn interface_tree(ret: ast::Type, argt: ast::Type, constt: ast::Type) -> ast::Aidl {
    let m = method(false, ret, vec![arg(direction(1, 61), argt, 62)], 50);
    let c = constant(constt, 70);
    let it = ast::Interface { oneway: false, name: String::new(), elements: vec![ast::InterfaceElement::Method(m), ast::InterfaceElement::Const(c)], annotations: Vec::new(), doc: None, full_range: rng(1), symbol_range: rng(2) };
    ast::Aidl { package: package(3), imports: vec![import(5)], declared_parcelables: Vec::new(), item: ast::Item::Interface(it) }
}

pub fn parcelable_tree(ft: ast::Type, constt: ast::Type) -> ast::Aidl {
    let p = ast::Parcelable { name: String::new(), elements: vec![ast::ParcelableElement::Field(field(ft, 50)), ast::ParcelableElement::Const(constant(constt, 70))], annotations: Vec::new(), doc: None, full_range: rng(1), symbol_range: rng(2) };
    ast::Aidl { package: package(3), imports: vec![import(5)], declared_parcelables: Vec::new(), item: ast::Item::Parcelable(p) }
}

pub fn enum_tree() -> ast::Aidl {
    let els = vec![ast::EnumElement { name: String::new(), value: None, doc: None, symbol_range: rng(50), full_range: rng(60) },
                   ast::EnumElement { name: String::new(), value: None, doc: None, symbol_range: rng(51), full_range: rng(61) }];
    let e = ast::Enum { name: String::new(), elements: els, annotations: Vec::new(), doc: None, full_range: rng(1), symbol_range: rng(2) };
    ast::Aidl { package: package(3), imports: vec![import(5)], declared_parcelables: Vec::new(), item: ast::Item::Enum(e) }
}

/// Walk at level All and compare with `exp` on the fly.
fn check_walk_all(a: &ast::Aidl, exp: &Seq) {
    let mut n = 0usize;
    let mut ok = true;
    traverse::walk_symbols(a, SymbolFilter::All, |s| { if s.get_range().start.offset != exp.at(n) { ok = false; } n += 1; });
    assert!(n == exp.n, "every node is visited exactly once (number of visits = number of nodes)");
    assert!(ok, "symbols are visited in source order (an array's element type before the array)");
}

/// Interface at the most detailed level: return type of symbolic shape to depth 2 (all 25 shapes incl. maps with two sub-trees).
#[kani::proof]
#[kani::unwind(3)]
fn c15_symbols_interface_return_d2() {
    let c: [u8; 7] = kani::any();
    let mut exp = Seq::new();
    exp.push(3); exp.push(5); exp.push(2); exp.push(50);
    let mut cur = 0usize; let mut id = 100usize;
    let ret = mk_type(&c, &mut cur, 2, &mut id, &mut exp);
    exp.push(62); exp.push(91); exp.push(70); exp.push(90);
    kani::cover!(ret.generic_types.len() == 2 && ret.generic_types[0].generic_types.len() >= 1, "map whose key is itself a container");
    kani::cover!(ret.kind == ast::TypeKind::Array && ret.generic_types[0].kind == ast::TypeKind::Array, "array of arrays");
    let a = interface_tree(ret, leaf(CAT_PRIMITIVE, 91), leaf(CAT_PRIMITIVE, 90));
    check_walk_all(&a, &exp);
    std::mem::forget(a);
}

/// Argument type and constant type of symbolic shape (depth 2 / depth 1).
#[kani::proof]
#[kani::unwind(4)]
fn c15_symbols_interface_arg_const() {
    let c: [u8; 10] = kani::any();
    let mut exp = Seq::new();
    exp.push(3); exp.push(5); exp.push(2); exp.push(50); exp.push(91); exp.push(62);
    let mut cur = 0usize; let mut id = 100usize;
    let argt = mk_type(&c, &mut cur, 2, &mut id, &mut exp);
    exp.push(70);
    let ct = mk_type(&c, &mut cur, 1, &mut id, &mut exp);
    kani::cover!(argt.generic_types.len() == 1 && argt.generic_types[0].generic_types.len() == 2, "list of maps as argument type");
    let a = interface_tree(leaf(CAT_PRIMITIVE, 91), argt, ct);
    check_walk_all(&a, &exp);
    std::mem::forget(a);
}

/// Parcelable: field type to depth 2, constant type to depth 1.
#[kani::proof]
#[kani::unwind(4)]
fn c15_symbols_parcelable_d2() {
    let c: [u8; 10] = kani::any();
    let mut exp = Seq::new();
    exp.push(3); exp.push(5); exp.push(2); exp.push(50);
    let mut cur = 0usize; let mut id = 100usize;
    let ft = mk_type(&c, &mut cur, 2, &mut id, &mut exp);
    exp.push(70);
    let ct = mk_type(&c, &mut cur, 1, &mut id, &mut exp);
    kani::cover!(ft.generic_types.len() == 1 && ft.generic_types[0].generic_types.len() == 2, "list of maps");
    let a = parcelable_tree(ft, ct);
    check_walk_all(&a, &exp);
    std::mem::forget(a);
}

/// The two coarser levels and the enum item: exactly the sub-sequences `item` and `item + direct members`.
#[kani::proof]
#[kani::unwind(4)]
fn c15_levels() {
    let c: [u8; 3] = kani::any();
    let (kind, level) = (c[0], c[1]);
    kani::assume(kind < 3 && level < 3);
    let mut exp = Seq::new();
    if level == 2 { exp.push(3); exp.push(5); }
    exp.push(2);
    let mut cur = 2usize; let mut id = 100usize;
    let mut tseq = Seq::new();
    let t = mk_type(&c, &mut cur, 1, &mut id, &mut tseq);
    let a = match kind {
        0 => {
            if level >= 1 { exp.push(50); }
            if level == 2 { let mut k = 0; while k < 3 { if k < tseq.n { exp.push(tseq.v[k]); } k += 1; } exp.push(62); exp.push(91); }
            if level >= 1 { exp.push(70); }
            if level == 2 { exp.push(90); }
            interface_tree(t, leaf(CAT_PRIMITIVE, 91), leaf(CAT_PRIMITIVE, 90))
        }
        1 => {
            if level >= 1 { exp.push(50); }
            if level == 2 { let mut k = 0; while k < 3 { if k < tseq.n { exp.push(tseq.v[k]); } k += 1; } }
            if level >= 1 { exp.push(70); }
            if level == 2 { exp.push(90); }
            parcelable_tree(t, leaf(CAT_PRIMITIVE, 90))
        }
        _ => { if level >= 1 { exp.push(50); exp.push(51); } enum_tree() }
    };
    let mut n = 0usize; let mut ok = true;
    traverse::walk_symbols(&a, filter_of(level), |s| { if s.get_range().start.offset != exp.at(n) { ok = false; } n += 1; });
    assert!(n == exp.n, "each level visits exactly its own symbols");
    assert!(ok, "coarser levels are the sub-sequences item / item + members, in order");
    kani::cover!(kind == 2 && level == 2, "enum at the most detailed level");
    kani::cover!(kind == 0 && level == 1, "interface with its members only");
    std::mem::forget(a);
}

/// find_symbol returns the FIRST visited symbol satisfying the predicate -- for every node, the package included -- and None when
/// nothing matches; filter_symbols returns exactly the visited symbols that satisfy it.
#[kani::proof]
#[kani::unwind(4)]
fn c15_find_and_filter() {
    let c: [u8; 9] = kani::any();
    let k = c[0] as usize;
    let mut exp = Seq::new();
    exp.push(3); exp.push(5); exp.push(2); exp.push(50);
    let mut cur = 2usize; let mut id = 100usize;
    let ret = mk_type(&c, &mut cur, 2, &mut id, &mut exp);
    exp.push(62); exp.push(91); exp.push(70); exp.push(90);
    let a = interface_tree(ret, leaf(CAT_PRIMITIVE, 91), leaf(CAT_PRIMITIVE, 90));
    kani::assume(k <= exp.n && k < CAP);
    // predicate 'is the node with the k-th id' (k == n: an id no node carries)
    let target = if k < exp.n { exp.v[k] } else { 9999 };
    let f = traverse::find_symbol(&a, SymbolFilter::All, |s| s.get_range().start.offset == target);
    if k < exp.n {
        assert!(f.is_some(), "find_symbol finds every visited symbol (the package included)");
        if let Some(s) = f { assert!(s.get_range().start.offset == target, "find_symbol returns a symbol satisfying the predicate"); }
    } else {
        assert!(f.is_none(), "find_symbol returns None when nothing matches");
    }
    // predicate 'is at or after the k-th visit': find returns the k-th in visit order
    let mut cnt = 0usize;
    let f2 = traverse::find_symbol(&a, SymbolFilter::All, |_s| { cnt += 1; cnt > k });
    if k < exp.n { assert!(f2.is_some(), "find_symbol finds the first match"); if let Some(s) = f2 { assert!(s.get_range().start.offset == exp.v[k], "find_symbol returns the FIRST match in visit order"); } }
    else { assert!(f2.is_none(), "find_symbol returns None when the predicate never holds"); }
    let v = traverse::filter_symbols(&a, SymbolFilter::All, |s| s.get_range().start.offset == target);
    assert!(v.len() == (k < exp.n) as usize, "filter_symbols returns exactly the matching symbols");
    kani::cover!(k == 0, "predicate selects the package");
    kani::cover!(k == exp.n, "predicate selects nothing");
    kani::cover!(k >= 6 && k < exp.n, "predicate selects a nested type");
    std::mem::forget(v);
    std::mem::forget(a);
}

/// Coarser levels of find_symbol: the item is found at every level, members from ItemsAndItemElements on, the package only at All.
#[kani::proof]
#[kani::unwind(4)]
fn c15_find_levels() {
    let c: [u8; 2] = kani::any();
    let (level, which) = (c[0], c[1]);
    kani::assume(level < 3 && which < 4);
    let a = interface_tree(leaf(CAT_PRIMITIVE, 92), leaf(CAT_PRIMITIVE, 91), leaf(CAT_PRIMITIVE, 90));
    let target = match which { 0 => 3usize, 1 => 2, 2 => 50, _ => 92 };
    let visible = match which { 0 => level == 2, 1 => true, 2 => level >= 1, _ => level == 2 };
    let f = traverse::find_symbol(&a, filter_of(level), |s| s.get_range().start.offset == target);
    assert!(f.is_some() == visible, "find_symbol sees exactly the symbols its level visits");
    kani::cover!(which == 0 && level == 2, "package at level All");
    std::mem::forget(a);
}

/// walk_types / walk_methods / walk_args yield every type (any depth), method and argument in source order.
#[kani::proof]
#[kani::unwind(4)]
fn c15_walk_types_methods_args() {
    let c: [u8; 10] = kani::any();
    let mut exp = Seq::new();
    let mut cur = 0usize; let mut id = 100usize;
    let ret = mk_type(&c, &mut cur, 2, &mut id, &mut exp);
    let argt = mk_type(&c, &mut cur, 1, &mut id, &mut exp);
    exp.push(90);
    let a = interface_tree(ret, argt, leaf(CAT_PRIMITIVE, 90));
    let mut n = 0usize; let mut ok = true;
    traverse::walk_types(&a, |t| { if t.symbol_range.start.offset != exp.at(n) { ok = false; } n += 1; });
    assert!(n == exp.n, "walk_types yields every type node at any depth exactly once");
    assert!(ok, "walk_types yields types in source order (element before array)");
    let mut nm = 0usize; let mut mid = 0usize;
    traverse::walk_methods(&a, |m| { nm += 1; mid = m.symbol_range.start.offset; });
    assert!(nm == 1 && mid == 50, "walk_methods yields the method (and not the constant)");
    let mut na = 0usize; let mut aid = 0usize;
    traverse::walk_args(&a, |_m, x| { na += 1; aid = x.symbol_range.start.offset; });
    assert!(na == 1 && aid == 62, "walk_args yields the argument");
    kani::cover!(exp.n >= 6, "nested types present");
    std::mem::forget(a);
}

#[kani::proof]
#[kani::unwind(4)]
fn c15_walk_types_parcelable() {
    let c: [u8; 10] = kani::any();
    let mut exp = Seq::new();
    let mut cur = 0usize; let mut id = 100usize;
    let ft = mk_type(&c, &mut cur, 2, &mut id, &mut exp);
    let ct = mk_type(&c, &mut cur, 1, &mut id, &mut exp);
    let a = parcelable_tree(ft, ct);
    let mut n = 0usize; let mut ok = true;
    traverse::walk_types(&a, |t| { if t.symbol_range.start.offset != exp.at(n) { ok = false; } n += 1; });
    assert!(n == exp.n, "walk_types yields every type node at any depth exactly once");
    assert!(ok, "walk_types yields types in source order (element before array)");
    kani::cover!(exp.n >= 5, "nested types present");
    std::mem::forget(a);
}

/// Thorough: depth-3 spine in the return type.
#[kani::proof]
#[kani::unwind(5)]
fn c15_symbols_spine_d3() {
    let c: [u8; 4] = kani::any();
    let mut exp = Seq::new();
    exp.push(3); exp.push(5); exp.push(2); exp.push(50);
    let mut cur = 0usize; let mut id = 100usize;
    let ret = mk_spine(&c, &mut cur, 3, &mut id, &mut exp);
    exp.push(62); exp.push(91); exp.push(70); exp.push(90);
    kani::cover!(c[0] >= 1 && c[0] <= 4 && c[1] >= 1 && c[1] <= 4 && c[2] >= 1 && c[2] <= 4, "depth 3 reached");
    let a = interface_tree(ret, leaf(CAT_PRIMITIVE, 91), leaf(CAT_PRIMITIVE, 90));
    check_walk_all(&a, &exp);
    std::mem::forget(a);
}

// ---------------------------------------------------------------------------------------------------------------
// Concrete shape table: all 25 container shapes of nesting depth <= 2 over {array, list, map}.  With the shape concrete the
// tree is concrete; the filter level, predicate index and query position stay symbolic.
// ---------------------------------------------------------------------------------------------------------------
pub const NSHAPES: usize = 25;
pub const SHAPES: [[u8; 7]; NSHAPES] = [
    [0, 0, 0, 0, 0, 0, 0],
    [1, 0, 0, 0, 0, 0, 0], [1, 1, 0, 0, 0, 0, 0], [1, 2, 0, 0, 0, 0, 0], [1, 3, 0, 0, 0, 0, 0],
    [2, 0, 0, 0, 0, 0, 0], [2, 1, 0, 0, 0, 0, 0], [2, 2, 0, 0, 0, 0, 0], [2, 3, 0, 0, 0, 0, 0],
    [3, 0, 0, 0, 0, 0, 0], [3, 0, 1, 0, 0, 0, 0], [3, 0, 2, 0, 0, 0, 0], [3, 0, 3, 0, 0, 0, 0],
    [3, 1, 0, 0, 0, 0, 0], [3, 1, 0, 1, 0, 0, 0], [3, 1, 0, 2, 0, 0, 0], [3, 1, 0, 3, 0, 0, 0],
    [3, 2, 0, 0, 0, 0, 0], [3, 2, 0, 1, 0, 0, 0], [3, 2, 0, 2, 0, 0, 0], [3, 2, 0, 3, 0, 0, 0],
    [3, 3, 0, 0, 0, 0, 0], [3, 3, 0, 0, 1, 0, 0], [3, 3, 0, 0, 2, 0, 0], [3, 3, 0, 0, 3, 0, 0],
];

fn one_shape_return(sh: &[u8; 7]) {
    let mut exp = Seq::new();
    exp.push(3); exp.push(5); exp.push(2); exp.push(50);
    let mut cur = 0usize; let mut id = 100usize;
    let ret = mk_type(sh, &mut cur, 2, &mut id, &mut exp);
    exp.push(62); exp.push(91); exp.push(70); exp.push(90);
    let a = interface_tree(ret, leaf(CAT_PRIMITIVE, 91), leaf(CAT_PRIMITIVE, 90));
    check_walk_all(&a, &exp);
    std::mem::forget(a);
}

#[kani::proof]
#[kani::unwind(3)]
fn c15p_one_concrete_shape() {
    one_shape_return(&SHAPES[22]);
}

#[kani::proof]
#[kani::unwind(4)]
fn c15p_five_concrete_shapes() {
    one_shape_return(&SHAPES[4]); one_shape_return(&SHAPES[8]); one_shape_return(&SHAPES[14]); one_shape_return(&SHAPES[19]); one_shape_return(&SHAPES[24]);
}
