//! C05 -- every user-type reference is resolved per AIDL scoping, or reported unknown (partial, see DESIGN.md).
use crate::common::*;
use crate::c15::{mk_type, mk_spine, Seq, CAP};
use crate::c08::in_position;
use aidl_parser::ast;
use aidl_parser::verif_hooks::traverse as vt;
use aidl_parser::verif_hooks::validation as v;
use std::collections::{HashMap, HashSet};
use std::hash::RandomState;

macro_rules! mut_walk_body {
    ($mk:ident, $depth:expr, $n:expr, $pos:expr) => {{
        let c: [u8; $n] = kani::any();
        let mut cur = 0usize; let mut id = 100usize;
        let mut exp = Seq::new();
        let t = $mk(&c, &mut cur, $depth, &mut id, &mut exp);
        let nodes = exp.n + if $pos == 1 { 1 } else { 0 };      // argument position: the void return type is a type node too
        let mut a = in_position(t, $pos);
        let mut calls = 0usize;
        let mut twice = false;
        // the closure marks the node it is given (full-range offset 7000): a second visit of a marked node is detected
        vt::walk_types_mut(&mut a, |t: &mut ast::Type| {
            calls += 1;
            if t.full_range.start.offset == 7000 { twice = true; }
            t.full_range.start.offset = 7000;
        });
        assert!(!twice, "no type node is offered to the resolver twice");
        assert!(calls == nodes, "every type node, at any depth, is offered to the resolver exactly once");
        kani::cover!(nodes >= 4, "nested types present");
        std::mem::forget(a);
    }};
}

#[kani::proof]
#[kani::unwind(4)]
fn c05_walk_mut_return_d2() { mut_walk_body!(mk_type, 2, 7, 0) }

#[kani::proof]
#[kani::unwind(4)]
fn c05_walk_mut_arg_d2() { mut_walk_body!(mk_type, 2, 7, 1) }

#[kani::proof]
#[kani::unwind(4)]
fn c05_walk_mut_field_d2() { mut_walk_body!(mk_type, 2, 7, 3) }

#[kani::proof]
#[kani::unwind(4)]
fn c05_walk_mut_const_d2() { mut_walk_body!(mk_type, 2, 7, 2) }

#[kani::proof]
#[kani::unwind(5)]
fn c05_walk_mut_spine_d3() { mut_walk_body!(mk_spine, 3, 4, 0) }

fn all_builtin(k: u8) -> ast::AndroidTypeKind {
    match k { 0 => ast::AndroidTypeKind::IBinder, 1 => ast::AndroidTypeKind::FileDescriptor, 2 => ast::AndroidTypeKind::ParcelFileDescriptor, _ => ast::AndroidTypeKind::ParcelableHolder }
}

/// Built-in tables: names round-trip, simple names are exactly the four the property lists, only ParcelFileDescriptor may be qualified.
#[kani::proof]
#[kani::unwind(34)]
fn c05_builtin_tables() {
    let c: [u8; 1] = kani::any();
    kani::assume(c[0] < 4);
    let k = all_builtin(c[0]);
    let want = match c[0] { 0 => "IBinder", 1 => "FileDescriptor", 2 => "ParcelFileDescriptor", _ => "ParcelableHolder" };
    assert!(k.get_name() == want, "simple names of the built-ins");
    assert!(ast::AndroidTypeKind::from_name(k.get_name()) == Some(all_builtin(c[0])), "from_name inverts get_name");
    assert!(ast::AndroidTypeKind::from_qualified_name(k.get_qualified_name()) == Some(all_builtin(c[0])), "from_qualified_name inverts get_qualified_name");
    assert!(k.can_be_qualified() == (c[0] == 2), "only ParcelFileDescriptor is accepted fully qualified");
    if c[0] == 2 { assert!(k.get_qualified_name() == "android.os.ParcelFileDescriptor", "qualified name of ParcelFileDescriptor"); }
    std::mem::forget(k);
}

fn rs_fixed() -> RandomState {
    unsafe { std::mem::transmute::<(u64, u64), RandomState>((1, 2)) }
}

/// resolve_type on a file without imports or forward declarations: pool of built-in names, qualified names and near-misses.
#[kani::proof]
#[kani::stub(std::hash::RandomState::new, rs_fixed)]
#[kani::stub(alloc::fmt::format, stub_format)]
#[kani::unwind(34)]
fn c05_resolve_no_imports() {
    let c: [u8; 1] = kani::any();
    kani::assume(c[0] < 12);
    let name = match c[0] {
        0 => "IBinder", 1 => "FileDescriptor", 2 => "ParcelFileDescriptor", 3 => "ParcelableHolder",
        4 => "android.os.ParcelFileDescriptor",
        5 => "android.os.IBinder", 6 => "java.os.FileDescriptor", 7 => "android.os.ParcelableHolder",
        8 => "XIBinder", 9 => "IBinderX", 10 => "os.ParcelFileDescriptor", _ => "Foo",
    };
    let mut t = ast::Type { name: name.to_owned(), kind: ast::TypeKind::Unresolved, generic_types: Vec::new(), symbol_range: rng(5), full_range: rng(6) };
    let imports: HashSet<String> = HashSet::new();
    let declared: HashSet<String> = HashSet::new();
    let defined: HashMap<String, ast::ResolvedItemKind> = HashMap::new();
    let mut diags = Vec::with_capacity(4);
    v::resolve_type(&mut t, &imports, &declared, &defined, &mut diags);
    let builtin: Option<u8> = match c[0] { 0 => Some(0), 1 => Some(1), 2 => Some(2), 3 => Some(3), 4 => Some(2), _ => None };
    match builtin {
        Some(b) => {
            assert!(t.kind == ast::TypeKind::AndroidType(all_builtin(b)), "built-in names resolve to their built-in");
            assert!(diags.len() == 0, "a resolved built-in gets no diagnostic");
        }
        None => {
            assert!(t.kind == ast::TypeKind::Unresolved, "near-miss and unknown names stay unresolved");
            assert!(diags.len() == 1, "exactly one unknown-type Error");
            assert!(is_error(&diags[0]) && diags[0].range.start.offset == 5, "the Error sits on the name");
        }
    }
    kani::cover!(c[0] == 4, "qualified ParcelFileDescriptor");
    kani::cover!(c[0] == 8, "near miss");
    std::mem::forget(t); std::mem::forget(diags); std::mem::forget(imports); std::mem::forget(declared); std::mem::forget(defined);
}

/// Already-classified types are left alone (no diagnostic, kind unchanged).
#[kani::proof]
#[kani::stub(std::hash::RandomState::new, rs_fixed)]
#[kani::stub(alloc::fmt::format, stub_format)]
#[kani::unwind(8)]
fn c05_resolve_leaves_classified_alone() {
    let c: [u8; 1] = kani::any();
    kani::assume(c[0] < N_CAT && c[0] != CAT_UNRESOLVED);
    let mut t = leaf(c[0], 5);
    let imports: HashSet<String> = HashSet::new();
    let declared: HashSet<String> = HashSet::new();
    let defined: HashMap<String, ast::ResolvedItemKind> = HashMap::new();
    let mut diags = Vec::with_capacity(4);
    v::resolve_type(&mut t, &imports, &declared, &defined, &mut diags);
    assert!(t.kind == kind_of(c[0]) && diags.len() == 0, "primitive / container / already resolved types are not touched");
    std::mem::forget(t); std::mem::forget(diags); std::mem::forget(imports); std::mem::forget(declared); std::mem::forget(defined);
}
