//! C18 (back-scan only) and C01.1 -- the doc comment that directly precedes a construct, verbatim; the scan never panics.
use crate::common::*;
use aidl_parser::verif_hooks::javadoc as jd;

/// Appends the UTF-8 bytes of character class k: 0 '/', 1 '*', 2 ' ', 3 '\n', 4 '\r', 5 '\t', 6 'a', 7 U+00E9 (2 bytes),
/// 8 U+20AC (3 bytes), 9 U+1F600 (4 bytes), 10 '@', 11 ';'.
fn put(buf: &mut [u8], len: &mut usize, k: u8) {
    match k {
        0 => { buf[*len] = b'/'; *len += 1; }
        1 => { buf[*len] = b'*'; *len += 1; }
        2 => { buf[*len] = b' '; *len += 1; }
        3 => { buf[*len] = b'\n'; *len += 1; }
        4 => { buf[*len] = b'\r'; *len += 1; }
        5 => { buf[*len] = b'\t'; *len += 1; }
        6 => { buf[*len] = b'a'; *len += 1; }
        7 => { buf[*len] = 0xc3; buf[*len + 1] = 0xa9; *len += 2; }
        8 => { buf[*len] = 0xe2; buf[*len + 1] = 0x82; buf[*len + 2] = 0xac; *len += 3; }
        9 => { buf[*len] = 0xf0; buf[*len + 1] = 0x9f; buf[*len + 2] = 0x98; buf[*len + 3] = 0x80; *len += 4; }
        10 => { buf[*len] = b'@'; *len += 1; }
        _ => { buf[*len] = b';'; *len += 1; }
    }
}

macro_rules! scan_total_body {
    ($n:expr) => {{
        let c: [u8; $n + 1] = kani::any();
        let n = c[0] as usize;
        kani::assume(n <= $n);
        let mut buf = [0u8; 4 * $n];
        let mut len = 0usize;
        let mut i = 0;
        while i < n { kani::assume(c[1 + i] < 10); put(&mut buf, &mut len, c[1 + i]); i += 1; }
        let s = unsafe { core::str::from_utf8_unchecked(&buf[..len]) };
        let r = jd::find_content_string(s);
        if let Some(x) = r { assert!(x.len() <= s.len(), "the extracted text is a slice of the input"); }
        kani::cover!(r.is_some(), "a doc comment was found");
    }};
}

/// C01.1: the back-scan returns normally for every text of up to N characters over the class alphabet (1- to 4-byte code points).
#[kani::proof]
#[kani::unwind(10)]
fn c01_docscan_total_7() { scan_total_body!(7) }

#[kani::proof]
#[kani::unwind(12)]
fn c01_docscan_total_9() { scan_total_body!(9) }

/// C18: input = pre ++ "/**" ++ W ++ "*/" ++ sep*  where W has up to WN characters (no '*', '/', '@') and the separators are
/// whitespace / an ordinary block comment / a line comment; the scan returns exactly W, byte for byte.
macro_rules! exact_body {
    ($wn:expr, $cap:expr) => {{
        let c: [u8; $wn + 4] = kani::any();
        let (pre, n, sep0, sep1) = (c[0], c[1] as usize, c[2], c[3]);
        kani::assume(pre < 4 && n <= $wn && sep0 < 6 && sep1 < 6);
        let mut buf = [0u8; $cap];
        let mut len = 0usize;
        // what comes before the doc comment: nothing, ';', '}', or an earlier doc comment
        match pre {
            0 => (),
            1 => { put(&mut buf, &mut len, 11); put(&mut buf, &mut len, 3); }
            2 => { buf[len] = b'}'; len += 1; put(&mut buf, &mut len, 2); }
            _ => { put(&mut buf, &mut len, 0); put(&mut buf, &mut len, 1); put(&mut buf, &mut len, 1); put(&mut buf, &mut len, 6); put(&mut buf, &mut len, 1); put(&mut buf, &mut len, 0); put(&mut buf, &mut len, 3); }
        }
        put(&mut buf, &mut len, 0); put(&mut buf, &mut len, 1); put(&mut buf, &mut len, 1);
        let wstart = len;
        let mut i = 0;
        while i < n { let k = c[4 + i]; kani::assume(k >= 2 && k <= 9); put(&mut buf, &mut len, k); i += 1; }
        let wend = len;
        put(&mut buf, &mut len, 1); put(&mut buf, &mut len, 0);
        // separators: 0 none, 1 space, 2 "\n", 3 "\r\n", 4 "/*c*/", 5 "//c\n"
        let mut j = 0;
        while j < 2 {
            let s = if j == 0 { sep0 } else { sep1 };
            match s {
                0 => (),
                1 => put(&mut buf, &mut len, 2),
                2 => put(&mut buf, &mut len, 3),
                3 => { put(&mut buf, &mut len, 4); put(&mut buf, &mut len, 3); }
                4 => { put(&mut buf, &mut len, 0); put(&mut buf, &mut len, 1); put(&mut buf, &mut len, 6); put(&mut buf, &mut len, 1); put(&mut buf, &mut len, 0); }
                _ => { put(&mut buf, &mut len, 0); put(&mut buf, &mut len, 0); put(&mut buf, &mut len, 6); put(&mut buf, &mut len, 3); }
            }
            j += 1;
        }
        let s = unsafe { core::str::from_utf8_unchecked(&buf[..len]) };
        let r = jd::find_content_string(s);
        assert!(r.is_some(), "a directly preceding doc comment is found");
        if let Some(x) = r {
            let xb = x.as_bytes();
            assert!(xb.len() == wend - wstart, "the documentation text has exactly the bytes of the comment body");
            let mut k = 0;
            while k < $cap { if k < xb.len() { assert!(xb[k] == buf[wstart + k], "the words are preserved byte for byte"); } k += 1; }
        }
        kani::cover!(n >= 2 && c[4] == 7, "body starts with a 2-byte character");
        kani::cover!(sep0 == 4 && sep1 == 5, "ordinary and line comment between doc comment and construct");
    }};
}

#[kani::proof]
#[kani::unwind(38)]
fn c18_exact_w2() { exact_body!(2, 36) }

#[kani::proof]
#[kani::unwind(42)]
fn c18_exact_w3() { exact_body!(3, 40) }

#[kani::proof]
#[kani::unwind(50)]
fn c18_exact_w5() { exact_body!(5, 48) }

/// A construct NOT directly preceded by a doc comment has none: something else (`x;`) sits between, or there is only an ordinary comment.
#[kani::proof]
#[kani::unwind(26)]
fn c18_no_doc() {
    let c: [u8; 2] = kani::any();
    kani::assume(c[0] < 3 && c[1] < 4);
    let mut buf = [0u8; 24];
    let mut len = 0usize;
    match c[0] {
        // "/**a*/ a; "  -- the doc comment belongs to the previous member
        0 => { for k in [0u8, 1, 1, 6, 1, 0, 2, 6, 11] { put(&mut buf, &mut len, k); } }
        // "/*a*/"  -- ordinary comment only
        1 => { for k in [0u8, 1, 6, 1, 0] { put(&mut buf, &mut len, k); } }
        // ";"  -- nothing
        _ => { put(&mut buf, &mut len, 11); }
    }
    match c[1] { 0 => (), 1 => put(&mut buf, &mut len, 2), 2 => put(&mut buf, &mut len, 3), _ => { put(&mut buf, &mut len, 4); put(&mut buf, &mut len, 3); } }
    let s = unsafe { core::str::from_utf8_unchecked(&buf[..len]) };
    let r = jd::find_content_string(s);
    assert!(r.is_none(), "no documentation without a directly preceding doc comment");
}

/// Code sits between a doc comment (optionally followed by a line or block comment) and the construct: the doc comment belongs to
/// that earlier code, the construct has none -- whatever comments followed the earlier doc comment.
#[kani::proof]
#[kani::unwind(26)]
fn c18_no_doc_code_between() {
    let c: [u8; 3] = kani::any();
    kani::assume(c[0] < 4 && c[1] < 3 && c[2] < 4);
    let mut buf = [0u8; 24];
    let mut len = 0usize;
    // "/**a*/"
    for k in [0u8, 1, 1, 6, 1, 0] { put(&mut buf, &mut len, k); }
    // what follows the doc comment before the code: " ", " //a\n", "/*a*/", "\n//a\n"
    match c[0] {
        0 => put(&mut buf, &mut len, 2),
        1 => { for k in [2u8, 0, 0, 6, 3] { put(&mut buf, &mut len, k); } }
        2 => { for k in [0u8, 1, 6, 1, 0] { put(&mut buf, &mut len, k); } }
        _ => { for k in [3u8, 0, 0, 6, 3] { put(&mut buf, &mut len, k); } }
    }
    // the code the doc comment belongs to: "a;", "a,", "a;\n"
    put(&mut buf, &mut len, 6);
    match c[1] { 0 => put(&mut buf, &mut len, 11), 1 => { buf[len] = b','; len += 1; } _ => { put(&mut buf, &mut len, 11); put(&mut buf, &mut len, 3); } }
    match c[2] { 0 => (), 1 => put(&mut buf, &mut len, 2), 2 => put(&mut buf, &mut len, 3), _ => { put(&mut buf, &mut len, 4); put(&mut buf, &mut len, 3); } }
    let s = unsafe { core::str::from_utf8_unchecked(&buf[..len]) };
    let r = jd::find_content_string(s);
    assert!(r.is_none(), "a doc comment separated from the construct by code does not attach to it");
    kani::cover!(c[0] == 1, "line comment after the earlier doc comment");
}
