//! C08 -- array, list and map element rules are enforced on every container type.
use crate::common::*;
use aidl_parser::ast;
use aidl_parser::verif_hooks::validation as v;

// Reference tables, written from the property statement. None = the statement leaves it open.
fn array_elem_ok(c: u8) -> Option<bool> {
    Some(match c {
        CAT_PRIMITIVE | CAT_STRING | CAT_ENUM | CAT_PARCELABLE | CAT_FWD | CAT_UNKNOWN_IMPORT | CAT_IBINDER | CAT_FD | CAT_PFD => true,
        CAT_ARRAY | CAT_LIST | CAT_MAP | CAT_VOID | CAT_CHARSEQ | CAT_INTERFACE | CAT_HOLDER => false,
        _ => true, // unresolved: benefit of the doubt
    })
}
fn list_elem_ok(c: u8) -> Option<bool> {
    Some(match c {
        CAT_STRING | CAT_PARCELABLE | CAT_FWD | CAT_UNKNOWN_IMPORT | CAT_IBINDER | CAT_PFD => true,
        CAT_UNRESOLVED => true,
        _ => false,
    })
}
fn map_key_ok(c: u8) -> Option<bool> {
    if c == CAT_UNRESOLVED { None } else { Some(c == CAT_STRING) }
}
fn map_value_ok(c: u8) -> Option<bool> {
    Some(!(c == CAT_PRIMITIVE || c == CAT_VOID || c == CAT_ENUM))
}

/// Array with one element of any of the 17 categories (container categories included: the element rule looks at the kind only).
#[kani::proof]
#[kani::stub(alloc::fmt::format, stub_format)]
#[kani::unwind(4)]
fn c08_array_element() {
    let c: [u8; 1] = kani::any();
    kani::assume(c[0] < N_CAT);
    let t = container(ast::TypeKind::Array, vec![leaf(c[0], 33)], 44);
    let mut diags = Vec::with_capacity(8);
    v::check_container(&t, &mut diags);
    let ok = array_elem_ok(c[0]).unwrap();
    assert!(diags.len() == (!ok) as usize, "exactly one diagnostic per offending array element");
    if !ok { assert!(is_error(&diags[0]) && diags[0].range.start.offset == 33 && diags[0].range.end.offset == 33, "Error on the element"); }
    kani::cover!(!ok, "offending element");
    kani::cover!(ok, "legal element");
    std::mem::forget(diags);
    std::mem::forget(t);
}

#[kani::proof]
#[kani::stub(alloc::fmt::format, stub_format)]
#[kani::unwind(4)]
fn c08_list_element() {
    let c: [u8; 1] = kani::any();
    kani::assume(c[0] < N_CAT);
    let t = container(ast::TypeKind::List, vec![leaf(c[0], 33)], 44);
    let mut diags = Vec::with_capacity(8);
    v::check_container(&t, &mut diags);
    let ok = list_elem_ok(c[0]).unwrap();
    assert!(diags.len() == (!ok) as usize, "exactly one diagnostic per offending list element");
    if !ok { assert!(is_error(&diags[0]) && diags[0].range.start.offset == 33 && diags[0].range.end.offset == 33, "Error on the element"); }
    kani::cover!(!ok, "offending element");
    kani::cover!(ok, "legal element");
    std::mem::forget(diags);
    std::mem::forget(t);
}

#[kani::proof]
#[kani::stub(alloc::fmt::format, stub_format)]
#[kani::unwind(8)]
fn c08_map_key_value() {
    let c: [u8; 2] = kani::any();
    kani::assume(c[0] < N_CAT && c[1] < N_CAT && c[0] != CAT_UNRESOLVED);
    let t = container(ast::TypeKind::Map, vec![leaf(c[0], 33), leaf(c[1], 34)], 44);
    let mut diags = Vec::with_capacity(8);
    v::check_container(&t, &mut diags);
    let kok = map_key_ok(c[0]).unwrap();
    let vok = map_value_ok(c[1]).unwrap();
    assert!(diags.len() == (!kok) as usize + (!vok) as usize, "one Error per offending key / value");
    if !kok { assert!(is_error(&diags[0]) && diags[0].range.start.offset == 33, "Error on the key"); }
    if !vok { let k = (!kok) as usize; assert!(is_error(&diags[k]) && diags[k].range.start.offset == 34, "Error on the value"); }
    kani::cover!(!kok && !vok, "both offending");
    kani::cover!(kok && vok, "legal map");
    std::mem::forget(diags);
    std::mem::forget(t);
}

/// Raw `List` / `Map`: exactly one Warning on the keyword; other kinds with no generics: nothing.
#[kani::proof]
#[kani::stub(alloc::fmt::format, stub_format)]
#[kani::unwind(4)]
fn c08_raw_containers() {
    let c: [u8; 1] = kani::any();
    kani::assume(c[0] < N_CAT && c[0] != CAT_ARRAY);
    let t = leaf(c[0], 44);
    let mut diags = Vec::with_capacity(8);
    v::check_container(&t, &mut diags);
    let raw = c[0] == CAT_LIST || c[0] == CAT_MAP;
    assert!(diags.len() == raw as usize, "one Warning per raw List/Map, nothing for non-containers");
    if raw { assert!(is_warning(&diags[0]) && diags[0].range.start.offset == 44, "Warning on the keyword"); }
    kani::cover!(raw, "raw container");
    std::mem::forget(diags);
    std::mem::forget(t);
}

/// Symbolic container shape: 0 leaf, 1 array, 2 list, 3 map(String, x), 4 map(x, String) -- depth-limited; leaves int / String.
/// Returns (type, number of Errors the reference demands over ALL container nodes, nodes).
fn mk(c: &[u8], cur: &mut usize, depth: u8, id: &mut usize) -> (ast::Type, usize) {
    let ch = c[*cur];
    *cur += 1;
    *id += 1;
    let my = *id;
    if depth == 0 || ch == 0 || ch >= 5 {
        // leaf: int (5 -> String)
        let cat = if ch == 5 { CAT_STRING } else { CAT_PRIMITIVE };
        return (leaf(cat, my), 0);
    }
    let (a, ea) = mk(c, cur, depth - 1, id);
    let acat = cat_of(&a);
    match ch {
        1 => { let e = (!array_elem_ok(acat).unwrap()) as usize; (container(ast::TypeKind::Array, vec![a], my), ea + e) }
        2 => { let e = (!list_elem_ok(acat).unwrap()) as usize; (container(ast::TypeKind::List, vec![a], my), ea + e) }
        3 => { let e = (!map_value_ok(acat).unwrap()) as usize; *id += 1; (container(ast::TypeKind::Map, vec![leaf(CAT_STRING, *id), a], my), ea + e) }
        _ => { let e = (!map_key_ok(acat).unwrap_or(true)) as usize; *id += 1; (container(ast::TypeKind::Map, vec![a, leaf(CAT_STRING, *id)], my), ea + e) }
    }
}
fn cat_of(t: &ast::Type) -> u8 {
    match t.kind { ast::TypeKind::Primitive => CAT_PRIMITIVE, ast::TypeKind::String => CAT_STRING, ast::TypeKind::Array => CAT_ARRAY, ast::TypeKind::List => CAT_LIST, ast::TypeKind::Map => CAT_MAP, _ => CAT_UNRESOLVED }
}

macro_rules! walk_body {
    ($depth:expr, $n:expr, $pos:expr) => {{
        let c: [u8; $n] = kani::any();
        let mut cur = 0usize;
        let mut id = 100usize;
        let (t, exp) = mk(&c, &mut cur, $depth, &mut id);
        let a = in_position(t, $pos);
        let mut diags = Vec::with_capacity(8);
        v::check_containers(&a, &mut diags);
        assert!(diags.len() == exp, "one Error per offending element of every container at any depth");
        kani::cover!(exp >= 2, "two offending elements");
        kani::cover!(exp == 0 && c[0] != 0, "legal container");
        std::mem::forget(diags);
        std::mem::forget(a);
    }};
}

/// pos: 0 return type, 1 argument, 2 interface constant, 3 parcelable field, 4 parcelable constant
pub fn in_position(t: ast::Type, pos: u8) -> ast::Aidl {
    let item = match pos {
        0 => ast::Item::Interface(ast::Interface { oneway: false, name: String::new(), elements: vec![ast::InterfaceElement::Method(method(false, t, Vec::new(), 50))], annotations: Vec::new(), doc: None, full_range: rng(1), symbol_range: rng(2) }),
        1 => ast::Item::Interface(ast::Interface { oneway: false, name: String::new(), elements: vec![ast::InterfaceElement::Method(method(false, leaf(CAT_VOID, 60), vec![arg(direction(1, 61), t, 62)], 50))], annotations: Vec::new(), doc: None, full_range: rng(1), symbol_range: rng(2) }),
        2 => ast::Item::Interface(ast::Interface { oneway: false, name: String::new(), elements: vec![ast::InterfaceElement::Const(constant(t, 50))], annotations: Vec::new(), doc: None, full_range: rng(1), symbol_range: rng(2) }),
        3 => ast::Item::Parcelable(ast::Parcelable { name: String::new(), elements: vec![ast::ParcelableElement::Field(field(t, 50))], annotations: Vec::new(), doc: None, full_range: rng(1), symbol_range: rng(2) }),
        _ => ast::Item::Parcelable(ast::Parcelable { name: String::new(), elements: vec![ast::ParcelableElement::Const(constant(t, 50))], annotations: Vec::new(), doc: None, full_range: rng(1), symbol_range: rng(2) }),
    };
    ast::Aidl { package: package(3), imports: Vec::new(), declared_parcelables: Vec::new(), item }
}

/// check_containers through the real type walker: nesting depth 2 (container in container), return-type position.
#[kani::proof]
#[kani::stub(alloc::fmt::format, stub_format)]
#[kani::unwind(4)]
fn c08_walk_depth2_return() { walk_body!(2, 3, 0) }

#[kani::proof]
#[kani::stub(alloc::fmt::format, stub_format)]
#[kani::unwind(4)]
fn c08_walk_depth2_arg() { walk_body!(2, 3, 1) }

#[kani::proof]
#[kani::stub(alloc::fmt::format, stub_format)]
#[kani::unwind(4)]
fn c08_walk_depth2_field() { walk_body!(2, 3, 3) }

#[kani::proof]
#[kani::stub(alloc::fmt::format, stub_format)]
#[kani::unwind(4)]
fn c08_walk_depth2_const() { walk_body!(2, 3, 2) }

/// Thorough: depth 3 spine.
#[kani::proof]
#[kani::stub(alloc::fmt::format, stub_format)]
#[kani::unwind(5)]
fn c08_walk_depth3_return() { walk_body!(3, 4, 0) }
