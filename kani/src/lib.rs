//! Kani proof harnesses for bwalter/rust-aidl-parser (see /verif/DESIGN.md, engine K).
//! Every harness draws all of its symbolic choices up-front from one `[u8; N]` so that a concrete playback is a single
//! byte vector that the Python realisers can decode.
#![allow(dead_code, unused_imports, clippy::all)]

pub mod common;
#[cfg(kani)]
mod c01;
#[cfg(kani)]
mod c05;
#[cfg(kani)]
mod c07;
#[cfg(kani)]
mod c08;
#[cfg(kani)]
mod c10;
#[cfg(kani)]
mod c15;
#[cfg(kani)]
mod c16;
#[cfg(kani)]
mod c18;
