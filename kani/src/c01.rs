//! C01 (parts 3 and the offset hand-off) / C04.3 -- arity assumptions hold for every type the constructors build; Range::new passes its offsets through.
use crate::common::*;
use aidl_parser::ast;
use aidl_parser::verif_hooks::ast as va;
use aidl_parser::verif_hooks::validation as v;
use aidl_parser::verif_hooks::LineColLookup;

fn stub_get_by_cluster<'source>(_s: &LineColLookup<'source>, index: usize) -> (usize, usize) where 'source: 'source {
    (1, index + 1)
}

/// Range::new / Position::new hand exactly the given offsets to the lookup, start for start and end for end.
#[kani::proof]
#[kani::stub(line_col::LineColLookup::get_by_cluster, stub_get_by_cluster)]
#[kani::unwind(3)]
fn c04_range_new_passes_offsets() {
    let (s, e): (usize, usize) = (kani::any(), kani::any());
    kani::assume(s < usize::MAX && e < usize::MAX);
    let lookup = LineColLookup::new("");
    let r = va::range_new(&lookup, s, e);
    assert!(r.start.offset == s && r.end.offset == e, "offsets are stored unchanged");
    assert!(r.start.line_col == (1, s + 1) && r.end.line_col == (1, e + 1), "line/column of each end comes from the lookup of that end's offset");
    std::mem::forget(lookup);
}

fn build(k: u8, lookup: &LineColLookup, inner: ast::Type) -> ast::Type {
    match k {
        0 => ast::Type::simple_type("int", ast::TypeKind::Primitive, lookup, 1, 2),
        1 => ast::Type::array(inner, lookup, 1, 2, 3, 4),
        2 => ast::Type::list(inner, lookup, 1, 2, 3, 4),
        3 => ast::Type::non_generic_list(lookup, 1, 2),
        4 => ast::Type::map(ast::Type::simple_type("String", ast::TypeKind::String, lookup, 5, 6), inner, lookup, 1, 2, 3, 4),
        _ => ast::Type::non_generic_map(lookup, 1, 2),
    }
}

/// Every type the real constructors can build goes through check_container without reaching `unreachable!` or indexing out of range.
#[kani::proof]
#[kani::stub(line_col::LineColLookup::get_by_cluster, stub_get_by_cluster)]
#[kani::stub(alloc::fmt::format, stub_format)]
#[kani::unwind(8)]
fn c01_container_arity() {
    let c: [u8; 1] = kani::any();
    kani::assume(c[0] < 6);
    let lookup = LineColLookup::new("");
    let t = build(c[0], &lookup, ast::Type::simple_type("int", ast::TypeKind::Primitive, &lookup, 7, 8));
    let mut diags = Vec::with_capacity(8);
    v::check_container(&t, &mut diags);
    kani::cover!(c[0] == 4, "generic map");
    kani::cover!(c[0] == 3 && diags.len() == 1, "raw list warned");
    std::mem::forget(diags); std::mem::forget(t); std::mem::forget(lookup);
}
