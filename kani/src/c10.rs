//! C10 -- oneway is propagated from the interface and oneway methods must return void.
use crate::common::*;
use aidl_parser::ast;
use aidl_parser::verif_hooks::validation as v;

fn iface(oneway: bool, elements: Vec<ast::InterfaceElement>) -> ast::Interface {
    ast::Interface { oneway, name: String::new(), elements, annotations: Vec::new(), doc: None, full_range: rng(1), symbol_range: rng(2) }
}

fn member(kind: u8, mow: u8, id: usize) -> ast::InterfaceElement {
    if kind == 0 {
        ast::InterfaceElement::Const(constant(leaf(CAT_PRIMITIVE, id + 9), id))
    } else {
        ast::InterfaceElement::Method(method(mow == 1, leaf(CAT_VOID, id + 9), Vec::new(), id))
    }
}

/// Propagation and redundancy Warning: interface oneway x 2 members x {const, method(oneway?)}.
#[kani::proof]
#[kani::stub(alloc::fmt::format, stub_format)]
#[kani::unwind(4)]
fn c10_propagation_2() {
    let c: [u8; 5] = kani::any();
    let (iow, k0, w0, k1, w1) = (c[0], c[1], c[2], c[3], c[4]);
    kani::assume(iow < 2 && k0 < 2 && w0 < 2 && k1 < 2 && w1 < 2);
    let mut i = iface(iow == 1, vec![member(k0, w0, 100), member(k1, w1, 200)]);
    let mut diags = Vec::with_capacity(8);
    v::set_up_oneway_interface(&mut i, &mut diags);
    let red0 = iow == 1 && k0 == 1 && w0 == 1;
    let red1 = iow == 1 && k1 == 1 && w1 == 1;
    assert!(diags.len() == red0 as usize + red1 as usize, "one Warning per redundant oneway keyword");
    if let ast::InterfaceElement::Method(ref m) = i.elements[0] { assert!(m.oneway == (iow == 1 || w0 == 1), "first method oneway iff interface or method says so"); }
    if let ast::InterfaceElement::Method(ref m) = i.elements[1] { assert!(m.oneway == (iow == 1 || w1 == 1), "second method oneway iff interface or method says so"); }
    if red0 {
        assert!(is_warning(&diags[0]), "redundancy is a Warning");
        assert!(diags[0].range.start.offset == 103, "Warning sits on the first method's oneway keyword");
        assert!(diags[0].related_infos.len() == 1 && diags[0].related_infos[0].range.start.offset == 2, "related info points at the interface name");
    }
    if red1 {
        let k = red0 as usize;
        assert!(is_warning(&diags[k]), "redundancy is a Warning");
        assert!(diags[k].range.start.offset == 203, "Warning sits on the second method's oneway keyword");
    }
    kani::cover!(red0 && red1, "two redundant keywords");
    kani::cover!(iow == 1 && k0 == 1 && w0 == 0, "inherited oneway");
    kani::cover!(iow == 0 && k1 == 1 && w1 == 1, "plain oneway method in a normal interface");
    std::mem::forget(diags);
    std::mem::forget(i);
}

/// Return-type rule: method oneway x return category (17).
#[kani::proof]
#[kani::stub(alloc::fmt::format, stub_format)]
#[kani::unwind(4)]
fn c10_return_rule() {
    let c: [u8; 2] = kani::any();
    let (ow, cat) = (c[0], c[1]);
    kani::assume(ow < 2 && cat < N_CAT);
    let m = method(ow == 1, leaf(cat, 77), Vec::new(), 50);
    let mut diags = Vec::with_capacity(8);
    v::check_method(&m, &mut diags);
    let bad = ow == 1 && cat != CAT_VOID;
    assert!(diags.len() == bad as usize, "one Error iff oneway and the return type is not void");
    if bad {
        assert!(is_error(&diags[0]), "it is an Error");
        assert!(diags[0].range.start.offset == 77 && diags[0].range.end.offset == 77, "the Error sits on the return type");
    }
    kani::cover!(bad, "oneway non-void");
    kani::cover!(ow == 1 && !bad, "oneway void");
    std::mem::forget(diags);
    std::mem::forget(m);
}

/// Composition in the order validate uses: propagate, then check the method -- an inherited-oneway non-void method is an Error
/// (count only; the range of that Error is decided in c10_return_rule).
#[kani::proof]
#[kani::stub(alloc::fmt::format, stub_format)]
#[kani::unwind(4)]
fn c10_inherited_return_rule() {
    let c: [u8; 3] = kani::any();
    let (iow, mow, cat) = (c[0], c[1], c[2]);
    kani::assume(iow < 2 && mow < 2 && cat < N_CAT);
    let m = method(mow == 1, leaf(cat, 77), Vec::new(), 50);
    let mut i = iface(iow == 1, vec![ast::InterfaceElement::Method(m)]);
    let mut diags = Vec::with_capacity(8);
    v::set_up_oneway_interface(&mut i, &mut diags);
    let before = diags.len();
    assert!(before == (iow == 1 && mow == 1) as usize, "redundancy Warning");
    if let ast::InterfaceElement::Method(ref m) = i.elements[0] { v::check_method(m, &mut diags); }
    let bad = (iow == 1 || mow == 1) && cat != CAT_VOID;
    assert!(diags.len() - before == bad as usize, "one Error iff oneway after propagation and non-void");
    kani::cover!(iow == 1 && mow == 0 && bad, "inherited oneway, non-void return");
    std::mem::forget(diags);
    std::mem::forget(i);
}

/// Thorough: three members.
#[kani::proof]
#[kani::stub(alloc::fmt::format, stub_format)]
#[kani::unwind(8)]
fn c10_propagation_3() {
    let c: [u8; 7] = kani::any();
    let iow = c[0];
    kani::assume(iow < 2);
    let mut k = 1;
    while k < 7 { kani::assume(c[k] < 2); k += 1; }
    let mut i = iface(iow == 1, vec![member(c[1], c[2], 100), member(c[3], c[4], 200), member(c[5], c[6], 300)]);
    let mut diags = Vec::with_capacity(8);
    v::set_up_oneway_interface(&mut i, &mut diags);
    let red = |k: u8, w: u8| (iow == 1 && k == 1 && w == 1) as usize;
    assert!(diags.len() == red(c[1], c[2]) + red(c[3], c[4]) + red(c[5], c[6]), "one Warning per redundant keyword");
    let mut j = 0;
    while j < 3 {
        if let ast::InterfaceElement::Method(ref m) = i.elements[j] { assert!(m.oneway == (iow == 1 || c[2 + 2 * j] == 1), "oneway iff interface or method says so"); }
        j += 1;
    }
    kani::cover!(diags.len() == 3, "three redundant keywords");
    std::mem::forget(diags);
    std::mem::forget(i);
}
