//! C07 -- argument direction rules follow the argument's type category exactly.
use crate::common::*;
use aidl_parser::ast;
use aidl_parser::verif_hooks::validation as v;

/// Reference (written from the property statement): number of Errors the *type rule* yields; None = the statement is silent (void).
fn type_rule_errors(cat: u8, dir: u8) -> Option<usize> {
    let n = match cat {
        CAT_ARRAY | CAT_LIST | CAT_MAP | CAT_PARCELABLE | CAT_FWD => (dir == 0) as usize,
        CAT_PRIMITIVE | CAT_STRING | CAT_CHARSEQ | CAT_INTERFACE | CAT_ENUM | CAT_IBINDER | CAT_FD | CAT_UNKNOWN_IMPORT => (dir >= 2) as usize,
        CAT_PFD => (dir == 0 || dir == 2) as usize,
        CAT_HOLDER => 1,
        CAT_UNRESOLVED => 0,
        _ => return None,
    };
    Some(n)
}

macro_rules! args_body {
    ($first:expr) => {{
        let c: [u8; 3] = kani::any();
        let (cat0, dir0, ow) = (c[0], c[1], c[2]);
        kani::assume(cat0 < N_CAT && dir0 < 4 && ow < 2);
        kani::assume(cat0 != CAT_VOID);
        let a0 = arg(direction(dir0, 10), leaf(cat0, 20), 30);
        let args = if $first { vec![a0] } else { vec![arg(direction(1, 11), leaf(CAT_PRIMITIVE, 21), 31), a0] };
        let m = method(ow == 1, leaf(CAT_VOID, 40), args, 50);
        let mut diags = Vec::with_capacity(8);
        v::check_method_args(&m, &mut diags);
        let e0 = type_rule_errors(cat0, dir0).unwrap() + (ow == 1 && dir0 >= 2) as usize;
        assert!(diags.len() == e0, "number of direction Errors");
        let want = if dir0 == 0 { 20 } else { 10 };
        if e0 >= 1 {
            assert!(is_error(&diags[0]), "direction diagnostics are Errors");
            assert!(diags[0].range.start.offset == want && diags[0].range.end.offset == want, "Error sits on the direction keyword / empty range at the type");
        }
        if e0 >= 2 {
            assert!(is_error(&diags[1]), "direction diagnostics are Errors");
            assert!(diags[1].range.start.offset == want && diags[1].range.end.offset == want, "Error sits on the direction keyword / empty range at the type");
        }
        kani::cover!(e0 == 2, "both rules broken");
        kani::cover!(e0 == 0, "legal argument");
        kani::cover!(cat0 == CAT_PFD && dir0 == 3 && e0 == 0, "inout ParcelFileDescriptor is legal");
        std::mem::forget(diags);
        std::mem::forget(m);
    }};
}

/// Single argument: category (16, void apart) x direction (4) x method oneway (2) -- the complete product.
#[kani::proof]
#[kani::stub(alloc::fmt::format, stub_format)]
#[kani::unwind(4)]
fn c07_args_first() {
    args_body!(true)
}

/// Same product with the argument in second position behind a legal `in int`.
#[kani::proof]
#[kani::stub(alloc::fmt::format, stub_format)]
#[kani::unwind(4)]
fn c07_args_second() {
    args_body!(false)
}

/// void as an argument type: the statement is silent on the type rule, the oneway rule still applies.
#[kani::proof]
#[kani::stub(alloc::fmt::format, stub_format)]
#[kani::unwind(4)]
fn c07_void_arg_oneway_rule() {
    let c: [u8; 2] = kani::any();
    let (dir0, ow) = (c[0], c[1]);
    kani::assume(dir0 < 4 && ow < 2);
    let m = method(ow == 1, leaf(CAT_VOID, 40), vec![arg(direction(dir0, 10), leaf(CAT_VOID, 20), 30)], 50);
    let mut diags = Vec::with_capacity(8);
    v::check_method_args(&m, &mut diags);
    if ow == 1 && dir0 >= 2 { assert!(diags.len() >= 1, "oneway: out/inout is an Error"); }
    if dir0 <= 1 { assert!(diags.len() == 0 || !(ow == 1), "in / none: the oneway rule adds nothing"); }
    kani::cover!(diags.len() >= 1, "some diagnostic");
    std::mem::forget(diags);
    std::mem::forget(m);
}

/// oneway inherited from the interface: set_up_oneway_interface then check_method (the order validate uses).
#[kani::proof]
#[kani::stub(alloc::fmt::format, stub_format)]
#[kani::unwind(4)]
fn c07_inherited_oneway() {
    let c: [u8; 4] = kani::any();
    let (cat0, dir0, iow, mow) = (c[0], c[1], c[2], c[3]);
    kani::assume(cat0 < N_CAT && cat0 != CAT_VOID && dir0 < 4 && iow < 2 && mow < 2);
    let m = method(mow == 1, leaf(CAT_VOID, 40), vec![arg(direction(dir0, 10), leaf(cat0, 20), 30)], 50);
    let mut i = ast::Interface { oneway: iow == 1, name: String::new(), elements: vec![ast::InterfaceElement::Method(m)], annotations: Vec::new(), doc: None, full_range: rng(1), symbol_range: rng(2) };
    let mut diags = Vec::with_capacity(8);
    v::set_up_oneway_interface(&mut i, &mut diags);
    let before = diags.len();
    if let ast::InterfaceElement::Method(ref m) = i.elements[0] { v::check_method(m, &mut diags); }
    let oneway = iow == 1 || mow == 1;
    let exp = type_rule_errors(cat0, dir0).unwrap() + (oneway && dir0 >= 2) as usize;
    assert!(diags.len() - before == exp, "direction Errors with inherited oneway");
    kani::cover!(iow == 1 && mow == 0 && dir0 == 2 && exp >= 1, "inherited oneway makes out an Error");
    std::mem::forget(diags);
    std::mem::forget(i);
}
