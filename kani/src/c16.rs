//! C16 -- pointing at a name finds the symbol that carries it.
use crate::common::*;
use crate::c15::{filter_of, mk_type, ref_symbols, Seq, CAP};
use aidl_parser::ast;
use aidl_parser::symbol::Symbol;
use aidl_parser::traverse::{self, SymbolFilter};
use aidl_parser::verif_hooks::traverse as vt;

/// range_contains(r, p)  <=>  start <=lex p <=lex end, for all eight numbers (with start <=lex end).
#[kani::proof]
fn c16_range_contains() {
    let (sl, sc, el, ec, pl, pc): (usize, usize, usize, usize, usize, usize) = (kani::any(), kani::any(), kani::any(), kani::any(), kani::any(), kani::any());
    kani::assume(sl < el || (sl == el && sc <= ec));
    let r = ast::Range { start: ast::Position { offset: 0, line_col: (sl, sc) }, end: ast::Position { offset: 0, line_col: (el, ec) } };
    let got = vt::range_contains(&r, (pl, pc));
    let ge_start = pl > sl || (pl == sl && pc >= sc);
    let le_end = pl < el || (pl == el && pc <= ec);
    assert!(got == (ge_start && le_end), "containment is inclusive at both ends, lexicographic on (line, column)");
    kani::cover!(got && pl == el && pc == ec, "position just after the last character");
    kani::cover!(!got && pl == sl && pc < sc, "same line, before the name");
}

fn span(line: usize, a: usize, b: usize) -> ast::Range {
    ast::Range { start: ast::Position { offset: a, line_col: (line, a) }, end: ast::Position { offset: b, line_col: (line, b) } }
}

/// `package pk;` (line 1) `import im.x;` (line 2) `interface Ifc {` (line 3) `  List<Foo> mth(in Bar[] nm);` (line 4): name ranges as the parser
/// would report them; symbolic query position and level; expected = first symbol in reference order whose name range contains it.
fn doc_tree() -> ast::Aidl {
    let foo = ast::Type { name: String::new(), kind: ast::TypeKind::Unresolved, generic_types: Vec::new(), symbol_range: span(4, 8, 11), full_range: span(4, 8, 11) };
    let list = ast::Type { name: String::new(), kind: ast::TypeKind::List, generic_types: vec![foo], symbol_range: span(4, 3, 7), full_range: span(4, 3, 12) };
    let bar = ast::Type { name: String::new(), kind: ast::TypeKind::Unresolved, generic_types: Vec::new(), symbol_range: span(4, 21, 24), full_range: span(4, 21, 24) };
    let arr = ast::Type { name: String::new(), kind: ast::TypeKind::Array, generic_types: vec![bar], symbol_range: span(4, 21, 24), full_range: span(4, 21, 26) };
    let a = ast::Arg { direction: ast::Direction::In(span(4, 18, 20)), name: None, arg_type: arr, annotations: Vec::new(), doc: None, symbol_range: span(4, 27, 29), full_range: span(4, 18, 29) };
    let m = ast::Method { oneway: false, name: String::new(), return_type: list, args: vec![a], annotations: Vec::new(), transact_code: None, doc: None,
        symbol_range: span(4, 13, 16), full_range: span(4, 3, 30), transact_code_range: span(4, 30, 30), oneway_range: span(4, 3, 3) };
    let it = ast::Interface { oneway: false, name: String::new(), elements: vec![ast::InterfaceElement::Method(m)], annotations: Vec::new(), doc: None, full_range: span(3, 1, 40), symbol_range: span(3, 11, 14) };
    ast::Aidl { package: ast::Package { name: String::new(), symbol_range: span(1, 9, 11), full_range: span(1, 1, 11) },
        imports: vec![ast::Import { path: String::new(), name: String::new(), symbol_range: span(2, 8, 12), full_range: span(2, 1, 12) }],
        declared_parcelables: Vec::new(), item: ast::Item::Interface(it) }
}

struct RSeq { s: [(usize, usize, usize); CAP], n: usize }
fn ref_ranges(a: &ast::Aidl, level: u8) -> RSeq {
    let mut out = RSeq { s: [(0, 0, 0); CAP], n: 0 };
    let mut push = |r: &ast::Range| { if out.n < CAP { out.s[out.n] = (r.start.line_col.0, r.start.line_col.1, r.end.line_col.1); } out.n += 1; };
    if level == 2 { push(&a.package.symbol_range); push(&a.imports[0].symbol_range); }
    if let ast::Item::Interface(ref it) = a.item {
        push(&it.symbol_range);
        if level >= 1 {
            if let ast::InterfaceElement::Method(ref m) = it.elements[0] {
                push(&m.symbol_range);
                if level == 2 {
                    push(&m.return_type.symbol_range); push(&m.return_type.generic_types[0].symbol_range);
                    push(&m.args[0].symbol_range);
                    push(&m.args[0].arg_type.generic_types[0].symbol_range); push(&m.args[0].arg_type.symbol_range);
                }
            }
        }
    }
    out
}

#[kani::proof]
#[kani::unwind(12)]
fn c16_lookup() {
    let c: [u8; 3] = kani::any();
    let (level, line, col) = (c[0], c[1] as usize, c[2] as usize);
    kani::assume(level < 3 && line >= 1 && line <= 5 && col <= 45);
    let a = doc_tree();
    let rr = ref_ranges(&a, level);
    let mut want: Option<(usize, usize, usize)> = None;
    let mut k = 0;
    while k < rr.n { let (l, s, e) = rr.s[k]; if want.is_none() && l == line && s <= col && col <= e { want = Some(rr.s[k]); } k += 1; }
    let got = traverse::find_symbol_at_line_col(&a, filter_of(level), (line, col));
    match (want, got) {
        (None, None) => (),
        (Some((l, s, e)), Some(sym)) => {
            let r = sym.get_range();
            assert!(r.start.line_col.0 == l && r.start.line_col.1 == s && r.end.line_col.1 == e, "lookup returns the first symbol (traversal order) whose name range contains the position");
        }
        (Some(_), None) => assert!(false, "a position inside a visited symbol's name range finds that symbol"),
        (None, Some(_)) => assert!(false, "a position outside every name range finds nothing"),
    }
    kani::cover!(line == 1 && col == 10 && level == 2, "pointing at the package name");
    kani::cover!(line == 4 && col == 9, "pointing at a nested type name");
    kani::cover!(line == 4 && col == 22 && level == 2, "pointing at an array element type (shares its range with the array)");
    std::mem::forget(a);
}
