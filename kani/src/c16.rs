//! C16 -- pointing at a name finds the symbol that carries it.
use crate::common::*;
use crate::c15::filter_of;
use aidl_parser::ast;
use aidl_parser::symbol::Symbol;
use aidl_parser::traverse::{self, SymbolFilter};
use aidl_parser::verif_hooks::traverse as vt;

/// range_contains(r, p)  <=>  start <=lex p <=lex end, for all eight numbers (with start <=lex end).
#[kani::proof]
fn c16_range_contains() {
    let (sl, sc, el, ec, pl, pc): (usize, usize, usize, usize, usize, usize) = (kani::any(), kani::any(), kani::any(), kani::any(), kani::any(), kani::any());
    kani::assume(sl < el || (sl == el && sc <= ec));
    let r = ast::Range { start: ast::Position { offset: 0, line_col: (sl, sc) }, end: ast::Position { offset: 0, line_col: (el, ec) } };
    let got = vt::range_contains(&r, (pl, pc));
    let ge_start = pl > sl || (pl == sl && pc >= sc);
    let le_end = pl < el || (pl == el && pc <= ec);
    assert!(got == (ge_start && le_end), "containment is inclusive at both ends, lexicographic on (line, column)");
    kani::cover!(got && pl == el && pc == ec, "position just after the last character");
    kani::cover!(!got && pl == sl && pc < sc, "same line, before the name");
}

fn span(line: usize, a: usize, b: usize) -> ast::Range {
    ast::Range { start: ast::Position { offset: a, line_col: (line, a) }, end: ast::Position { offset: b, line_col: (line, b) } }
}

/// `package pk;` (line 1) `import im.x;` (line 2) `interface Ifc {` (line 3) `  List<Foo> mth(in Bar[] nm);` (line 4): name ranges as the parser
/// would report them; symbolic query position and level; expected = first symbol in reference order whose name range contains it.
fn doc_tree() -> ast::Aidl {
    let foo = ast::Type { name: String::new(), kind: ast::TypeKind::Unresolved, generic_types: Vec::new(), symbol_range: span(4, 8, 11), full_range: span(4, 8, 11) };
    let list = ast::Type { name: String::new(), kind: ast::TypeKind::List, generic_types: vec![foo], symbol_range: span(4, 3, 7), full_range: span(4, 3, 12) };
    let bar = ast::Type { name: String::new(), kind: ast::TypeKind::Unresolved, generic_types: Vec::new(), symbol_range: span(4, 21, 24), full_range: span(4, 21, 24) };
    let arr = ast::Type { name: String::new(), kind: ast::TypeKind::Array, generic_types: vec![bar], symbol_range: span(4, 21, 24), full_range: span(4, 21, 26) };
    let a = ast::Arg { direction: ast::Direction::In(span(4, 18, 20)), name: None, arg_type: arr, annotations: Vec::new(), doc: None, symbol_range: span(4, 27, 29), full_range: span(4, 18, 29) };
    let m = ast::Method { oneway: false, name: String::new(), return_type: list, args: vec![a], annotations: Vec::new(), transact_code: None, doc: None,
        symbol_range: span(4, 13, 16), full_range: span(4, 3, 30), transact_code_range: span(4, 30, 30), oneway_range: span(4, 3, 3) };
    let it = ast::Interface { oneway: false, name: String::new(), elements: vec![ast::InterfaceElement::Method(m)], annotations: Vec::new(), doc: None, full_range: span(3, 1, 40), symbol_range: span(3, 11, 14) };
    ast::Aidl { package: ast::Package { name: String::new(), symbol_range: span(1, 9, 11), full_range: span(1, 1, 11) },
        imports: vec![ast::Import { path: String::new(), name: String::new(), symbol_range: span(2, 8, 12), full_range: span(2, 1, 12) }],
        declared_parcelables: Vec::new(), item: ast::Item::Interface(it) }
}

/// name ranges in the order the property prescribes for this document, per level (line, start col, end col)
const ORDER_ALL: [(usize, usize, usize); 9] = [(1, 9, 11), (2, 8, 12), (3, 11, 14), (4, 13, 16), (4, 3, 7), (4, 8, 11), (4, 27, 29), (4, 21, 24), (4, 21, 24)];

fn first_containing(level: u8, line: usize, col: usize) -> Option<(usize, usize, usize)> {
    let hit = |r: (usize, usize, usize)| r.0 == line && r.1 <= col && col <= r.2;
    if level == 2 {
        if hit(ORDER_ALL[0]) { return Some(ORDER_ALL[0]); }
        if hit(ORDER_ALL[1]) { return Some(ORDER_ALL[1]); }
    }
    if hit(ORDER_ALL[2]) { return Some(ORDER_ALL[2]); }
    if level >= 1 && hit(ORDER_ALL[3]) { return Some(ORDER_ALL[3]); }
    if level == 2 {
        if hit(ORDER_ALL[4]) { return Some(ORDER_ALL[4]); }
        if hit(ORDER_ALL[5]) { return Some(ORDER_ALL[5]); }
        if hit(ORDER_ALL[6]) { return Some(ORDER_ALL[6]); }
        if hit(ORDER_ALL[7]) { return Some(ORDER_ALL[7]); }
    }
    None
}

#[kani::proof]
#[kani::unwind(3)]
fn c16_lookup() {
    let c: [u8; 3] = kani::any();
    let (level, line, col) = (c[0], c[1] as usize, c[2] as usize);
    kani::assume(level < 3 && line >= 1 && line <= 5 && col <= 45);
    let a = doc_tree();
    let want = first_containing(level, line, col);
    let got = traverse::find_symbol_at_line_col(&a, filter_of(level), (line, col));
    match (want, got) {
        (None, None) => (),
        (Some((l, s, e)), Some(sym)) => {
            let r = sym.get_range();
            assert!(r.start.line_col.0 == l && r.start.line_col.1 == s && r.end.line_col.1 == e, "lookup returns the first symbol (traversal order) whose name range contains the position");
        }
        (Some(_), None) => assert!(false, "a position inside a visited symbol's name range finds that symbol"),
        (None, Some(_)) => assert!(false, "a position outside every name range finds nothing"),
    }
    kani::cover!(line == 1 && col == 10 && level == 2, "pointing at the package name");
    kani::cover!(line == 4 && col == 9 && level == 2, "pointing at a nested type name");
    kani::cover!(line == 4 && col == 22 && level == 2, "pointing at an array element type (shares its range with the array)");
    std::mem::forget(a);
}
