use aidl_parser::ast;

pub fn stub_format(_args: std::fmt::Arguments<'_>) -> String {
    String::new()
}

/// A range that identifies a node: (line 1, column id) .. (line 1, column id) with offset id.
pub fn rng(id: usize) -> ast::Range {
    ast::Range {
        start: ast::Position { offset: id, line_col: (1, id) },
        end: ast::Position { offset: id, line_col: (1, id) },
    }
}
pub fn rng2(a: usize, b: usize) -> ast::Range {
    ast::Range {
        start: ast::Position { offset: a, line_col: (1, a) },
        end: ast::Position { offset: b, line_col: (1, b) },
    }
}

pub const N_CAT: u8 = 17;
pub const CAT_PRIMITIVE: u8 = 0;
pub const CAT_VOID: u8 = 1;
pub const CAT_ARRAY: u8 = 2;
pub const CAT_MAP: u8 = 3;
pub const CAT_LIST: u8 = 4;
pub const CAT_STRING: u8 = 5;
pub const CAT_CHARSEQ: u8 = 6;
pub const CAT_IBINDER: u8 = 7;
pub const CAT_FD: u8 = 8;
pub const CAT_PFD: u8 = 9;
pub const CAT_HOLDER: u8 = 10;
pub const CAT_INTERFACE: u8 = 11;
pub const CAT_PARCELABLE: u8 = 12;
pub const CAT_ENUM: u8 = 13;
pub const CAT_FWD: u8 = 14;
pub const CAT_UNKNOWN_IMPORT: u8 = 15;
pub const CAT_UNRESOLVED: u8 = 16;

/// The 17 type categories reachable from source.
pub fn kind_of(k: u8) -> ast::TypeKind {
    match k {
        0 => ast::TypeKind::Primitive,
        1 => ast::TypeKind::Void,
        2 => ast::TypeKind::Array,
        3 => ast::TypeKind::Map,
        4 => ast::TypeKind::List,
        5 => ast::TypeKind::String,
        6 => ast::TypeKind::CharSequence,
        7 => ast::TypeKind::AndroidType(ast::AndroidTypeKind::IBinder),
        8 => ast::TypeKind::AndroidType(ast::AndroidTypeKind::FileDescriptor),
        9 => ast::TypeKind::AndroidType(ast::AndroidTypeKind::ParcelFileDescriptor),
        10 => ast::TypeKind::AndroidType(ast::AndroidTypeKind::ParcelableHolder),
        11 => ast::TypeKind::ResolvedItem(String::new(), ast::ResolvedItemKind::Interface),
        12 => ast::TypeKind::ResolvedItem(String::new(), ast::ResolvedItemKind::Parcelable),
        13 => ast::TypeKind::ResolvedItem(String::new(), ast::ResolvedItemKind::Enum),
        14 => ast::TypeKind::ResolvedItem(String::new(), ast::ResolvedItemKind::ForwardDeclaredParcelable),
        15 => ast::TypeKind::ResolvedItem(String::new(), ast::ResolvedItemKind::UnknownImport),
        _ => ast::TypeKind::Unresolved,
    }
}

/// Name a leaf of category k carries when it comes from source (only String matters to the validator: map keys).
pub fn name_of(k: u8) -> String {
    if k == CAT_STRING { "String".to_owned() } else { String::new() }
}

pub fn leaf(k: u8, id: usize) -> ast::Type {
    ast::Type { name: name_of(k), kind: kind_of(k), generic_types: Vec::new(), symbol_range: rng(id), full_range: rng(id) }
}

pub fn container(kind: ast::TypeKind, children: Vec<ast::Type>, id: usize) -> ast::Type {
    ast::Type { name: String::new(), kind, generic_types: children, symbol_range: rng(id), full_range: rng(id) }
}

pub fn direction(d: u8, id: usize) -> ast::Direction {
    match d {
        0 => ast::Direction::Unspecified,
        1 => ast::Direction::In(rng(id)),
        2 => ast::Direction::Out(rng(id)),
        _ => ast::Direction::InOut(rng(id)),
    }
}

pub fn arg(d: ast::Direction, t: ast::Type, id: usize) -> ast::Arg {
    ast::Arg { direction: d, name: None, arg_type: t, annotations: Vec::new(), doc: None, symbol_range: rng(id), full_range: rng(id) }
}

pub fn method(oneway: bool, ret: ast::Type, args: Vec<ast::Arg>, id: usize) -> ast::Method {
    ast::Method {
        oneway, name: String::new(), return_type: ret, args, annotations: Vec::new(), transact_code: None, doc: None,
        symbol_range: rng(id), full_range: rng(id + 1), transact_code_range: rng(id + 2), oneway_range: rng(id + 3),
    }
}

pub fn constant(t: ast::Type, id: usize) -> ast::Const {
    ast::Const { name: String::new(), const_type: t, value: String::new(), annotations: Vec::new(), doc: None, symbol_range: rng(id), full_range: rng(id + 1) }
}

pub fn field(t: ast::Type, id: usize) -> ast::Field {
    ast::Field { name: String::new(), field_type: t, value: None, annotations: Vec::new(), doc: None, symbol_range: rng(id), full_range: rng(id + 1) }
}

pub fn package(id: usize) -> ast::Package {
    ast::Package { name: String::new(), symbol_range: rng(id), full_range: rng(id + 1) }
}

pub fn import(id: usize) -> ast::Import {
    ast::Import { path: String::new(), name: String::new(), symbol_range: rng(id), full_range: rng(id + 1) }
}

pub fn is_error(d: &aidl_parser::diagnostic::Diagnostic) -> bool {
    matches!(d.kind, aidl_parser::diagnostic::DiagnosticKind::Error)
}
pub fn is_warning(d: &aidl_parser::diagnostic::Diagnostic) -> bool {
    matches!(d.kind, aidl_parser::diagnostic::DiagnosticKind::Warning)
}
pub fn same_range(a: &ast::Range, b: &ast::Range) -> bool {
    a.start.offset == b.start.offset && a.end.offset == b.end.offset && a.start.line_col.0 == b.start.line_col.0 && a.start.line_col.1 == b.start.line_col.1
        && a.end.line_col.0 == b.end.line_col.0 && a.end.line_col.1 == b.end.line_col.1
}
