"""Path-forking symbolic execution of the validated driver model (driver.py semantics) over the real tables.
Symbolic tokens carry a domain (set of terminals); every table lookup on a symbolic token partitions its domain by the
looked-up value and forks. Stacks stay concrete on each path. DFS by replaying a decision list."""
import json, sys, time
exec(open('driver.py').read().split("def parse(toks):")[0])

class Fork(Exception): pass

def explore(mk_tokens, on_path, limit=10**7):
    """mk_tokens() -> list of tokens: int (concrete) or set (symbolic domain)."""
    stack_of_choices = [[]]      # DFS worklist of decision prefixes
    npaths = 0
    while stack_of_choices:
        decisions = stack_of_choices.pop()
        toks = mk_tokens()
        doms = [({t} if isinstance(t, int) else set(t)) for t in toks]
        used = [0]
        def lookup(i, f, decisions=decisions):
            """value of f(tok_i) on this path; splits the domain of token i by f and forks"""
            d = doms[i]
            groups = {}
            for t in sorted(d): groups.setdefault(f(t), set()).add(t)
            if len(groups) == 1: return next(iter(groups))
            keys = sorted(groups)
            idx = used[0]
            if idx < len(decisions): c = decisions[idx]
            else:
                c = 0
                for alt in range(1, len(keys)): stack_of_choices.append(decisions[:idx] + [alt])
                decisions.append(0)
            used[0] += 1
            doms[i] = groups[keys[c]]
            return keys[c]
        res = sym_parse(len(toks), lookup)
        npaths += 1
        on_path(doms, res)
        if npaths >= limit: break
    return npaths

def sym_parse(n, lookup):
    """same control flow as driver.parse, token values only through lookup(i, f). Returns (ok, errors, trace)"""
    states = [0]; errors = []; pos = [0]; trace = []     # trace: list of (reduce_index, pos_at_reduce)
    def action(s, i): return lookup(i, lambda t: ACT[s * NT + t])
    def reduce(r):
        if r in ACCEPT: return True
        pop, nt = RED[r]
        trace.append((r, pos[0]))
        if pop: del states[-pop:]
        states.append(goto(states[-1], nt)); return False
    def next_token():
        if pos[0] < n: pos[0] += 1; return pos[0] - 1
        return None
    def accepts(error_state, sts, i):
        sts = list(sts) + [error_state]
        while True:
            top = sts[-1]
            a = EOFA[top] if i is None else action(top, i)
            if a == 0: return False
            if a > 0: return True
            r = -(a + 1)
            if r in ACCEPT: return True
            p, nt = RED[r]
            if p: del sts[-p:]
            sts.append(goto(sts[-1], nt))
    def error_recovery(look):
        err = ('tok', look) if look is not None else ('eof', None)
        while True:
            a = ACT[states[-1] * NT + ERR]
            if a < 0:
                if reduce(-(a + 1)): raise Done(True)
            else: break
        states_len = len(states)
        while True:
            found = None
            for top in range(states_len - 1, -1, -1):
                a = ACT[states[top] * NT + ERR]
                if a > 0 and accepts(a - 1, states[:top + 1], look): found = top; break
            if found is not None: break
            if look is None: errors.append(('final',) + err); raise Done(False)
            look = next_token()
        del states[found + 1:]
        states.append(ACT[states[found] * NT + ERR] - 1)
        errors.append(('recovered',) + err)
        return look
    def parse_eof():
        while True:
            a = EOFA[states[-1]]
            if a < 0:
                if reduce(-(a + 1)): return True
            else: error_recovery(None)
    try:
        while True:
            look = next_token()
            if look is None: return (parse_eof(), errors, trace)
            while True:
                a = action(states[-1], look)
                if a > 0: states.append(a - 1); break
                elif a < 0:
                    if reduce(-(a + 1)): errors.append(('final', 'extra', look)); return (False, errors, trace)
                else:
                    look = error_recovery(look)
                    if look is None: return (parse_eof(), errors, trace)
    except Done as d:
        return (d.ok, errors, trace)

if __name__ == '__main__':
    S = lambda *xs: [tix[x] for x in xs]
    k = int(sys.argv[1])
    kind = sys.argv[2]
    if kind == 'iface': pre, g1, T, g2, suf = S('PACKAGE','IDENT','";"','INTERFACE','IDENT','"{"'), S('VOID','IDENT','"("','")"','";"'), S('";"'), S('VOID','IDENT','"("','")"','";"'), S('"}"')
    elif kind == 'parc': pre, g1, T, g2, suf = S('PACKAGE','IDENT','";"','PARCELABLE','IDENT','"{"'), S('PRIMITIVE','IDENT','";"'), S('";"'), S('PRIMITIVE','IDENT','";"'), S('"}"')
    else: pre, g1, T, g2, suf = S('PACKAGE','IDENT','";"','ENUM','IDENT','"{"'), S('IDENT','","'), S('","'), S('IDENT'), S('"}"')
    excl = set(T) | set(S('"{"', '"}"'))
    dom = set(range(NT - 1)) - excl
    w0 = len(pre) + len(g1); w1 = w0 + k           # window token indices [w0, w1) ; terminator at w1
    def mk(): return pre + g1 + [set(dom) for _ in range(k)] + T + g2 + suf
    stats = {'paths': 0, 'clean': 0, 'ok': 0, 'bad': []}
    def on_path(doms, res):
        ok, errors, trace = res
        stats['paths'] += 1
        if not errors: stats['clean'] += 1; return       # window+T well-formed (excluded by the property)
        inside = all(e[2] is not None and w0 <= e[2] <= w1 for e in errors)
        if ok and inside: stats['ok'] += 1
        else: stats['bad'].append((' '.join('|'.join(names[t] for t in sorted(d)) if len(d) > 1 else names[next(iter(d))] for d in doms[w0:w1 + 1]), ok, errors))
    t0 = time.time(); n = explore(mk, on_path)
    print(kind, 'k', k, 'paths', n, 'clean(excluded)', stats['clean'], 'ok', stats['ok'], 'violating paths', len(stats['bad']), 'time', round(time.time() - t0, 1))
    for b in stats['bad'][:6]: print('   ', b)
