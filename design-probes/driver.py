"""Concrete port of lalrpop_util 0.19.8 state_machine::Parser (states only, no symbol values),
run over the tables extracted from the generated parser. Used to validate the model against the real parser."""
import json, sys, random
T = json.load(open('tables.json'))
NS, NT = T['nstates'], T['nterm']
ACT, EOFA = T['action'], T['eof']
GOTO = {int(k): (v[0], {int(a): b for a, b in v[1].items()}) for k, v in T['goto'].items()}
RED = {int(k): tuple(v) for k, v in T['red'].items()}
ACCEPT = set(T['accept'])
names = T['terms']; tix = {n: i for i, n in enumerate(names)}
ERR = NT - 1

def goto(s, nt):
    d, m = GOTO.get(nt, (0, {}))
    return m.get(s, d if d is not None else 0)

class Done(Exception):
    def __init__(self, ok): self.ok = ok

def parse(toks):
    """returns (accepted, errors) ; errors = list of (how, 'tok'|'eof', token_index|None) in emission order"""
    states = [0]; errors = []; pos = [0]
    def action(s, t): return ACT[s * NT + t]
    def reduce(r):
        # returns True when the start production is reduced (parse result available)
        if r in ACCEPT: return True
        pop, nt = RED[r]
        if pop: del states[-pop:]
        states.append(goto(states[-1], nt))
        return False
    def next_token():
        if pos[0] < len(toks):
            pos[0] += 1; return (pos[0] - 1, toks[pos[0] - 1])
        return None
    def accepts(error_state, sts, tok):
        sts = list(sts) + [error_state]
        while True:
            top = sts[-1]
            a = EOFA[top] if tok is None else action(top, tok)
            if a == 0: return False
            if a > 0: return True
            r = -(a + 1)
            if r in ACCEPT: return True
            pop, nt = RED[r]
            if pop: del sts[-pop:]
            sts.append(goto(sts[-1], nt))
    def error_recovery(look):
        """returns ('tok', look) | ('eof',) ; raises Done on final result"""
        err = ('tok', look[0]) if look is not None else ('eof', None)
        while True:
            a = action(states[-1], ERR)
            if a < 0:
                if reduce(-(a + 1)): raise Done(True)
            else: break
        states_len = len(states)
        while True:
            found = None
            for top in range(states_len - 1, -1, -1):
                a = action(states[top], ERR)
                if a > 0 and accepts(a - 1, states[:top + 1], None if look is None else look[1]):
                    found = top; break
            if found is not None: break
            if look is None:
                errors.append(('final',) + err); raise Done(False)
            look = next_token()
        del states[found + 1:]
        states.append(action(states[found], ERR) - 1)
        errors.append(('recovered',) + err)
        return ('tok', look) if look is not None else ('eof',)
    def parse_eof():
        while True:
            a = EOFA[states[-1]]
            if a < 0:
                if reduce(-(a + 1)): return True
            else:
                r = error_recovery(None)
                assert r == ('eof',)
    try:
        while True:
            look = next_token()
            if look is None: return (parse_eof(), errors)
            while True:
                a = action(states[-1], look[1])
                if a > 0:
                    states.append(a - 1); break
                elif a < 0:
                    if reduce(-(a + 1)):
                        errors.append(('final', 'extra', look[0])); return (False, errors)
                else:
                    r = error_recovery(look)
                    if r[0] == 'eof': return (parse_eof(), errors)
                    look = r[1]
    except Done as d:
        return (d.ok, errors)

LEX = {'"("': '(', '")"': ')', '","': ',', '"-"': '-', '"."': '.', '";"': ';', '"<"': '<', '"="': '=', '">"': '>', '"["': '[', '"]"': ']', '"{"': '{', '"}"': '}',
       'ANNOTATION': '@A', 'BOOLEAN': 'true', 'CHAR_SEQUENCE': 'CharSequence', 'CONST': 'const', 'DIRECTION': 'in', 'ENUM': 'enum', 'FLOAT': '1.5', 'IDENT': 'x',
       'IMPORT': 'import', 'INTEGER': '7', 'INTERFACE': 'interface', 'LIST': 'List', 'MAP': 'Map', 'ONEWAY': 'oneway', 'PACKAGE': 'package', 'PARCELABLE': 'parcelable',
       'PRIMITIVE': 'int', 'QUOTED_STRING': '"s"', 'RESERVED_KEYWORD': 'for', 'STRING': 'String', 'VOID': 'void'}
def render(toks): return ' '.join(LEX[names[t]] for t in toks)

if __name__ == '__main__':
    rnd = random.Random(int(sys.argv[1])); n = int(sys.argv[2])
    S = lambda *xs: [tix[x] for x in xs]
    frames = [(S('PACKAGE', 'IDENT', '";"', 'INTERFACE', 'IDENT', '"{"'), S('"}"')), (S('PACKAGE', 'IDENT', '";"', 'PARCELABLE', 'IDENT', '"{"'), S('"}"')),
              (S('PACKAGE', 'IDENT', '";"', 'ENUM', 'IDENT', '"{"'), S('"}"')), (S('PACKAGE', 'IDENT', '";"'), []), ([], [])]
    good = [S('VOID', 'IDENT', '"("', '")"', '";"'), S('PRIMITIVE', 'IDENT', '";"'), S('IDENT', '","'), S('CONST', 'PRIMITIVE', 'IDENT', '"="', 'INTEGER', '";"')]
    out = []
    for _ in range(n):
        pre, suf = rnd.choice(frames)
        mid = []
        for _ in range(rnd.randint(0, 3)):
            if rnd.random() < 0.5: mid += rnd.choice(good)
            else: mid += [rnd.randrange(NT - 1) for _ in range(rnd.randint(1, 4))]
        toks = pre + mid + suf
        ok, errs = parse(toks)
        print(json.dumps({'text': render(toks), 'ntok': len(toks), 'ok': ok, 'errs': [list(e) for e in errs]}))
