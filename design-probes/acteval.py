import re, sys
SRC = open(sys.argv[1]).read()
# ---- parse top-level action functions
acts = {}
for m in re.finditer(r'\nfn __action(\d+)<\s*(?:\'\w+,\s*)*>\(\s*(.*?)\n\) -> (.*?)\n\{\n(.*?)\n\}\n', SRC, re.S):
    n = int(m.group(1)); params_txt = m.group(2); ret = m.group(3).strip(); body = m.group(4)
    params = []
    for line in params_txt.split('\n'):
        line = line.strip().rstrip(',')
        if not line: continue
        name, ty = line.split(': ', 1)
        params.append((name.strip(), ty.strip()))
    acts[n] = (params[3:], ret, body)   # drop lookup, diagnostics, input
print('actions parsed:', len(acts), file=sys.stderr)

class Leaf:
    def __init__(self, n, binds, body, ret): self.n, self.binds, self.body, self.ret = n, binds, body, ret
    def __repr__(self): return 'Leaf(%d:%s)' % (self.n, self.ret)

def split_args(s):
    out, depth, cur = [], 0, ''
    for ch in s:
        if ch in '([{': depth += 1
        if ch in ')]}': depth -= 1
        if ch == ',' and depth == 0: out.append(cur.strip()); cur = ''
        else: cur += ch
    if cur.strip(): out.append(cur.strip())
    return out

def ev(n, args):
    params, ret, body = acts[n]
    assert len(params) == len(args), (n, len(params), len(args))
    env = {}
    for (pname, pty), a in zip(params, args):
        mm = re.match(r'\((\w+), (\w+), (\w+)\)$', pname)
        if mm:
            if mm.group(2) != '_': env[mm.group(2)] = a        # user binding -> whole triple
        else: env[pname] = a
    b = body.strip()
    if b in ('__lookahead.clone()', '*__lookahead'): return env['__lookahead']
    if b in ('__lookbehind.clone()', '*__lookbehind'): return env['__lookbehind']
    if not b.startswith('let __start') and not re.match(r'__action\d+\(', b):
        return Leaf(n, env, b, ret)
    # wrapper: statements
    def expr(e):
        e = e.strip()
        mm = re.match(r'&?(\w+)\.(0|2)\.clone\(\)$', e)
        if mm: return env[mm.group(1)][int(mm.group(2))]
        mm = re.match(r'&?(\w+)\.clone\(\)$', e)
        if mm: return env[mm.group(1)]
        mm = re.match(r'&(\w+)$', e)
        if mm: return env[mm.group(1)]
        mm = re.match(r'\((\w+), (\w+), (\w+)\)$', e)
        if mm: return (env[mm.group(1)], env[mm.group(2)], env[mm.group(3)])
        if re.match(r'\w+$', e): return env[e]
        raise Exception('expr? ' + e)
    def call(txt):
        mm = re.match(r'__action(\d+)\((.*)\)$', txt.strip(), re.S)
        a = split_args(mm.group(2))[3:]
        return ev(int(mm.group(1)), [expr(x) for x in a])
    stmts = re.split(r';\n', b)
    for st in stmts[:-1]:
        mm = re.match(r'\s*let (\w+) = (.*)$', st.strip(), re.S)
        name, rhs = mm.group(1), mm.group(2).strip()
        env[name] = call(rhs) if rhs.startswith('__action') else expr(rhs)
    return call(stmts[-1])

if __name__ == '__main__':
    from z3 import Int, Solver, And, Or, Not, sat
    # production: Method = Type, IDENT, "(", CommaSeparated<Arg>, ")", ";" => ActionFn(309)
    names = ['Type', 'IDENT', 'LP', 'Args', 'RP', 'SEMI']
    syms = [(Int('s_' + x), 'val_' + x, Int('e_' + x)) for x in names]
    leaf = ev(309, syms)
    print(leaf, sorted(leaf.binds.keys()))
    for f, a, b in re.findall(r'(\w+):\s*ast::Range::new\(&?lookup,\s*([^,]+),\s*([^)]+)\)', leaf.body):
        def val(x):
            x = x.strip(); mm = re.match(r'(\w+)( \+ (\d+))?$', x); v = leaf.binds[mm.group(1)][1]
            return v + int(mm.group(3)) if mm.group(3) else v
        print(' ', f, '=', val(a), '..', val(b))
