"""P-paths prototype for C03: per parser path (box of token assignments, parser verdict constant), ask z3 whether the
reference grammar disagrees somewhere in the box."""
import sys, time
exec(open('symdrv.py').read().split("if __name__ == '__main__':")[0])
from z3 import *
from cyk import reference, to_cnf
S = lambda *xs: [tix[x] for x in xs]
k = int(sys.argv[1]); slot = sys.argv[2]
slots = {'iface_body': (S('PACKAGE','IDENT','";"','INTERFACE','IDENT','"{"'), S('"}"')),
         'parc_body': (S('PACKAGE','IDENT','";"','PARCELABLE','IDENT','"{"'), S('"}"')),
         'enum_body': (S('PACKAGE','IDENT','";"','ENUM','IDENT','"{"'), S('"}"')),
         'args': (S('PACKAGE','IDENT','";"','INTERFACE','IDENT','"{"','VOID','IDENT','"("'), S('")"','";"','"}"')),
         'header': (S('PACKAGE','IDENT','";"'), S('INTERFACE','IDENT','"{"','"}"'))}
pre, suf = slots[slot]
dom = set(range(NT - 1))
def mk(): return pre + [set(dom) for _ in range(k)] + suf
n = len(pre) + k + len(suf)
# CYK formula once
s = SolverFor('QF_BV')
wv = [BitVec('w%d' % i, 6) for i in range(k)]
toks = [BitVecVal(t, 6) for t in pre] + wv + [BitVecVal(t, 6) for t in suf]
term_rules, bin_rules, _ = to_cnf(reference(), 'Aidl', set(tix))
terminals = set(tix); Dm = {}
def teq(i, X): return simplify(toks[i] == BitVecVal(tix[X], 6))
def d(X, i, j):
    key = (X, i, j)
    if key in Dm: return Dm[key]
    if X in terminals:
        v = teq(i, X) if j == i + 1 else BoolVal(False); Dm[key] = v; return v
    alts = []
    if j == i + 1:
        for a in term_rules.get(X, ()):
            e = teq(i, a)
            if not is_false(e): alts.append(e)
    else:
        for (B, C) in bin_rules.get(X, ()):
            for m in range(i + 1, j):
                l = d(B, i, m)
                if is_false(l): continue
                r = d(C, m, j)
                if is_false(r): continue
                alts.append(And(l, r))
    if not alts: Dm[key] = BoolVal(False); return Dm[key]
    if any(is_true(a) for a in alts): Dm[key] = BoolVal(True); return Dm[key]
    v = Bool('d_%s_%d_%d' % (X, i, j)); s.add(v == Or(alts)); Dm[key] = v; return v
t0 = time.time(); ref = d('Aidl', 0, n); tb = time.time() - t0
stats = {'paths': 0, 'accepting': 0, 'queries': 0, 'disagree': []}
tq = [0.0]
def on_path(doms, res):
    ok, errors, trace = res
    verdict = bool(ok and not errors)
    stats['paths'] += 1; stats['accepting'] += verdict
    t1 = time.time(); s.push()
    for i in range(k):
        dd = doms[len(pre) + i]
        if len(dd) < len(dom): s.add(Or([wv[i] == BitVecVal(t, 6) for t in sorted(dd)]))
    s.add(ref != BoolVal(verdict))
    r = s.check(); stats['queries'] += 1
    if r == sat:
        m = s.model(); stats['disagree'].append((' '.join(names[m.eval(w, True).as_long()] for w in wv), verdict))
    s.pop(); tq[0] += time.time() - t1
t0 = time.time(); explore(mk, on_path); tt = time.time() - t0
print(slot, 'k', k, 'cyk build', round(tb, 1), 'paths', stats['paths'], 'accepting paths', stats['accepting'], 'z3 queries', stats['queries'], 'z3 time', round(tq[0], 1), 'total', round(tt, 1), 'disagreements', len(stats['disagree']))
for x in stats['disagree'][:5]: print('   ', x)
