import itertools
from z3 import *
# reference grammar in EBNF-free form (hand expansion below via helper combinators)
class G:
    def __init__(self): self.rules = {}; self.cnt = 0
    def add(self, A, *rhs): self.rules.setdefault(A, []).append(list(rhs))
    def fresh(self, hint): self.cnt += 1; return '%s#%d' % (hint, self.cnt)
    def star(self, X):
        A = self.fresh('star'); self.add(A); self.add(A, X, A); return A
    def plus(self, X):
        A = self.fresh('plus'); self.add(A, X); self.add(A, X, A); return A
    def opt(self, *xs):
        A = self.fresh('opt'); self.add(A); self.add(A, *xs); return A
    def seq(self, *xs):
        A = self.fresh('seq'); self.add(A, *xs); return A
    def commasep(self, X):
        # (X ",")* X?
        A = self.fresh('cs'); self.add(A); self.add(A, X); self.add(A, X, '","', A); return A
def reference():
    g = G()
    T = lambda x: x
    g.add('QName', 'IDENT'); g.add('QName', 'IDENT', '"."', 'QName')
    g.add('Package', 'PACKAGE', 'QName', '";"')
    g.add('ImportPath', 'IDENT', '"."', 'IDENT'); g.add('ImportPath', 'IDENT', '"."', 'ImportPath')
    g.add('Import', 'IMPORT', 'ImportPath', '";"')
    for v in ['INTEGER', 'FLOAT', 'QUOTED_STRING', 'BOOLEAN']: g.add('SimpleValue', v)
    g.add('AnnotParam', 'IDENT'); g.add('AnnotParam', 'IDENT', '"="', 'SimpleValue')
    g.add('Annot', 'ANNOTATION'); g.add('Annot', 'ANNOTATION', '"("', g.commasep('AnnotParam'), '")"')
    An = g.star('Annot')
    g.add('DeclParc', An, 'PARCELABLE', 'QName', '";"')
    for t in ['VOID', 'PRIMITIVE', 'STRING', 'CHAR_SEQUENCE', 'LIST', 'MAP', 'QName']: g.add('Type', t)
    g.add('Type', 'Type', '"["', '"]"'); g.add('Type', 'LIST', '"<"', 'Type', '">"'); g.add('Type', 'MAP', '"<"', 'Type', '","', 'Type', '">"')
    g.add('Value', 'SimpleValue'); g.add('Value', '"{"', '"}"'); g.add('Value', 'IDENT', '"."', 'IDENT')
    g.add('Value', '"{"', g.plus('Value'), g.star(g.seq('","', 'Value')), g.opt('","'), '"}"')
    g.add('Arg', g.opt('DIRECTION'), An, 'Type', g.opt('IDENT'))
    g.add('Method', An, g.opt('ONEWAY'), 'Type', 'IDENT', '"("', g.commasep('Arg'), '")"', g.opt('"="', 'INTEGER'), '";"')
    g.add('Const', An, 'CONST', 'Type', 'IDENT', '"="', 'Value', '";"')
    g.add('Field', An, 'Type', 'IDENT', g.opt('"="', 'Value'), '";"')
    g.add('EnumEl', An, 'IDENT', g.opt('"="', 'SimpleValue'))
    g.add('IfaceEl', 'Method'); g.add('IfaceEl', 'Const'); g.add('ParcEl', 'Field'); g.add('ParcEl', 'Const')
    g.add('Item', An, g.opt('ONEWAY'), 'INTERFACE', 'IDENT', '"{"', g.star('IfaceEl'), '"}"')
    g.add('Item', An, 'PARCELABLE', 'IDENT', '"{"', g.star('ParcEl'), '"}"')
    g.add('Item', An, 'ENUM', 'IDENT', '"{"', g.commasep('EnumEl'), '"}"')
    g.add('Aidl', 'Package', g.star('Import'), g.star('DeclParc'), 'Item')
    return g
def to_cnf(g, start, terminals):
    rules = {A: [list(r) for r in rs] for A, rs in g.rules.items()}
    isT = lambda x: x in terminals
    # binarize
    cnt = [0]
    out = {}
    def add(A, r): out.setdefault(A, []).append(r)
    for A, rs in rules.items():
        for r in rs:
            cur = A; r = list(r)
            while len(r) > 2:
                cnt[0] += 1; B = 'bin#%d' % cnt[0]
                add(cur, [r[0], B]); cur = B; r = r[1:]
            add(cur, r)
    rules = out
    for A in list(rules): pass
    # nullable
    nullable = set(); ch = True
    while ch:
        ch = False
        for A, rs in rules.items():
            if A not in nullable and any(all(x in nullable for x in r) for r in rs): nullable.add(A); ch = True
    # remove eps
    out = {}
    for A, rs in rules.items():
        for r in rs:
            if len(r) == 0: continue
            if len(r) == 1: out.setdefault(A, set()).add(tuple(r))
            else:
                x, y = r
                out.setdefault(A, set()).add((x, y))
                if x in nullable: out[A].add((y,))
                if y in nullable: out[A].add((x,))
    rules = out
    # unit closure
    unit = {A: {A} for A in set(rules) | {x for rs in rules.values() for r in rs for x in r if not isT(x)}}
    ch = True
    while ch:
        ch = False
        for A in unit:
            for B in list(unit[A]):
                for r in rules.get(B, ()):
                    if len(r) == 1 and not isT(r[0]) and r[0] not in unit[A]: unit[A].add(r[0]); ch = True
    term_rules = {}; bin_rules = {}
    for A in unit:
        for B in unit[A]:
            for r in rules.get(B, ()):
                if len(r) == 1 and isT(r[0]): term_rules.setdefault(A, set()).add(r[0])
                elif len(r) == 2: bin_rules.setdefault(A, set()).add(r)
    return term_rules, bin_rules, (start in nullable)
def cyk_formula(solver, toks, N, tix, start='Aidl'):
    g = reference()
    terminals = set(tix)
    term_rules, bin_rules, _ = to_cnf(g, start, terminals)
    # terminals appearing inside binary rules: wrap
    D = {}
    def d(X, i, j):
        key = (X, i, j)
        if key in D: return D[key]
        if X in terminals:
            v = (toks[i] == tix[X]) if j == i + 1 else BoolVal(False)
            D[key] = v; return v
        alts = []
        if j == i + 1:
            for a in term_rules.get(X, ()): alts.append(toks[i] == tix[a])
        else:
            for (B, C) in bin_rules.get(X, ()):
                for k in range(i + 1, j):
                    l, r = d(B, i, k), d(C, k, j)
                    if is_false(l) or is_false(r): continue
                    alts.append(And(l, r))
        if not alts: D[key] = BoolVal(False); return D[key]
        v = Bool('d_%s_%d_%d' % (X, i, j)); solver.add(v == Or(alts)); D[key] = v; return v
    return {n: d(start, 0, n) for n in range(1, N + 1)}
