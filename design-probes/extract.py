import re, sys, json
def extract(path, mod='__parse__OptAidl'):
    src = open(path).read()
    i = src.index('mod %s {' % mod)
    j = src.index('\nmod ', i+10)
    m = src[i:j]
    def arr(name):
        k = m.index('const %s: &[i16] = &[' % name)
        e = m.index('];', k)
        body = m[k:e].split('= &[',1)[1]
        body = re.sub(r'//[^\n]*', '', body)
        return [int(x) for x in re.findall(r'-?\d+', body)]
    action = arr('__ACTION'); eof = arr('__EOF_ACTION')
    nstates = len(eof); nterm = len(action)//nstates
    # goto
    k = m.index('fn __goto(state: i16, nt: usize) -> i16 {'); e = m.index('fn __expected_tokens', k)
    g = m[k:e]
    goto = {}  # nt -> (default, {state: target})
    # parse arms
    body = g[g.index('match nt {')+len('match nt {'):]
    pos = 0
    for mm in re.finditer(r'\n            (\d+) => (?:(\d+),|match state \{(.*?)\n            \},)', body, re.S):
        nt = int(mm.group(1))
        if mm.group(2) is not None:
            goto[nt] = (int(mm.group(2)), {})
        else:
            d = {}; default = None
            for arm in re.finditer(r'\n\s+([0-9| .=]+|_) => (\d+),', mm.group(3)):
                pat, tgt = arm.group(1).strip(), int(arm.group(2))
                if pat == '_': default = tgt
                else:
                    for p in pat.split('|'):
                        p = p.strip()
                        if '..=' in p:
                            a, b = p.split('..='); 
                            for s in range(int(a), int(b)+1): d[s] = tgt
                        else: d[int(p)] = tgt
            goto[nt] = (default, d)
    # simulate_reduce
    k = m.index('fn __simulate_reduce<'); e = m.index('pub struct', k)
    sr = m[k:e]
    red = {}
    for mm in re.finditer(r'(\d+) => \{\s*__state_machine::SimulatedReduce::Reduce \{\s*states_to_pop: (\d+),\s*nonterminal_produced: (\d+),', sr):
        red[int(mm.group(1))] = (int(mm.group(2)), int(mm.group(3)))
    acc = [int(x) for x in re.findall(r'(\d+) => __state_machine::SimulatedReduce::Accept', sr)]
    k = m.index('const __TERMINAL: &[&str] = &['); e = m.index('];', k)
    terms = re.findall(r'r###"(.*?)"###', m[k:e])
    return dict(action=action, eof=eof, nstates=nstates, nterm=nterm, goto={str(a):[b[0], {str(x):y for x,y in b[1].items()}] for a,b in goto.items()}, red={str(a):b for a,b in red.items()}, accept=acc, terms=terms)
if __name__ == '__main__':
    t = extract(sys.argv[1])
    print(t['nstates'], t['nterm'], len(t['goto']), len(t['red']), t['accept'], t['terms'])
    json.dump(t, open('tables.json','w'))
