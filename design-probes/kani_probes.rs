use aidl_parser::verif_hooks as vh;
use aidl_parser::verif_hooks::Token;

// terminal kinds (index in lexer table)
pub const T_FLOAT: usize = 0; pub const T_INTEGER: usize = 1; pub const T_IDENT: usize = 2; pub const T_RESERVED: usize = 3;
pub const T_QSTRING: usize = 4; pub const T_PRIMITIVE: usize = 5; pub const T_DIRECTION: usize = 6; pub const T_BOOLEAN: usize = 7;
pub const T_ANNOTATION: usize = 10; pub const T_LPAREN: usize = 12; pub const T_RPAREN: usize = 13; pub const T_COMMA: usize = 14;
pub const T_MINUS: usize = 15; pub const T_DOT: usize = 16; pub const T_SEMI: usize = 17; pub const T_LT: usize = 18; pub const T_EQ: usize = 19;
pub const T_GT: usize = 20; pub const T_CHARSEQ: usize = 21; pub const T_LIST: usize = 22; pub const T_MAP: usize = 23; pub const T_STRING: usize = 24;
pub const T_LBRACK: usize = 25; pub const T_RBRACK: usize = 26; pub const T_CONST: usize = 27; pub const T_ENUM: usize = 28; pub const T_IMPORT: usize = 29;
pub const T_INTERFACE: usize = 30; pub const T_ONEWAY: usize = 31; pub const T_PACKAGE: usize = 32; pub const T_PARCELABLE: usize = 33; pub const T_VOID: usize = 34;
pub const T_LBRACE: usize = 35; pub const T_RBRACE: usize = 36;

pub fn text_of(k: usize) -> &'static str {
    match k {
        T_FLOAT => "1.5", T_INTEGER => "7", T_IDENT => "x", T_RESERVED => "for", T_QSTRING => "\"s\"", T_PRIMITIVE => "int",
        T_DIRECTION => "in", T_BOOLEAN => "true", T_ANNOTATION => "@A", T_LPAREN => "(", T_RPAREN => ")", T_COMMA => ",", T_MINUS => "-",
        T_DOT => ".", T_SEMI => ";", T_LT => "<", T_EQ => "=", T_GT => ">", T_CHARSEQ => "CharSequence", T_LIST => "List", T_MAP => "Map",
        T_STRING => "String", T_LBRACK => "[", T_RBRACK => "]", T_CONST => "const", T_ENUM => "enum", T_IMPORT => "import", T_INTERFACE => "interface",
        T_ONEWAY => "oneway", T_PACKAGE => "package", T_PARCELABLE => "parcelable", T_VOID => "void", T_LBRACE => "{", T_RBRACE => "}",
        _ => "?",
    }
}

pub struct Toks<'a> { pub kinds: &'a [usize], pub i: usize }
impl<'a> Iterator for Toks<'a> {
    type Item = Result<(usize, Token<'static>, usize), vh::TokErr<'static>>;
    fn next(&mut self) -> Option<Self::Item> {
        if self.i >= self.kinds.len() { return None; }
        let k = self.kinds[self.i];
        let start = self.i * 16;
        self.i += 1;
        let t = text_of(k);
        Some(Ok((start, Token(k, t), start + t.len())))
    }
}

pub fn run(kinds: &[usize]) -> (Result<Option<aidl_parser::ast::Aidl>, ()>, usize) {
    let input = "";
    let lookup = vh::LineColLookup::new(input);
    let mut diags = Vec::new();
    let r = vh::drive_tokens(&lookup, &mut diags, input, Toks { kinds, i: 0 });
    (r.map_err(|_| ()), diags.len())
}


#[cfg(kani)]
mod proofs {
    use super::*;
    use aidl_parser::ast;
    use std::collections::{HashMap, HashSet};

    fn stub_format(_args: std::fmt::Arguments<'_>) -> String { String::new() }

    fn rng() -> ast::Range { ast::Range{ start: ast::Position{offset:0,line_col:(1,1)}, end: ast::Position{offset:0,line_col:(1,1)} } }
    fn any_kind() -> (ast::TypeKind, u8) {
        let k: u8 = kani::any();
        kani::assume(k < 17);
        let kind = match k {
            0 => ast::TypeKind::Primitive, 1 => ast::TypeKind::Void, 2 => ast::TypeKind::Array, 3 => ast::TypeKind::Map, 4 => ast::TypeKind::List,
            5 => ast::TypeKind::String, 6 => ast::TypeKind::CharSequence,
            7 => ast::TypeKind::AndroidType(ast::AndroidTypeKind::IBinder), 8 => ast::TypeKind::AndroidType(ast::AndroidTypeKind::FileDescriptor),
            9 => ast::TypeKind::AndroidType(ast::AndroidTypeKind::ParcelFileDescriptor), 10 => ast::TypeKind::AndroidType(ast::AndroidTypeKind::ParcelableHolder),
            11 => ast::TypeKind::ResolvedItem(String::new(), ast::ResolvedItemKind::Interface),
            12 => ast::TypeKind::ResolvedItem(String::new(), ast::ResolvedItemKind::Parcelable),
            13 => ast::TypeKind::ResolvedItem(String::new(), ast::ResolvedItemKind::Enum),
            14 => ast::TypeKind::ResolvedItem(String::new(), ast::ResolvedItemKind::ForwardDeclaredParcelable),
            15 => ast::TypeKind::ResolvedItem(String::new(), ast::ResolvedItemKind::UnknownImport),
            _ => ast::TypeKind::Unresolved,
        };
        (kind, k)
    }
    fn ty(kind: ast::TypeKind) -> ast::Type { ast::Type{ name: String::new(), kind, generic_types: Vec::new(), symbol_range: rng(), full_range: rng() } }

    #[kani::proof]
    #[kani::stub(alloc::fmt::format, stub_format)]
    #[kani::unwind(4)]
    fn p2_method_args() {
        let (kind, k) = any_kind();
        let d: u8 = kani::any(); kani::assume(d < 4);
        let dir = match d { 0 => ast::Direction::Unspecified, 1 => ast::Direction::In(rng()), 2 => ast::Direction::Out(rng()), _ => ast::Direction::InOut(rng()) };
        let oneway: bool = kani::any();
        let arg = ast::Arg{ direction: dir, name: None, arg_type: ty(kind), annotations: Vec::new(), doc: None, symbol_range: rng(), full_range: rng() };
        let m = ast::Method{ oneway, name: String::new(), return_type: ty(ast::TypeKind::Void), args: vec![arg], annotations: Vec::new(), transact_code: None, doc: None,
            symbol_range: rng(), full_range: rng(), transact_code_range: rng(), oneway_range: rng() };
        let mut diags = Vec::new();
        vh::check_method_args(&m, &mut diags);
        // reference
        let req_dir = matches!(k, 2|3|4|12|14);
        let in_or_none = matches!(k, 0|1|5|6|7|8|11|13|15);
        let mut exp = 0;
        if req_dir && d == 0 { exp += 1; }
        if in_or_none && d >= 2 { exp += 1; }
        if k == 9 && !(d == 1 || d == 3) { exp += 1; }
        if k == 10 { exp += 1; }
        if oneway && d >= 2 { exp += 1; }
        assert!(diags.len() == exp);
        std::mem::forget(diags); std::mem::forget(m);
    }

    #[kani::proof]
    #[kani::stub(alloc::fmt::format, stub_format)]
    #[kani::unwind(6)]
    fn p3_hashmap_imports() {
        let imports = vec![
            ast::Import{ path: "a".to_owned(), name: "B".to_owned(), symbol_range: rng(), full_range: rng() },
            ast::Import{ path: "a".to_owned(), name: "C".to_owned(), symbol_range: rng(), full_range: rng() },
        ];
        let resolved: HashSet<String> = HashSet::new();
        let defined: HashMap<String, ast::ResolvedItemKind> = HashMap::new();
        let mut diags = Vec::new();
        let m = vh::check_imports(&imports, &resolved, &defined, &mut diags);
        assert!(diags.len() == 2);
        std::mem::forget(m); std::mem::forget(diags); std::mem::forget(imports);
    }

    #[kani::proof]
    #[kani::unwind(8)]
    fn p4_javadoc() {
        let buf: [u8; 6] = kani::any();
        let len: usize = kani::any(); kani::assume(len <= 6);
        if let Ok(s) = core::str::from_utf8(&buf[..len]) {
            let r = vh::find_content_string(s);
            if let Some(c) = r { assert!(c.len() <= s.len()); }
        }
    }

    #[kani::proof]
    #[kani::unwind(6)]
    fn p20_expected() {
        let n: usize = kani::any(); kani::assume(n <= 4);
        let all = ["A".to_owned(), "B".to_owned(), "C".to_owned(), "D".to_owned()];
        let s = vh::expected_token_str(&all[..n]);
        let b = s.as_bytes();
        let mut i = 0;
        while i < n {
            let c = b'A' + i as u8;
            let mut found = false;
            let mut j = 0;
            while j < b.len() { if b[j] == c { found = true; } j += 1; }
            assert!(found);
            i += 1;
        }
    }
}

#[cfg(kani)]
mod proofs_parse {
    use super::*;
    fn stub_get_by_cluster<'source>(_s: &vh::LineColLookup<'source>, index: usize) -> (usize, usize) where 'source: 'source { (1, index + 1) }
    fn stub_get_javadoc(_input: &str, _pos: usize) -> Option<String> { None }
    #[kani::proof]
    #[kani::stub(line_col::LineColLookup::get_by_cluster, stub_get_by_cluster)]
    #[kani::stub(aidl_parser::javadoc::get_javadoc, stub_get_javadoc)]
    fn concrete_enum() {
        let kinds = [T_PACKAGE, T_IDENT, T_SEMI, T_ENUM, T_IDENT, T_LBRACE, T_RBRACE];
        let (r, n) = run(&kinds);
        assert!(n == 0);
        let ok = matches!(r, Ok(Some(_)));
        std::mem::forget(r);
        assert!(ok);
    }
}

#[cfg(kani)]
mod proofs_hm {
    use std::collections::HashMap;
    #[kani::proof]
    #[kani::unwind(5)]
    fn hm_u32() {
        let mut m: HashMap<u32, u32> = HashMap::new();
        let k: u32 = kani::any();
        m.insert(k, 2);
        assert!(m.get(&k) == Some(&2));
        std::mem::forget(m);
    }
    #[kani::proof]
    #[kani::unwind(9)]
    fn hm_string() {
        let mut m: HashMap<String, u32> = HashMap::new();
        m.insert("ab".to_owned(), 2);
        assert!(m.get("ab") == Some(&2));
        std::mem::forget(m);
    }
}

#[cfg(kani)]
mod proofs_trav {
    use aidl_parser::ast;
    use aidl_parser::symbol::Symbol;
    use aidl_parser::traverse::{self, SymbolFilter};
    fn rng() -> ast::Range { ast::Range{ start: ast::Position{offset:0,line_col:(1,1)}, end: ast::Position{offset:0,line_col:(1,1)} } }
    fn leaf() -> ast::Type { ast::Type{ name: String::new(), kind: ast::TypeKind::Primitive, generic_types: Vec::new(), symbol_range: rng(), full_range: rng() } }
    // returns type and number of type nodes
    fn mk(depth: u8) -> (ast::Type, usize) {
        let c: u8 = kani::any();
        kani::assume(c < 4);
        if depth == 0 || c == 0 { return (leaf(), 1); }
        let (a, na) = mk(depth - 1);
        match c {
            1 => (ast::Type{ name: String::new(), kind: ast::TypeKind::Array, generic_types: vec![a], symbol_range: rng(), full_range: rng() }, na + 1),
            2 => (ast::Type{ name: String::new(), kind: ast::TypeKind::List, generic_types: vec![a], symbol_range: rng(), full_range: rng() }, na + 1),
            _ => { let (b, nb) = mk(depth - 1); (ast::Type{ name: String::new(), kind: ast::TypeKind::Map, generic_types: vec![a, b], symbol_range: rng(), full_range: rng() }, na + nb + 1) }
        }
    }
    #[kani::proof]
    #[kani::unwind(5)]
    fn p6_walk_count() {
        let (rt, n1) = mk(2);
        let (at, n2) = mk(1);
        let arg = ast::Arg{ direction: ast::Direction::Unspecified, name: None, arg_type: at, annotations: Vec::new(), doc: None, symbol_range: rng(), full_range: rng() };
        let m = ast::Method{ oneway: false, name: String::new(), return_type: rt, args: vec![arg], annotations: Vec::new(), transact_code: None, doc: None,
            symbol_range: rng(), full_range: rng(), transact_code_range: rng(), oneway_range: rng() };
        let i = ast::Interface{ oneway: false, name: String::new(), elements: vec![ast::InterfaceElement::Method(m)], annotations: Vec::new(), doc: None, full_range: rng(), symbol_range: rng() };
        let a = ast::Aidl{ package: ast::Package{ name: String::new(), symbol_range: rng(), full_range: rng() }, imports: Vec::new(), declared_parcelables: Vec::new(), item: ast::Item::Interface(i) };
        let mut cnt = 0usize; let mut types = 0usize;
        traverse::walk_symbols(&a, SymbolFilter::All, |s| { cnt += 1; if let Symbol::Type(_) = s { types += 1; } });
        assert!(types == n1 + n2);
        assert!(cnt == 4 + n1 + n2);
        let f = traverse::find_symbol(&a, SymbolFilter::All, |s| matches!(s, Symbol::Package(_)));
        assert!(f.is_some());
        std::mem::forget(a);
    }
}

// terminal indices (parser numbering)
pub const N_TERM: usize = 34;
pub fn accepts_clean(toks: &[u8], n: usize, max_steps: usize) -> Option<bool> {
    let mut st = [0i16; 48];
    let mut sp: usize = 1;
    let mut i = 0usize;
    let mut steps = 0usize;
    while steps < max_steps {
        steps += 1;
        let top = st[sp - 1];
        let a = if i < n { vh::action(top, toks[i] as usize) } else { vh::eof_action(top) };
        if a > 0 {
            if sp >= 48 { return None; }
            st[sp] = a - 1; sp += 1; i += 1;
        } else if a < 0 {
            match vh::simulate_reduce(-(a + 1)) {
                Some((pop, nt)) => {
                    sp -= pop;
                    let g = vh::goto(st[sp - 1], nt);
                    if sp >= 48 { return None; }
                    st[sp] = g; sp += 1;
                }
                None => return Some(true),
            }
        } else { return Some(false); }
    }
    None
}

#[cfg(kani)]
mod proofs_tab {
    use super::*;
    const N: usize = 8;
    #[kani::proof]
    #[kani::unwind(100)]
    fn tab_sym() {
        let toks: [u8; N] = kani::any();
        let n: usize = kani::any();
        kani::assume(n <= N);
        let mut k = 0; while k < N { kani::assume((toks[k] as usize) < N_TERM); k += 1; }
        let r = accepts_clean(&toks, n, 96);
        assert!(r.is_some());
        if r == Some(true) { assert!(toks[0] == 27 && n >= 7); }
        kani::cover!(r == Some(true));
    }
}
#[cfg(test)]
mod t2 { use super::*;
  #[test] fn shadow_native() {
    // package(27) ident(20) ;(5) enum(18) ident(20) {(11) }(12)
    assert_eq!(accepts_clean(&[27,20,5,18,20,11,12], 7, 96), Some(true));
    assert_eq!(accepts_clean(&[27,20,5,18,20,11], 6, 96), Some(false));
  }
}

#[cfg(kani)]
mod proofs_fmt {
    #[kani::proof]
    #[kani::unwind(8)]
    fn fmt_dot() {
        let a = String::from("p"); let b = String::from("E");
        let s = format!("{}.{}", a, b);
        assert!(s.len() == 3);
        assert!(s.as_bytes()[1] == b'.');
        std::mem::forget(s);
    }
    #[kani::proof]
    #[kani::unwind(8)]
    fn fmt_key() {
        use aidl_parser::ast;
        let r = || ast::Range{ start: ast::Position{offset:0,line_col:(1,1)}, end: ast::Position{offset:0,line_col:(1,1)} };
        let k: u8 = kani::any(); kani::assume(k < 3);
        let pkg = ast::Package{ name: "p".to_owned(), symbol_range: r(), full_range: r() };
        let e = ast::Enum{ name: "E".to_owned(), elements: Vec::new(), annotations: Vec::new(), doc: None, full_range: r(), symbol_range: r() };
        let s = aidl_parser::symbol::Symbol::Enum(&e, &pkg).get_qualified_name().unwrap();
        assert!(s.len() == 3);
        std::mem::forget(s);
    }
}

#[cfg(kani)]
mod proofs_hm2 {
    use std::collections::HashMap;
    use std::hash::RandomState;
    fn rs_concrete() -> RandomState { unsafe { std::mem::transmute::<(u64, u64), RandomState>((1, 2)) } }
    fn rs_symbolic() -> RandomState { let k: (u64, u64) = (kani::any(), kani::any()); unsafe { std::mem::transmute::<(u64, u64), RandomState>(k) } }
    #[kani::proof]
    #[kani::stub(std::hash::RandomState::new, rs_concrete)]
    #[kani::unwind(5)]
    fn hm2_concrete() {
        let mut m: HashMap<u32, u32> = HashMap::new();
        m.insert(7, 2);
        assert!(m.get(&7) == Some(&2));
        std::mem::forget(m);
    }
    #[kani::proof]
    #[kani::stub(std::hash::RandomState::new, rs_symbolic)]
    #[kani::unwind(5)]
    fn hm2_symbolic() {
        let mut m: HashMap<u32, u32> = HashMap::new();
        m.insert(7, 2);
        m.insert(9, 3);
        let first = m.iter().next().map(|(k, _)| *k);
        assert!(first == Some(7));   // expected to FAIL: order depends on keys
        std::mem::forget(m);
    }
}

#[cfg(kani)]
mod proofs_imp {
    use aidl_parser::ast;
    use aidl_parser::verif_hooks as vh;
    use std::collections::{HashMap, HashSet};
    use std::hash::RandomState;
    fn rs_symbolic() -> RandomState { let k: (u64, u64) = (kani::any(), kani::any()); unsafe { std::mem::transmute::<(u64, u64), RandomState>(k) } }
    fn stub_format(_args: std::fmt::Arguments<'_>) -> String { String::new() }
    fn model_qualified_name(i: &ast::Import) -> String {
        if i.path.is_empty() { i.name.clone() } else { let mut s = i.path.clone(); s.push('.'); s.push_str(&i.name); s }
    }
    fn rng(l: usize, c: usize) -> ast::Range { ast::Range{ start: ast::Position{offset:c,line_col:(l,c)}, end: ast::Position{offset:c,line_col:(l,c)} } }
    #[kani::proof]
    #[kani::stub(std::hash::RandomState::new, rs_symbolic)]
    #[kani::stub(alloc::fmt::format, stub_format)]
    #[kani::stub(aidl_parser::ast::Import::get_qualified_name, model_qualified_name)]
    #[kani::unwind(20)]
    fn imp_order() {
        let imports = vec![
            ast::Import{ path: "a".to_owned(), name: "B".to_owned(), symbol_range: rng(1, 10), full_range: rng(1, 3) },
            ast::Import{ path: "a".to_owned(), name: "C".to_owned(), symbol_range: rng(1, 20), full_range: rng(1, 13) },
        ];
        let resolved: HashSet<String> = HashSet::new();
        let defined: HashMap<String, ast::ResolvedItemKind> = HashMap::new();
        let mut diags = Vec::new();
        let m = vh::check_imports(&imports, &resolved, &defined, &mut diags);
        assert!(diags.len() == 2);
        kani::cover!(diags[0].range.start.line_col.1 == 20);   // hash order can flip
        kani::cover!(diags[0].range.start.line_col.1 == 10);
        std::mem::forget(m); std::mem::forget(diags); std::mem::forget(imports); std::mem::forget(resolved); std::mem::forget(defined);
    }
}

#[cfg(kani)]
mod proofs_jd {
    use aidl_parser::verif_hooks as vh;
    const N: usize = 8;
    #[kani::proof]
    #[kani::unwind(10)]
    fn jd_classes() {
        let mut buf = [0u8; 4 * N];
        let mut len = 0usize;
        let n: usize = kani::any(); kani::assume(n <= N);
        let mut i = 0;
        while i < n {
            let c: u8 = kani::any(); kani::assume(c < 8);
            match c {
                0 => { buf[len] = b'/'; len += 1; }
                1 => { buf[len] = b'*'; len += 1; }
                2 => { buf[len] = b' '; len += 1; }
                3 => { buf[len] = b'\n'; len += 1; }
                4 => { buf[len] = b'a'; len += 1; }
                5 => { buf[len] = 0xc3; buf[len+1] = 0xa9; len += 2; }
                6 => { buf[len] = 0xe2; buf[len+1] = 0x82; buf[len+2] = 0xac; len += 3; }
                _ => { buf[len] = 0xf0; buf[len+1] = 0x9f; buf[len+2] = 0x98; buf[len+3] = 0x80; len += 4; }
            }
            i += 1;
        }
        let s = unsafe { core::str::from_utf8_unchecked(&buf[..len]) };
        let r = vh::find_content_string(s);
        if let Some(c) = r { assert!(c.len() <= s.len()); }
    }
}

#[cfg(kani)]
mod proofs_lc {
    use aidl_parser::verif_hooks as vh;
    #[kani::proof]
    #[kani::unwind(10)]
    fn lc_cluster() {
        let text = "aé\nb€c";   // 1+2+1+1+3+1 = 9 bytes
        let lookup = vh::LineColLookup::new(text);
        let off: usize = kani::any();
        kani::assume(off <= 9 && text.is_char_boundary(off));
        let (l, c) = lookup.get_by_cluster(off);
        assert!(l == if off <= 3 { 1 } else { 2 });
        assert!(c >= 1 && c <= 4);
    }
}

#[cfg(kani)]
mod proofs_rt {
    use aidl_parser::ast;
    use aidl_parser::verif_hooks as vh;
    use std::collections::{HashMap, HashSet};
    use std::hash::RandomState;
    fn rs_concrete() -> RandomState { unsafe { std::mem::transmute::<(u64, u64), RandomState>((1, 2)) } }
    fn stub_format(_args: std::fmt::Arguments<'_>) -> String { String::new() }
    fn rng(l: usize, c: usize) -> ast::Range { ast::Range{ start: ast::Position{offset:c,line_col:(l,c)}, end: ast::Position{offset:c,line_col:(l,c)} } }
    #[kani::proof]
    #[kani::stub(std::hash::RandomState::new, rs_concrete)]
    #[kani::stub(alloc::fmt::format, stub_format)]
    #[kani::unwind(33)]
    fn rt_empty_sets() {
        let k: u8 = kani::any(); kani::assume(k < 6);
        let name = match k { 0 => "IBinder", 1 => "XIBinder", 2 => "android.os.IBinder", 3 => "android.os.ParcelFileDescriptor", 4 => "ParcelableHolder", _ => "Foo" };
        let mut t = ast::Type{ name: name.to_owned(), kind: ast::TypeKind::Unresolved, generic_types: Vec::new(), symbol_range: rng(1, 5), full_range: rng(1, 5) };
        let imports: HashSet<String> = HashSet::new();
        let declared: HashSet<String> = HashSet::new();
        let defined: HashMap<String, ast::ResolvedItemKind> = HashMap::new();
        let mut diags = Vec::new();
        vh::resolve_type(&mut t, &imports, &declared, &defined, &mut diags);
        let builtin = matches!(k, 0 | 3 | 4);
        assert!(matches!(t.kind, ast::TypeKind::AndroidType(_)) == builtin);
        assert!(diags.len() == if builtin { 0 } else { 1 });
        std::mem::forget(t); std::mem::forget(diags); std::mem::forget(imports); std::mem::forget(declared); std::mem::forget(defined);
    }
}

#[cfg(kani)]
mod proofs_rt1 {
    use aidl_parser::ast;
    use aidl_parser::verif_hooks as vh;
    use std::collections::{HashMap, HashSet};
    use std::hash::RandomState;
    fn rs_concrete() -> RandomState { unsafe { std::mem::transmute::<(u64, u64), RandomState>((1, 2)) } }
    static mut SUFFIX: Option<&'static str> = None;
    fn stub_format(_args: std::fmt::Arguments<'_>) -> String { unsafe { match SUFFIX { Some(s) => s.to_owned(), None => String::new() } } }
    fn rng(l: usize, c: usize) -> ast::Range { ast::Range{ start: ast::Position{offset:c,line_col:(l,c)}, end: ast::Position{offset:c,line_col:(l,c)} } }
    #[kani::proof]
    #[kani::stub(std::hash::RandomState::new, rs_concrete)]
    #[kani::stub(alloc::fmt::format, stub_format)]
    #[kani::unwind(33)]
    fn rt_one_import() {
        let k: u8 = kani::any(); kani::assume(k < 3);
        let (name, suffix) = match k { 0 => ("ParcelFileDescriptor", ".ParcelFileDescriptor"), 1 => ("Foo", ".Foo"), _ => ("XFoo", ".XFoo") };
        unsafe { SUFFIX = Some(suffix); }
        let mut t = ast::Type{ name: name.to_owned(), kind: ast::TypeKind::Unresolved, generic_types: Vec::new(), symbol_range: rng(1, 5), full_range: rng(1, 5) };
        let mut imports: HashSet<String> = HashSet::new();
        let which: bool = kani::any();
        imports.insert(if which { "android.os.ParcelFileDescriptor".to_owned() } else { "p.Foo".to_owned() });
        let declared: HashSet<String> = HashSet::new();
        let defined: HashMap<String, ast::ResolvedItemKind> = HashMap::new();
        let mut diags = Vec::new();
        vh::resolve_type(&mut t, &imports, &declared, &defined, &mut diags);
        // property: built-in stays built-in even when imported; Foo resolves via p.Foo only; XFoo never
        let exp_builtin = k == 0;
        let exp_item = k == 1 && !which;
        assert!(matches!(t.kind, ast::TypeKind::AndroidType(_)) == exp_builtin);
        assert!(matches!(t.kind, ast::TypeKind::ResolvedItem(..)) == exp_item);
        assert!(diags.len() == if exp_builtin || exp_item { 0 } else { 1 });
        std::mem::forget(t); std::mem::forget(diags); std::mem::forget(imports); std::mem::forget(declared); std::mem::forget(defined);
    }
}

#[cfg(kani)]
mod proofs_trav2 {
    use aidl_parser::ast;
    use aidl_parser::symbol::Symbol;
    use aidl_parser::traverse::{self, SymbolFilter};
    fn rng() -> ast::Range { ast::Range{ start: ast::Position{offset:0,line_col:(1,1)}, end: ast::Position{offset:0,line_col:(1,1)} } }
    fn leaf() -> ast::Type { ast::Type{ name: String::new(), kind: ast::TypeKind::Primitive, generic_types: Vec::new(), symbol_range: rng(), full_range: rng() } }
    fn mk(depth: u8) -> ast::Type {
        let c: u8 = kani::any();
        kani::assume(c < 4);
        if depth == 0 || c == 0 { return leaf(); }
        let a = mk(depth - 1);
        match c {
            1 => ast::Type{ name: String::new(), kind: ast::TypeKind::Array, generic_types: vec![a], symbol_range: rng(), full_range: rng() },
            2 => ast::Type{ name: String::new(), kind: ast::TypeKind::List, generic_types: vec![a], symbol_range: rng(), full_range: rng() },
            _ => { let b = mk(depth - 1); ast::Type{ name: String::new(), kind: ast::TypeKind::Map, generic_types: vec![a, b], symbol_range: rng(), full_range: rng() } }
        }
    }
    const CAP: usize = 24;
    // reference pre-order of type nodes (element before array)
    fn ref_types(t: &ast::Type, out: &mut [usize; CAP], n: &mut usize) {
        if t.kind == ast::TypeKind::Array {
            let mut i = 0; while i < t.generic_types.len() { ref_types(&t.generic_types[i], out, n); i += 1; }
            out[*n] = t as *const ast::Type as usize; *n += 1;
        } else {
            out[*n] = t as *const ast::Type as usize; *n += 1;
            let mut i = 0; while i < t.generic_types.len() { ref_types(&t.generic_types[i], out, n); i += 1; }
        }
    }
    #[kani::proof]
    #[kani::unwind(5)]
    fn c15_types_order_d3() {
        let rt = mk(3);
        let m = ast::Method{ oneway: false, name: String::new(), return_type: rt, args: Vec::new(), annotations: Vec::new(), transact_code: None, doc: None,
            symbol_range: rng(), full_range: rng(), transact_code_range: rng(), oneway_range: rng() };
        let i = ast::Interface{ oneway: false, name: String::new(), elements: vec![ast::InterfaceElement::Method(m)], annotations: Vec::new(), doc: None, full_range: rng(), symbol_range: rng() };
        let a = ast::Aidl{ package: ast::Package{ name: String::new(), symbol_range: rng(), full_range: rng() }, imports: Vec::new(), declared_parcelables: Vec::new(), item: ast::Item::Interface(i) };
        let mut exp = [0usize; CAP]; let mut ne = 0usize;
        if let ast::Item::Interface(ref i) = a.item { if let ast::InterfaceElement::Method(ref m) = i.elements[0] { ref_types(&m.return_type, &mut exp, &mut ne); } }
        let mut got = [0usize; CAP]; let mut ng = 0usize;
        traverse::walk_types(&a, |t| { if ng < CAP { got[ng] = t as *const ast::Type as usize; } ng += 1; });
        assert!(ng == ne);
        let mut k = 0; while k < CAP { if k < ne { assert!(got[k] == exp[k]); } k += 1; }
        std::mem::forget(a);
    }
}
