import json, sys, time
from z3 import *
T = json.load(open('tables.json'))
NS, NT = T['nstates'], T['nterm']
ACT, EOFA = T['action'], T['eof']
GOTO = {int(k):(v[0], {int(a):b for a,b in v[1].items()}) for k,v in T['goto'].items()}
RED = {int(k):tuple(v) for k,v in T['red'].items()}
names = T['terms']; tix = {n:i for i,n in enumerate(names)}
ACC = T['accept'][0]
def gotoc(s, nt):
    d, m = GOTO.get(nt, (0, {}))
    return m.get(s, d if d is not None else 0)
W=9   # bits for states/actions (signed actions: use separate kind+arg)
def bv(v,w=W): return BitVecVal(v,w)
def lut(key, entries, default, w):
    # entries: dict int->int ; key bitvec ; returns bitvec w
    # group by value to shrink
    byval={}
    for k,v in entries.items(): byval.setdefault(v,[]).append(k)
    e = BitVecVal(default,w)
    for v,ks in byval.items():
        e = If(Or([key==BitVecVal(k,key.size()) for k in ks]), BitVecVal(v,w), e)
    return e
# action decoded: kind (0 err,1 shift,2 reduce), arg
def act_entries():
    kind={}; arg={}
    for i,v in enumerate(ACT):
        s,t=divmod(i,NT)
        if t==NT-1: continue  # error column
        if v>0: kind[(s<<6)|t]=1; arg[(s<<6)|t]=v-1
        elif v<0: kind[(s<<6)|t]=2; arg[(s<<6)|t]=-(v+1)
    return kind,arg
AK,AA=act_entries()
EK={s:(2) for s,v in enumerate(EOFA) if v<0}; EA={s:-(v+1) for s,v in enumerate(EOFA) if v<0}
REDPOP={r:p for r,(p,n) in RED.items()}; REDNT={r:n for r,(p,n) in RED.items()}
GT={}
for nt in GOTO:
    for st in range(NS):
        g=gotoc(st,nt)
        if g: GT[(st<<7)|nt]=g
def sym(N,K,D):
    s=SolverFor('QF_BV')
    toks=[BitVec('t%d'%i,6) for i in range(N)]
    for t in toks: s.add(ULT(t,BitVecVal(NT-1,6)))
    n=BitVec('n',5); s.add(ULE(n,N))
    stack=[bv(0)]+[bv(0) for _ in range(D-1)]
    sp=BitVecVal(1,6); pos=BitVecVal(0,5); done=BoolVal(False); acc=BoolVal(False); ovf=BoolVal(False)
    def sel(stack, idx):
        e=bv(0)
        for d in range(D): e=If(idx==d, stack[d], e)
        return e
    for k in range(K):
        top=sel(stack, sp-1)
        tok=BitVecVal(0,6)
        for i,t in enumerate(toks): tok=If(pos==i,t,tok)
        ateof = pos==n
        key=Concat(top, tok)  # W+6 bits: top<<6|tok
        kind=If(ateof, lut(top,EK,0,2), lut(key,AK,0,2))
        arg=If(ateof, lut(top,EA,0,W), lut(key,AA,0,W))
        isshift = kind==1; isred = kind==2; iserr = kind==0
        isacc = And(isred, arg==ACC)
        pop=lut(arg,REDPOP,0,6); nt=lut(arg,REDNT,0,7)
        sp_r=sp-pop
        under=sel(stack, sp_r-1)
        g=lut(Concat(under, nt), GT, 0, W)
        halt=Or(iserr,isacc,done)
        newval=If(isshift,arg,g); widx=If(isshift,sp,sp_r)
        nstack=[If(And(Not(halt), widx==d), newval, stack[d]) for d in range(D)]
        ovf=Or(ovf, And(Not(halt), UGE(widx, D)))
        nsp=If(halt,sp,widx+1)
        npos=If(And(Not(halt),isshift),pos+1,pos)
        acc=Or(acc, And(Not(done), isacc))
        done=Or(done, iserr, isacc)
        # introduce fresh vars to keep terms small
        fs=[BitVec('s%d_%d'%(k,d),W) for d in range(D)]
        for d in range(D): s.add(fs[d]==nstack[d])
        fsp=BitVec('sp%d'%k,6); fpos=BitVec('pos%d'%k,5); fdone=Bool('done%d'%k); facc=Bool('acc%d'%k); fovf=Bool('ovf%d'%k)
        s.add(fsp==nsp,fpos==npos,fdone==done,facc==acc,fovf==ovf)
        stack,sp,pos,done,acc,ovf=fs,fsp,fpos,fdone,facc,fovf
    return s,toks,n,done,acc,ovf
N=int(sys.argv[1]);K=int(sys.argv[2]);D=int(sys.argv[3])
t0=time.time(); s,toks,n,done,acc,ovf=sym(N,K,D); print('built',time.time()-t0, flush=True)
def q(name,*cs):
    t0=time.time(); s.push(); s.add(*cs); r=s.check(); print(name,r,round(time.time()-t0,1),flush=True)
    if r==sat:
        m=s.model(); nn=m.eval(n).as_long(); print('  ',[names[m.eval(t,True).as_long()] for t in toks[:nn]])
    s.pop()
q('accept len N', done, acc, n==N)
q('bound insufficient', Or(Not(done), ovf))
q('accepted with RESERVED', done, acc, Or([And(ULT(BitVecVal(i,5),n), toks[i]==tix['RESERVED_KEYWORD']) for i in range(N)]))
