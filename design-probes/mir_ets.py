import re, sys
from z3 import *
mir = open('/tmp/probe/mir.txt').read()
i = mir.index('\nfn expected_token_str(_1: &[String]) -> String {')
j = mir.index('\n}\n', i)
fn = mir[i:j]
blocks = {}
for m in re.finditer(r'\n    (bb\d+)(?: \(cleanup\))?: \{\n(.*?)\n    \}', fn, re.S):
    blocks[m.group(1)] = [l.strip() for l in m.group(2).split('\n')]
n = Int('n'); 
def decode_template(lit):
    # rust byte-string literal -> bytes
    b = eval('b"' + lit + '"')
    pieces = []; k = 0
    while k < len(b):
        c = b[k]
        if c == 0: break
        if c == 0xc0: pieces.append(('arg',)); k += 1
        elif c < 0x80: pieces.append(('lit', b[k+1:k+1+c].decode())); k += 1 + c
        else: raise Exception('template byte %x' % c)
    return pieces
results = []
def run(bb, env, pc):
    for st in blocks[bb]:
        st = st.rstrip(';')
        m = re.match(r'(_\d+) = PtrMetadata\(copy _1\)$', st)
        if m: env[m.group(1)] = n; continue
        m = re.match(r'switchInt\(copy (_\d+)\) -> \[(.*), otherwise: (bb\d+)\]$', st)
        if m:
            v = env[m.group(1)]; others = []
            for c, t in re.findall(r'(\d+): (bb\d+)', m.group(2)):
                run(t, dict(env), pc + [v == int(c)]); others.append(v != int(c))
            run(m.group(3), dict(env), pc + others); return
        m = re.match(r'(_\d+) = const (\d+)_usize$', st)
        if m: env[m.group(1)] = IntVal(int(m.group(2))); continue
        m = re.match(r'(_\d+) = SubWithOverflow\(copy (_\d+), const (\d+)_usize\)$', st)
        if m: env[m.group(1)] = ('ovf', env[m.group(2)] - int(m.group(3)), env[m.group(2)] < int(m.group(3))); continue
        m = re.match(r'assert\(!move \((_\d+)\.1: bool\), .*\) -> \[success: (bb\d+), unwind.*\]$', st)
        if m: run(m.group(2), env, pc + [Not(env[m.group(1)][2])]); return
        m = re.match(r'(_\d+) = move \((_\d+)\.0: usize\)$', st)
        if m: env[m.group(1)] = env[m.group(2)][1]; continue
        m = re.match(r'(_\d+) = Lt\(copy (_\d+), copy (_\d+)\)$', st)
        if m: env[m.group(1)] = env[m.group(2)] < env[m.group(3)]; continue
        m = re.match(r'assert\(move (_\d+), "index out of bounds.*\) -> \[success: (bb\d+), unwind.*\]$', st)
        if m: run(m.group(2), env, pc + [env[m.group(1)]]); return
        m = re.match(r'(_\d+) = &\(\*_1\)\[(_\d+)\]$', st)
        if m: env[m.group(1)] = ('elem', env[m.group(2)]); continue
        m = re.match(r'(_\d+) = std::ops::Range::<usize> \{ start: (.*), end: (.*) \}$', st)
        if m:
            def opnd(x):
                x = x.strip(); mm = re.match(r'const (\d+)_usize', x)
                return IntVal(int(mm.group(1))) if mm else env[re.search(r'_\d+', x).group(0)]
            env[m.group(1)] = ('range', opnd(m.group(2)), opnd(m.group(3))); continue
        m = re.match(r'(_\d+) = <\[String\] as Index<std::ops::Range<usize>>>::index\(copy _1, move (_\d+)\) -> \[return: (bb\d+), .*\]$', st)
        if m:
            _, a, b = env[m.group(2)]
            env[m.group(1)] = ('slice', a, b); run(m.group(3), env, pc + [a <= b, b <= n]); return
        m = re.match(r'(_\d+) = const "(.*)"$', st)
        if m: env[m.group(1)] = ('str', m.group(2)); continue
        m = re.match(r'(_\d+) = std::slice::<impl \[String\]>::join::<&str>\(copy (_\d+), move (_\d+)\) -> \[return: (bb\d+), .*\]$', st)
        if m: env[m.group(1)] = ('join', env[m.group(2)], env[m.group(3)]); run(m.group(4), env, pc); return
        m = re.match(r'(_\d+) = &(_\d+)$', st)
        if m: env[m.group(1)] = env.get(m.group(2), ('ref', m.group(2))); continue
        m = re.match(r'(_\d+) = \((.*)\)$', st)
        if m and 'move' in st:
            env[m.group(1)] = ('tuple', [env[x] for x in re.findall(r'move (_\d+)', m.group(2))]); continue
        m = re.match(r'(_\d+) = no_retag copy \((_\d+)\.(\d+): .*\)$', st)
        if m: env[m.group(1)] = env[m.group(2)][1][int(m.group(3))]; continue
        m = re.match(r'(_\d+) = .*Argument::<\'_>::new_display::<.*>\(copy (_\d+)\) -> \[return: (bb\d+), .*\]$', st)
        if m: env[m.group(1)] = env[m.group(2)]; run(m.group(3), env, pc); return
        m = re.match(r'(_\d+) = \[(.*)\]$', st)
        if m: env[m.group(1)] = ('arr', [env[x] for x in re.findall(r'move (_\d+)', m.group(2))]); continue
        m = re.match(r'(_\d+) = const b"(.*)"$', st)
        if m: env[m.group(1)] = ('tmpl', decode_template(m.group(2))); continue
        m = re.match(r'(_\d+) = Arguments::<\'_>::new::<\d+, \d+>\(move (_\d+), copy (_\d+)\) -> \[return: (bb\d+), .*\]$', st)
        if m: env[m.group(1)] = ('args', env[m.group(2)][1], env[m.group(3)][1]); run(m.group(4), env, pc); return
        m = re.match(r'(_\d+) = format\(move (_\d+)\) -> \[return: (bb\d+), .*\]$', st)
        if m: env[m.group(1)] = ('fmt',) + env[m.group(2)][1:]; run(m.group(3), env, pc); return
        m = re.match(r'(_\d+) = must_use::<String>\(move (_\d+)\) -> \[return: (bb\d+), .*\]$', st)
        if m: env[m.group(1)] = env[m.group(2)]; run(m.group(3), env, pc); return
        m = re.match(r'_0 = String::new\(\) -> \[return: (bb\d+), .*\]$', st)
        if m: env['_0'] = ('fmt', [], []); run(m.group(1), env, pc); return
        m = re.match(r'drop\((_\d+)\) -> \[return: (bb\d+), .*\]$', st)
        if m: run(m.group(2), env, pc); return
        if st == 'return': results.append((pc, env['_0'])); return
        raise Exception('unsupported MIR statement: ' + st)
run('bb0', {}, [n >= 0])
i_ = Int('i')
for pc, out in results:
    _, tmpl, args = out
    mention = []
    for a in args:
        if a[0] == 'elem': mention.append(i_ == a[1])
        elif a[0] == 'join': mention.append(And(a[1][1] <= i_, i_ < a[1][2]))
        else: raise Exception(a)
    s = Solver(); s.add(*pc); s.add(0 <= i_, i_ < n, Not(Or(mention)) if mention else True)
    r = s.check()
    print('path', [str(c) for c in pc][1:3], 'template', tmpl, '-> unmentioned index:', r, (s.model() if r == sat else ''))
