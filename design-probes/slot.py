import sys, time, json
src = open('pda2.py').read().split("def sym(N,K,D):")[0]
exec(src)
from cyk import reference, to_cnf
def run_prefix(prefix):
    st=[0]
    for t in prefix:
        while True:
            a=ACT[st[-1]*NT+t]
            if a>0: st.append(a-1); break
            elif a<0:
                r=-(a+1); pop,nt=RED[r]
                if pop: del st[-pop:]
                st.append(gotoc(st[-1],nt))
            else: raise Exception('prefix rejected')
    return st
def build(prefix, L, suffix, KK, Dx):
    s=SolverFor('QF_BV')
    st0=run_prefix(prefix)
    wv=[BitVec('w%d'%i,6) for i in range(L)]
    for t in wv: s.add(ULT(t,BitVecVal(NT-1,6)))
    toks=[BitVecVal(t,6) for t in prefix]+wv+[BitVecVal(t,6) for t in suffix]
    rest=wv+[BitVecVal(t,6) for t in suffix]   # tokens still to consume
    n=len(rest)
    D=len(st0)+Dx
    stack=[bv(x) for x in st0]+[bv(0)]*(D-len(st0))
    sp=BitVecVal(len(st0),6); pos=BitVecVal(0,5); done=BoolVal(False); acc=BoolVal(False); ovf=BoolVal(False)
    def sel(stack, idx):
        e=bv(0)
        for d in range(D): e=If(idx==d, stack[d], e)
        return e
    for k in range(KK):
        top=sel(stack, sp-1)
        tok=BitVecVal(0,6)
        for i,t in enumerate(rest): tok=If(pos==i,t,tok)
        ateof = pos==n
        key=Concat(top, tok)
        kind=If(ateof, lut(top,EK,0,2), lut(key,AK,0,2)); arg=If(ateof, lut(top,EA,0,W), lut(key,AA,0,W))
        isshift = kind==1; isred = kind==2; iserr = kind==0
        isacc = And(isred, arg==ACC)
        pop=lut(arg,REDPOP,0,6); nt=lut(arg,REDNT,0,7)
        sp_r=sp-pop; under=sel(stack, sp_r-1)
        g=lut(Concat(under, nt), GT, 0, W)
        halt=Or(iserr,isacc,done)
        newval=If(isshift,arg,g); widx=If(isshift,sp,sp_r)
        nstack=[simplify(If(And(Not(halt), widx==d), newval, stack[d])) for d in range(D)]
        ovf=Or(ovf, And(Not(halt), UGE(widx, D)))
        nsp=If(halt,sp,widx+1); npos=If(And(Not(halt),isshift),pos+1,pos)
        acc=Or(acc, And(Not(done), isacc)); done=Or(done, iserr, isacc)
        fs=[BitVec('s%d_%d'%(k,d),W) for d in range(D)]
        for d in range(D): s.add(fs[d]==nstack[d])
        fsp=BitVec('sp%d'%k,6); fpos=BitVec('pos%d'%k,5); fdone=Bool('done%d'%k); facc=Bool('acc%d'%k); fovf=Bool('ovf%d'%k)
        s.add(fsp==simplify(nsp),fpos==simplify(npos),fdone==simplify(done),facc==simplify(acc),fovf==simplify(ovf))
        stack,sp,pos,done,acc,ovf=fs,fsp,fpos,fdone,facc,fovf
    return s,toks,wv,done,acc,ovf
_cnf=None
def cyk(solver, toks, start='Aidl'):
    global _cnf
    if _cnf is None:
        g=reference(); _cnf=to_cnf(g,start,set(tix))
    term_rules, bin_rules, _ = _cnf
    terminals=set(tix); N=len(toks); Dm={}
    def teq(i,X):
        t=toks[i]
        return simplify(t==BitVecVal(tix[X],6))
    def d(X,i,j):
        key=(X,i,j)
        if key in Dm: return Dm[key]
        if X in terminals:
            v=teq(i,X) if j==i+1 else BoolVal(False); Dm[key]=v; return v
        alts=[]
        if j==i+1:
            for a in term_rules.get(X,()):
                e=teq(i,a)
                if not is_false(e): alts.append(e)
        else:
            for (B,C) in bin_rules.get(X,()):
                for k in range(i+1,j):
                    l=d(B,i,k)
                    if is_false(l): continue
                    r=d(C,k,j)
                    if is_false(r): continue
                    alts.append(And(l,r))
        if not alts: Dm[key]=BoolVal(False); return Dm[key]
        if any(is_true(a) for a in alts): Dm[key]=BoolVal(True); return Dm[key]
        v=Bool('d_%s_%d_%d'%(X,i,j)); solver.add(v==Or(alts)); Dm[key]=v; return v
    return d(start,0,N)
S=lambda *xs:[tix[x] for x in xs]
frames={'iface_body':(S('PACKAGE','IDENT','";"','INTERFACE','IDENT','"{"'), S('"}"')),
        'parc_body':(S('PACKAGE','IDENT','";"','PARCELABLE','IDENT','"{"'), S('"}"')),
        'enum_body':(S('PACKAGE','IDENT','";"','ENUM','IDENT','"{"'), S('"}"')),
        'args':(S('PACKAGE','IDENT','";"','INTERFACE','IDENT','"{"','VOID','IDENT','"("'), S('")"','";"','"}"'))}
fr=sys.argv[1]; Lmax=int(sys.argv[2])
prefix,suffix=frames[fr]
for L in range(0,Lmax+1):
    t0=time.time(); s,toks,wv,done,acc,ovf=build(prefix,L,suffix,8*(L+len(suffix))+10,L+8)
    ref=cyk(s,toks); tb=time.time()-t0
    t0=time.time(); s.push(); s.add(Or(Not(done),ovf)); rb=s.check(); s.pop()
    s.push(); s.add(done, Not(ovf), acc!=ref); r=s.check(); tq=time.time()-t0
    print(fr,'window',L,'build',round(tb,1),'bound-insufficient:',rb,'disagreement:',r,'solve',round(tq,1),flush=True)
    if r==sat:
        m=s.model(); print('   ',' '.join(names[m.eval(t,True).as_long()] for t in toks),'pda',m.eval(acc),'ref',m.eval(ref))
    s.pop()
    s.push(); s.add(done,acc,ref)
    if s.check()==sat:
        m=s.model(); print('    witness:',' '.join(names[m.eval(t,True).as_long()] for t in wv),flush=True)
    s.pop()
