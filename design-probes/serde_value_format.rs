//! Minimal self-describing in-memory serde format.
use serde::de::{self, DeserializeSeed, EnumAccess, IntoDeserializer, MapAccess, SeqAccess, VariantAccess, Visitor};
use serde::ser::{self, Serialize};
use std::fmt;

#[derive(Debug, Clone, PartialEq)]
pub enum Value {
    Bool(bool), U64(u64), I64(i64), Str(String), Unit, None, Some(Box<Value>),
    Seq(Vec<Value>), Map(Vec<(Value, Value)>), Struct(Vec<(&'static str, Value)>),
    Variant(&'static str, Box<Value>),   // unit variant => Unit, newtype => inner, tuple => Seq
}

#[derive(Debug)]
pub struct Error;
impl fmt::Display for Error { fn fmt(&self, _f: &mut fmt::Formatter) -> fmt::Result { Ok(()) } }
impl std::error::Error for Error {}
impl ser::Error for Error { fn custom<T: fmt::Display>(_m: T) -> Self { Error } }
impl de::Error for Error { fn custom<T: fmt::Display>(_m: T) -> Self { Error } }

pub struct Ser;
pub struct SeqSer { items: Vec<Value>, variant: Option<&'static str> }
pub struct MapSer { items: Vec<(Value, Value)>, key: Option<Value> }
pub struct StructSer { items: Vec<(&'static str, Value)>, variant: Option<&'static str> }

impl ser::Serializer for Ser {
    type Ok = Value; type Error = Error;
    type SerializeSeq = SeqSer; type SerializeTuple = SeqSer; type SerializeTupleStruct = SeqSer; type SerializeTupleVariant = SeqSer;
    type SerializeMap = MapSer; type SerializeStruct = StructSer; type SerializeStructVariant = StructSer;
    fn serialize_bool(self, v: bool) -> Result<Value, Error> { Ok(Value::Bool(v)) }
    fn serialize_i8(self, v: i8) -> Result<Value, Error> { Ok(Value::I64(v as i64)) }
    fn serialize_i16(self, v: i16) -> Result<Value, Error> { Ok(Value::I64(v as i64)) }
    fn serialize_i32(self, v: i32) -> Result<Value, Error> { Ok(Value::I64(v as i64)) }
    fn serialize_i64(self, v: i64) -> Result<Value, Error> { Ok(Value::I64(v)) }
    fn serialize_u8(self, v: u8) -> Result<Value, Error> { Ok(Value::U64(v as u64)) }
    fn serialize_u16(self, v: u16) -> Result<Value, Error> { Ok(Value::U64(v as u64)) }
    fn serialize_u32(self, v: u32) -> Result<Value, Error> { Ok(Value::U64(v as u64)) }
    fn serialize_u64(self, v: u64) -> Result<Value, Error> { Ok(Value::U64(v)) }
    fn serialize_f32(self, _v: f32) -> Result<Value, Error> { Err(Error) }
    fn serialize_f64(self, _v: f64) -> Result<Value, Error> { Err(Error) }
    fn serialize_char(self, _v: char) -> Result<Value, Error> { Err(Error) }
    fn serialize_str(self, v: &str) -> Result<Value, Error> { Ok(Value::Str(v.to_owned())) }
    fn serialize_bytes(self, _v: &[u8]) -> Result<Value, Error> { Err(Error) }
    fn serialize_none(self) -> Result<Value, Error> { Ok(Value::None) }
    fn serialize_some<T: ?Sized + Serialize>(self, v: &T) -> Result<Value, Error> { Ok(Value::Some(Box::new(v.serialize(Ser)?))) }
    fn serialize_unit(self) -> Result<Value, Error> { Ok(Value::Unit) }
    fn serialize_unit_struct(self, _n: &'static str) -> Result<Value, Error> { Ok(Value::Unit) }
    fn serialize_unit_variant(self, _n: &'static str, _i: u32, variant: &'static str) -> Result<Value, Error> { Ok(Value::Variant(variant, Box::new(Value::Unit))) }
    fn serialize_newtype_struct<T: ?Sized + Serialize>(self, _n: &'static str, v: &T) -> Result<Value, Error> { v.serialize(Ser) }
    fn serialize_newtype_variant<T: ?Sized + Serialize>(self, _n: &'static str, _i: u32, variant: &'static str, v: &T) -> Result<Value, Error> { Ok(Value::Variant(variant, Box::new(v.serialize(Ser)?))) }
    fn serialize_seq(self, _len: Option<usize>) -> Result<SeqSer, Error> { Ok(SeqSer { items: Vec::new(), variant: None }) }
    fn serialize_tuple(self, _len: usize) -> Result<SeqSer, Error> { Ok(SeqSer { items: Vec::new(), variant: None }) }
    fn serialize_tuple_struct(self, _n: &'static str, _len: usize) -> Result<SeqSer, Error> { Ok(SeqSer { items: Vec::new(), variant: None }) }
    fn serialize_tuple_variant(self, _n: &'static str, _i: u32, variant: &'static str, _len: usize) -> Result<SeqSer, Error> { Ok(SeqSer { items: Vec::new(), variant: Some(variant) }) }
    fn serialize_map(self, _len: Option<usize>) -> Result<MapSer, Error> { Ok(MapSer { items: Vec::new(), key: None }) }
    fn serialize_struct(self, _n: &'static str, _len: usize) -> Result<StructSer, Error> { Ok(StructSer { items: Vec::new(), variant: None }) }
    fn serialize_struct_variant(self, _n: &'static str, _i: u32, variant: &'static str, _len: usize) -> Result<StructSer, Error> { Ok(StructSer { items: Vec::new(), variant: Some(variant) }) }
}
impl SeqSer { fn finish(self) -> Value { match self.variant { None => Value::Seq(self.items), Some(v) => Value::Variant(v, Box::new(Value::Seq(self.items))) } } }
impl ser::SerializeSeq for SeqSer { type Ok = Value; type Error = Error;
    fn serialize_element<T: ?Sized + Serialize>(&mut self, v: &T) -> Result<(), Error> { self.items.push(v.serialize(Ser)?); Ok(()) }
    fn end(self) -> Result<Value, Error> { Ok(self.finish()) } }
impl ser::SerializeTuple for SeqSer { type Ok = Value; type Error = Error;
    fn serialize_element<T: ?Sized + Serialize>(&mut self, v: &T) -> Result<(), Error> { self.items.push(v.serialize(Ser)?); Ok(()) }
    fn end(self) -> Result<Value, Error> { Ok(self.finish()) } }
impl ser::SerializeTupleStruct for SeqSer { type Ok = Value; type Error = Error;
    fn serialize_field<T: ?Sized + Serialize>(&mut self, v: &T) -> Result<(), Error> { self.items.push(v.serialize(Ser)?); Ok(()) }
    fn end(self) -> Result<Value, Error> { Ok(self.finish()) } }
impl ser::SerializeTupleVariant for SeqSer { type Ok = Value; type Error = Error;
    fn serialize_field<T: ?Sized + Serialize>(&mut self, v: &T) -> Result<(), Error> { self.items.push(v.serialize(Ser)?); Ok(()) }
    fn end(self) -> Result<Value, Error> { Ok(self.finish()) } }
impl ser::SerializeMap for MapSer { type Ok = Value; type Error = Error;
    fn serialize_key<T: ?Sized + Serialize>(&mut self, k: &T) -> Result<(), Error> { self.key = Some(k.serialize(Ser)?); Ok(()) }
    fn serialize_value<T: ?Sized + Serialize>(&mut self, v: &T) -> Result<(), Error> { let k = self.key.take().ok_or(Error)?; self.items.push((k, v.serialize(Ser)?)); Ok(()) }
    fn end(self) -> Result<Value, Error> { Ok(Value::Map(self.items)) } }
impl ser::SerializeStruct for StructSer { type Ok = Value; type Error = Error;
    fn serialize_field<T: ?Sized + Serialize>(&mut self, k: &'static str, v: &T) -> Result<(), Error> { self.items.push((k, v.serialize(Ser)?)); Ok(()) }
    fn end(self) -> Result<Value, Error> { Ok(match self.variant { None => Value::Struct(self.items), Some(v) => Value::Variant(v, Box::new(Value::Struct(self.items))) }) } }
impl ser::SerializeStructVariant for StructSer { type Ok = Value; type Error = Error;
    fn serialize_field<T: ?Sized + Serialize>(&mut self, k: &'static str, v: &T) -> Result<(), Error> { self.items.push((k, v.serialize(Ser)?)); Ok(()) }
    fn end(self) -> Result<Value, Error> { Ok(match self.variant { None => Value::Struct(self.items), Some(v) => Value::Variant(v, Box::new(Value::Struct(self.items))) }) } }

pub struct De(pub Value);
impl<'de> de::Deserializer<'de> for De {
    type Error = Error;
    fn deserialize_any<V: Visitor<'de>>(self, v: V) -> Result<V::Value, Error> {
        match self.0 {
            Value::Bool(b) => v.visit_bool(b), Value::U64(n) => v.visit_u64(n), Value::I64(n) => v.visit_i64(n), Value::Str(s) => v.visit_string(s),
            Value::Unit => v.visit_unit(), Value::None => v.visit_none(), Value::Some(b) => v.visit_some(De(*b)),
            Value::Seq(items) => v.visit_seq(SeqDe { it: items.into_iter() }),
            Value::Map(items) => v.visit_map(MapDe { it: items.into_iter(), val: None }),
            Value::Struct(items) => v.visit_map(StructDe { it: items.into_iter(), val: None }),
            Value::Variant(name, inner) => v.visit_enum(EnumDe { name, inner: *inner }),
        }
    }
    fn deserialize_option<V: Visitor<'de>>(self, v: V) -> Result<V::Value, Error> {
        match self.0 { Value::None => v.visit_none(), Value::Some(b) => v.visit_some(De(*b)), other => v.visit_some(De(other)) }
    }
    fn deserialize_enum<V: Visitor<'de>>(self, _n: &'static str, _vs: &'static [&'static str], v: V) -> Result<V::Value, Error> {
        match self.0 { Value::Variant(name, inner) => v.visit_enum(EnumDe { name, inner: *inner }), _ => Err(Error) }
    }
    fn deserialize_newtype_struct<V: Visitor<'de>>(self, _n: &'static str, v: V) -> Result<V::Value, Error> { v.visit_newtype_struct(self) }
    serde::forward_to_deserialize_any! { bool i8 i16 i32 i64 u8 u16 u32 u64 f32 f64 char str string bytes byte_buf unit unit_struct seq tuple tuple_struct map struct identifier ignored_any }
}
struct SeqDe { it: std::vec::IntoIter<Value> }
impl<'de> SeqAccess<'de> for SeqDe { type Error = Error;
    fn next_element_seed<T: DeserializeSeed<'de>>(&mut self, seed: T) -> Result<Option<T::Value>, Error> { match self.it.next() { Some(v) => seed.deserialize(De(v)).map(Some), None => Ok(None) } } }
struct MapDe { it: std::vec::IntoIter<(Value, Value)>, val: Option<Value> }
impl<'de> MapAccess<'de> for MapDe { type Error = Error;
    fn next_key_seed<K: DeserializeSeed<'de>>(&mut self, seed: K) -> Result<Option<K::Value>, Error> { match self.it.next() { Some((k, v)) => { self.val = Some(v); seed.deserialize(De(k)).map(Some) } None => Ok(None) } }
    fn next_value_seed<V: DeserializeSeed<'de>>(&mut self, seed: V) -> Result<V::Value, Error> { seed.deserialize(De(self.val.take().ok_or(Error)?)) } }
struct StructDe { it: std::vec::IntoIter<(&'static str, Value)>, val: Option<Value> }
impl<'de> MapAccess<'de> for StructDe { type Error = Error;
    fn next_key_seed<K: DeserializeSeed<'de>>(&mut self, seed: K) -> Result<Option<K::Value>, Error> {
        match self.it.next() { Some((k, v)) => { self.val = Some(v); let d: de::value::BorrowedStrDeserializer<'de, Error> = de::value::BorrowedStrDeserializer::new(k); seed.deserialize(d).map(Some) } None => Ok(None) } }
    fn next_value_seed<V: DeserializeSeed<'de>>(&mut self, seed: V) -> Result<V::Value, Error> { seed.deserialize(De(self.val.take().ok_or(Error)?)) } }
struct EnumDe { name: &'static str, inner: Value }
impl<'de> EnumAccess<'de> for EnumDe { type Error = Error; type Variant = VarDe;
    fn variant_seed<V: DeserializeSeed<'de>>(self, seed: V) -> Result<(V::Value, VarDe), Error> {
        let d: de::value::BorrowedStrDeserializer<'de, Error> = de::value::BorrowedStrDeserializer::new(self.name);
        Ok((seed.deserialize(d)?, VarDe(self.inner))) } }
struct VarDe(Value);
impl<'de> VariantAccess<'de> for VarDe { type Error = Error;
    fn unit_variant(self) -> Result<(), Error> { Ok(()) }
    fn newtype_variant_seed<T: DeserializeSeed<'de>>(self, seed: T) -> Result<T::Value, Error> { seed.deserialize(De(self.0)) }
    fn tuple_variant<V: Visitor<'de>>(self, _len: usize, v: V) -> Result<V::Value, Error> { de::Deserializer::deserialize_any(De(self.0), v) }
    fn struct_variant<V: Visitor<'de>>(self, _f: &'static [&'static str], v: V) -> Result<V::Value, Error> { de::Deserializer::deserialize_any(De(self.0), v) } }

pub fn roundtrip<T: Serialize + for<'de> serde::Deserialize<'de>>(x: &T) -> Result<T, Error> { T::deserialize(De(x.serialize(Ser)?)) }

#[cfg(test)]
mod t {
    use super::*;
    #[test]
    fn native_rt() {
        let mut p = aidl_parser::Parser::new();
        p.add_content(0u32, "package p; import q.E; oneway interface I { /** d */ oneway void f(in Map<String, int[]> a, E e) = 3; void g(); const int X = 1; }");
        p.add_content(1u32, "package q; enum E { A = 1, B }");
        p.add_content(2u32, "package r; @A(x=1) parcelable P { @B List<String> l = {}; IBinder b; }");
        for (id, r) in p.validate() {
            let a = r.ast.unwrap();
            let b = roundtrip(&a).unwrap();
            println!("{} equal {}", id, a == b);
        }
    }
}

#[cfg(kani)]
mod proofs {
    use super::*;
    use aidl_parser::ast;
    fn rng() -> ast::Range { ast::Range{ start: ast::Position{offset:0,line_col:(1,1)}, end: ast::Position{offset:0,line_col:(1,1)} } }
    #[kani::proof]
    #[kani::unwind(12)]
    fn rt_enum_element() {
        let has_v: bool = kani::any(); let has_d: bool = kani::any();
        let e = ast::EnumElement{ name: "A".to_owned(), value: if has_v { Some("1".to_owned()) } else { None }, doc: if has_d { Some("d".to_owned()) } else { None }, symbol_range: rng(), full_range: rng() };
        let r = roundtrip(&e);
        let ok = match &r { Ok(b) => b.value.is_some() == has_v && b.doc.is_some() == has_d && b.name.len() == 1, Err(_) => false };
        std::mem::forget(r); std::mem::forget(e);
        assert!(ok);
    }
}
