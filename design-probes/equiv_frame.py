import sys, time
src = open('pda2.py').read().split("N=int(sys.argv[1]);K=int(sys.argv[2]);D=int(sys.argv[3])")[0]
exec(src)
N=int(sys.argv[1]); KK=int(sys.argv[2]); Dp=int(sys.argv[3])
from cyk import cyk_formula
t0=time.time(); s,toks,n,done,acc,ovf = sym(N,KK,Dp); print('pda built', round(time.time()-t0,1), flush=True)
ref = cyk_formula(s, toks, N, tix)
pre = ['PACKAGE','IDENT','";"','INTERFACE','IDENT','"{"']
for i,x in enumerate(pre): s.add(toks[i]==tix[x])
for L in range(len(pre)+1, N+1):
    t0=time.time(); s.push(); s.add(n==L, toks[L-1]==tix['"}"'], done, Not(ovf), acc != ref[L]); r=s.check()
    print('frame interface, len',L,'window',L-7,'disagreement:',r, round(time.time()-t0,1), flush=True)
    if r==sat:
        m=s.model(); print('   ', [names[m.eval(t,True).as_long()] for t in toks[:L]], 'pda', m.eval(acc), 'ref', m.eval(ref[L]))
    s.pop()
    t0=time.time(); s.push(); s.add(n==L, toks[L-1]==tix['"}"'], done, acc, ref[L]); r=s.check()
    if r==sat:
        m=s.model(); print('    witness accepted:', ' '.join(names[m.eval(t,True).as_long()] for t in toks[:L]), round(time.time()-t0,1), flush=True)
    s.pop()
t0=time.time(); s.push(); s.add(Or(Not(done), ovf)); print('bound insufficient', s.check(), round(time.time()-t0,1)); s.pop()
