"""Engine L prototype: read the generated __intern_token table, build z3 regexes, ask the two whole-token questions."""
import re, sys, time
from z3 import *
src = open(sys.argv[1]).read()
i = src.index('mod __intern_token {'); j = src.index('__lalrpop_util::lexer::MatcherBuilder::new', i)
body = src[i:j]
entries = re.findall(r'\("((?:[^"\\]|\\.)*)", (true|false)\),', body)
def rust_unescape(s):
    out = []; k = 0
    while k < len(s):
        c = s[k]
        if c == '\\':
            n = s[k+1]
            if n == 'u':
                e = s.index('}', k); out.append(chr(int(s[k+3:e], 16))); k = e + 1; continue
            out.append({'n': '\n', 'r': '\r', 't': '\t', '0': '\0', '\\': '\\', '"': '"', "'": "'"}[n]); k += 2
        else: out.append(c); k += 1
    return ''.join(out)
pats = [(rust_unescape(p), skip == 'true') for p, skip in entries]
print(len(pats), 'patterns')
MAXC = 0x2FFFF
def ch(c): return min(ord(c), MAXC)
class P:
    def __init__(self, s): self.s = s; self.k = 0
    def peek(self): return self.s[self.k] if self.k < len(self.s) else None
    def eat(self): c = self.s[self.k]; self.k += 1; return c
    def alt(self):
        xs = [self.cat()]
        while self.peek() == '|': self.eat(); xs.append(self.cat())
        return xs[0] if len(xs) == 1 else Union(*xs)
    def cat(self):
        xs = []
        while self.peek() is not None and self.peek() not in '|)':
            xs.append(self.rep())
        if not xs: return Re('')
        return xs[0] if len(xs) == 1 else Concat(*xs)
    def rep(self):
        a = self.atom()
        while self.peek() in ('*', '+', '?'):
            q = self.eat(); a = Star(a) if q == '*' else Plus(a) if q == '+' else Option(a)
        return a
    def esc(self):
        c = self.eat()
        return c
    def atom(self):
        c = self.eat()
        if c == '(':
            if self.s.startswith('?:', self.k): self.k += 2
            a = self.alt(); assert self.eat() == ')'; return a
        if c == '[':
            rs = []
            while self.peek() != ']':
                lo = self.eat()
                if lo == '\\': lo = self.esc()
                if self.peek() == '-' and self.s[self.k+1] != ']':
                    self.eat(); hi = self.eat()
                    if hi == '\\': hi = self.esc()
                else: hi = lo
                if ch(lo) <= MAXC: rs.append(Range(chr(ch(lo)), chr(min(ord(hi), MAXC))))
            self.eat()
            return rs[0] if len(rs) == 1 else Union(*rs)
        if c == '\\': return Re(self.esc())
        if c == '^': return Re('')
        return Re(c)
res = []
for p, skip in pats:
    try: res.append(P(p).alt())
    except Exception as e: print('parse fail', repr(p[:40]), e); res.append(None)
# identify IDENT by sample membership
def member(r, w):
    s = Solver(); s.add(InRe(StringVal(w), r)); return s.check() == sat
ident = [k for k, r in enumerate(res) if r is not None and member(r, 'foo_1') and not member(r, '1')]
print('IDENT pattern index', ident)
ID = ident[0]
REF_KEYWORDS = ['package', 'import', 'interface', 'parcelable', 'enum', 'oneway', 'const', 'in', 'out', 'inout', 'void', 'byte', 'short', 'int', 'long', 'float', 'double',
                'boolean', 'char', 'String', 'CharSequence', 'List', 'Map', 'true', 'false']
REF_RESERVED = 'break case catch char class continue default do double else enum false float for goto if int long new private protected public return short static switch this throw true try void volatile while'.split()
w = String('w')
higher = [res[k] for k in range(ID + 1, len(res)) if res[k] is not None and not pats[k][1]]
t0 = time.time(); s = Solver()
s.add(Or([w == StringVal(k) for k in set(REF_KEYWORDS + REF_RESERVED)]), InRe(w, res[ID]), And([Not(InRe(w, r)) for r in higher]))
r1 = s.check(); print('(1) keyword wins as IDENT:', r1, (s.model()[w] if r1 == sat else ''), round(time.time() - t0, 2))
t0 = time.time(); s = Solver()
s.add(And([w != StringVal(k) for k in set(REF_KEYWORDS + REF_RESERVED)]), InRe(w, res[ID]), Or([InRe(w, r) for r in higher]))
r2 = s.check(); print('(2) non-keyword identifier loses to a higher-priority pattern:', r2, (s.model()[w] if r2 == sat else ''), round(time.time() - t0, 2))
