use aidl_parser::Parser;
use aidl_parser::ast;
use std::io::BufRead;
// reads lines "kind|prefix|window|suffix"; prints member names and syntax error offsets relative to window
fn main() {
    std::panic::set_hook(Box::new(|_| {}));
    let stdin = std::io::stdin();
    for line in stdin.lock().lines() {
        let line = line.unwrap();
        let parts: Vec<&str> = line.split('|').collect();
        let (pre, win, suf) = (parts[1], parts[2], parts[3]);
        let text = format!("{} {} {}", pre, win, suf);
        let wstart = pre.len() + 1; let wend = wstart + win.len();
        let t2 = text.clone();
        let r = std::panic::catch_unwind(move || { let mut p = Parser::new(); p.add_content(0u32, &t2); p.validate().remove(&0).unwrap() });
        match r {
            Err(_) => println!("PANIC"),
            Ok(r) => {
                let names: Vec<String> = match r.ast.as_ref().map(|a| &a.item) {
                    Some(ast::Item::Interface(i)) => i.elements.iter().map(|e| e.get_name().to_owned()).collect(),
                    Some(ast::Item::Parcelable(p)) => p.elements.iter().map(|e| e.get_name().to_owned()).collect(),
                    Some(ast::Item::Enum(e)) => e.elements.iter().map(|e| e.name.clone()).collect(),
                    None => vec!["<noast>".to_owned()],
                };
                let mut nsyn = 0; let mut outside = 0;
                for d in &r.diagnostics {
                    let m = &d.message;
                    let syn = m.starts_with("Invalid item") || m.starts_with("Invalid interface element") || m.starts_with("Invalid parcelable element") || m.starts_with("Invalid enum element")
                        || m.starts_with("Unrecognized") || m.starts_with("Extra token") || m.starts_with("Invalid token");
                    if !syn { continue; }
                    nsyn += 1;
                    if d.range.start.offset < wstart || d.range.end.offset > wend { outside += 1; }
                }
                println!("{} nsyn={} outside={}", names.join(","), nsyn, outside);
            }
        }
    }
}
