import sys, time
sys.argv = [sys.argv[0]] + sys.argv[1:]
import importlib.util
src = open('pda2.py').read().split("N=int(sys.argv[1]);K=int(sys.argv[2]);D=int(sys.argv[3])")[0]
exec(src)
N=int(sys.argv[1]); KK=int(sys.argv[2]); Dp=int(sys.argv[3])
from cyk import cyk_formula
t0=time.time(); s,toks,n,done,acc,ovf = sym(N,KK,Dp); print('pda built', round(time.time()-t0,1), flush=True)
t0=time.time(); ref = cyk_formula(s, toks, N, tix); print('cyk built', round(time.time()-t0,1), flush=True)
for L in range(1, N+1):
    t0=time.time(); s.push(); s.add(n==L, done, Not(ovf), acc != ref[L]); r=s.check()
    print('len',L,'disagreement:',r, round(time.time()-t0,1), flush=True)
    if r==sat:
        m=s.model(); print('   ', [names[m.eval(t,True).as_long()] for t in toks[:L]], 'pda', m.eval(acc), 'ref', m.eval(ref[L]))
    s.pop()
t0=time.time(); s.push(); s.add(Or(Not(done), ovf)); print('bound insufficient', s.check(), round(time.time()-t0,1)); s.pop()
