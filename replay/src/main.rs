//! Native replay binary: runs scenarios against the real aidl-parser of /repo's current tree and prints JSON.
use aidl_parser::ast;
use aidl_parser::diagnostic::{Diagnostic, DiagnosticKind};
use aidl_parser::symbol::Symbol;
use aidl_parser::traverse::{self, SymbolFilter};
use aidl_parser::{ParseFileResult, Parser};
use std::collections::HashMap;
use std::fmt::Write as _;
use std::panic::{catch_unwind, AssertUnwindSafe};

fn esc(s: &str) -> String {
    let mut o = String::with_capacity(s.len() + 2);
    o.push('"');
    for c in s.chars() {
        match c {
            '"' => o.push_str("\\\""),
            '\\' => o.push_str("\\\\"),
            '\n' => o.push_str("\\n"),
            '\r' => o.push_str("\\r"),
            '\t' => o.push_str("\\t"),
            c if (c as u32) < 0x20 => { let _ = write!(o, "\\u{:04x}", c as u32); }
            c => o.push(c),
        }
    }
    o.push('"');
    o
}
fn opt(s: &Option<String>) -> String { match s { Some(s) => esc(s), None => "null".into() } }
fn range(r: &ast::Range) -> String {
    format!("[{},{},{},{},{},{}]", r.start.offset, r.end.offset, r.start.line_col.0, r.start.line_col.1, r.end.line_col.0, r.end.line_col.1)
}
fn diag(d: &Diagnostic) -> String {
    let rel: Vec<String> = d.related_infos.iter().map(|r| range(&r.range)).collect();
    let relm: Vec<String> = d.related_infos.iter().map(|r| esc(&r.message)).collect();
    format!("{{\"kind\":{},\"range\":{},\"message\":{},\"related\":[{}],\"context\":{},\"hint\":{},\"related_messages\":[{}]}}",
        esc(match d.kind { DiagnosticKind::Error => "Error", DiagnosticKind::Warning => "Warning" }), range(&d.range), esc(&d.message), rel.join(","),
        opt(&d.context_message), opt(&d.hint), relm.join(","))
}
fn diags(v: &[Diagnostic]) -> String { format!("[{}]", v.iter().map(diag).collect::<Vec<_>>().join(",")) }

fn kind_str(k: &ast::TypeKind) -> String {
    match k {
        ast::TypeKind::Primitive => "primitive".into(), ast::TypeKind::Void => "void".into(), ast::TypeKind::Array => "array".into(),
        ast::TypeKind::Map => "map".into(), ast::TypeKind::List => "list".into(), ast::TypeKind::String => "string".into(),
        ast::TypeKind::CharSequence => "char_sequence".into(),
        ast::TypeKind::AndroidType(a) => format!("android:{}", a.get_name()),
        ast::TypeKind::ResolvedItem(key, rk) => format!("resolved:{}:{:?}", key, rk),
        ast::TypeKind::Unresolved => "unresolved".into(),
    }
}
fn type_json(t: &ast::Type) -> String {
    format!("{{\"name\":{},\"kind\":{},\"sym\":{},\"full\":{},\"generic\":[{}]}}", esc(&t.name), esc(&kind_str(&t.kind)), range(&t.symbol_range), range(&t.full_range),
        t.generic_types.iter().map(type_json).collect::<Vec<_>>().join(","))
}
fn sym_tag(s: &Symbol) -> &'static str {
    match s { Symbol::Package(..) => "package", Symbol::Import(..) => "import", Symbol::Interface(..) => "interface", Symbol::Parcelable(..) => "parcelable",
        Symbol::Enum(..) => "enum", Symbol::Method(..) => "method", Symbol::Arg(..) => "arg", Symbol::Const(..) => "const", Symbol::Field(..) => "field",
        Symbol::EnumElement(..) => "enum_element", Symbol::Type(..) => "type" }
}
fn sym_json(s: &Symbol) -> String {
    let extra = match s { Symbol::Type(t) => format!(",\"type_kind\":{}", esc(&kind_str(&t.kind))), _ => String::new() };
    format!("{{\"tag\":{},\"name\":{},\"qname\":{},\"range\":{},\"full\":{}{}}}", esc(sym_tag(s)), opt(&s.get_name()), opt(&s.get_qualified_name()),
        range(s.get_range()), range(s.get_full_range()), extra)
}
fn symbols(a: &ast::Aidl, f: SymbolFilter) -> String {
    let mut v = Vec::new();
    traverse::walk_symbols(a, f, |s| v.push(sym_json(&s)));
    format!("[{}]", v.join(","))
}
fn arg_json(a: &ast::Arg) -> String {
    let (d, dr) = match &a.direction { ast::Direction::In(r) => ("in", range(r)), ast::Direction::Out(r) => ("out", range(r)), ast::Direction::InOut(r) => ("inout", range(r)), ast::Direction::Unspecified => ("", "null".into()) };
    format!("{{\"name\":{},\"direction\":{},\"direction_range\":{},\"type\":{},\"doc\":{},\"sym\":{},\"full\":{}}}", opt(&a.name), esc(d), dr, type_json(&a.arg_type), opt(&a.doc), range(&a.symbol_range), range(&a.full_range))
}
fn members(a: &ast::Aidl) -> String {
    let mut v = Vec::new();
    match &a.item {
        ast::Item::Interface(i) => for e in &i.elements { match e {
            ast::InterfaceElement::Method(m) => v.push(format!("{{\"tag\":\"method\",\"name\":{},\"oneway\":{},\"code\":{},\"doc\":{},\"ret\":{},\"args\":[{}],\"sym\":{},\"full\":{},\"code_range\":{},\"oneway_range\":{}}}",
                esc(&m.name), m.oneway, m.transact_code.map(|c| c.to_string()).unwrap_or("null".into()), opt(&m.doc), type_json(&m.return_type),
                m.args.iter().map(arg_json).collect::<Vec<_>>().join(","), range(&m.symbol_range), range(&m.full_range), range(&m.transact_code_range), range(&m.oneway_range))),
            ast::InterfaceElement::Const(c) => v.push(format!("{{\"tag\":\"const\",\"name\":{},\"value\":{},\"doc\":{},\"type\":{},\"sym\":{},\"full\":{}}}", esc(&c.name), esc(&c.value), opt(&c.doc), type_json(&c.const_type), range(&c.symbol_range), range(&c.full_range))),
        } },
        ast::Item::Parcelable(p) => for e in &p.elements { match e {
            ast::ParcelableElement::Field(f) => v.push(format!("{{\"tag\":\"field\",\"name\":{},\"value\":{},\"doc\":{},\"type\":{},\"sym\":{},\"full\":{}}}", esc(&f.name), opt(&f.value), opt(&f.doc), type_json(&f.field_type), range(&f.symbol_range), range(&f.full_range))),
            ast::ParcelableElement::Const(c) => v.push(format!("{{\"tag\":\"const\",\"name\":{},\"value\":{},\"doc\":{},\"type\":{},\"sym\":{},\"full\":{}}}", esc(&c.name), esc(&c.value), opt(&c.doc), type_json(&c.const_type), range(&c.symbol_range), range(&c.full_range))),
        } },
        ast::Item::Enum(e) => for el in &e.elements {
            v.push(format!("{{\"tag\":\"enum_element\",\"name\":{},\"value\":{},\"doc\":{},\"sym\":{},\"full\":{}}}", esc(&el.name), opt(&el.value), opt(&el.doc), range(&el.symbol_range), range(&el.full_range)));
        },
    }
    format!("[{}]", v.join(","))
}
fn imports_json(v: &[ast::Import]) -> String {
    format!("[{}]", v.iter().map(|i| format!("{{\"path\":{},\"name\":{},\"sym\":{},\"full\":{}}}", esc(&i.path), esc(&i.name), range(&i.symbol_range), range(&i.full_range))).collect::<Vec<_>>().join(","))
}
fn types_walk(a: &ast::Aidl) -> String {
    let mut v = Vec::new();
    traverse::walk_types(a, |t| v.push(range(&t.symbol_range)));
    format!("[{}]", v.join(","))
}
fn methods_walk(a: &ast::Aidl) -> String {
    let mut v = Vec::new();
    traverse::walk_methods(a, |m| v.push(esc(&m.name)));
    let mut w = Vec::new();
    traverse::walk_args(a, |m, x| w.push(format!("[{},{}]", esc(&m.name), range(&x.symbol_range))));
    format!("{{\"methods\":[{}],\"args\":[{}]}}", v.join(","), w.join(","))
}
fn annots(owner: &str, v: &[ast::Annotation], out: &mut Vec<String>) {
    for a in v {
        let mut kv: Vec<String> = a.key_values.iter().map(|(k, v)| format!("[{},{}]", esc(k), opt(v))).collect();
        kv.sort();
        out.push(format!("{{\"owner\":{},\"name\":{},\"params\":[{}]}}", esc(owner), esc(&a.name), kv.join(",")));
    }
}
fn annots_json(a: &ast::Aidl) -> String {
    let mut out = Vec::new();
    match &a.item {
        ast::Item::Interface(i) => {
            annots("item", &i.annotations, &mut out);
            for e in &i.elements { match e {
                ast::InterfaceElement::Method(m) => {
                    annots(&m.name, &m.annotations, &mut out);
                    for (k, x) in m.args.iter().enumerate() { annots(&format!("{}#{}", m.name, k), &x.annotations, &mut out); }
                }
                ast::InterfaceElement::Const(c) => annots(&c.name, &c.annotations, &mut out),
            } }
        }
        ast::Item::Parcelable(p) => {
            annots("item", &p.annotations, &mut out);
            for e in &p.elements { match e {
                ast::ParcelableElement::Field(f) => annots(&f.name, &f.annotations, &mut out),
                ast::ParcelableElement::Const(c) => annots(&c.name, &c.annotations, &mut out),
            } }
        }
        ast::Item::Enum(e) => annots("item", &e.annotations, &mut out),
    }
    format!("[{}]", out.join(","))
}
fn ast_json(a: &ast::Aidl) -> String {
    let (tag, name, oneway, doc, sym, full) = match &a.item {
        ast::Item::Interface(i) => ("interface", &i.name, i.oneway, &i.doc, &i.symbol_range, &i.full_range),
        ast::Item::Parcelable(p) => ("parcelable", &p.name, false, &p.doc, &p.symbol_range, &p.full_range),
        ast::Item::Enum(e) => ("enum", &e.name, false, &e.doc, &e.symbol_range, &e.full_range),
    };
    format!("{{\"package\":{},\"package_sym\":{},\"package_full\":{},\"key\":{},\"imports\":{},\"declared\":{},\"item\":{{\"tag\":{},\"name\":{},\"oneway\":{},\"doc\":{},\"sym\":{},\"full\":{}}},\"members\":{},\"symbols_all\":{},\"symbols_items\":{},\"symbols_elements\":{},\"types_walk\":{},\"walkers\":{},\"annotations\":{}}}",
        esc(&a.package.name), range(&a.package.symbol_range), range(&a.package.full_range), esc(&a.get_key()), imports_json(&a.imports), imports_json(&a.declared_parcelables),
        esc(tag), esc(name), oneway, opt(doc), range(sym), range(full), members(a),
        symbols(a, SymbolFilter::All), symbols(a, SymbolFilter::ItemsOnly), symbols(a, SymbolFilter::ItemsAndItemElements), types_walk(a), methods_walk(a), annots_json(a))
}
fn result_json(r: &ParseFileResult<String>) -> String {
    format!("{{\"id\":{},\"ast\":{},\"diags\":{}}}", esc(&r.id), match &r.ast { Some(a) => ast_json(a), None => "null".into() }, diags(&r.diagnostics))
}
fn panic_msg(e: Box<dyn std::any::Any + Send>) -> String {
    if let Some(s) = e.downcast_ref::<&str>() { s.to_string() } else if let Some(s) = e.downcast_ref::<String>() { s.clone() } else { "panic".into() }
}
fn read_dir(dir: &str) -> Vec<(String, String)> {
    let mut v: Vec<(String, String)> = std::fs::read_dir(dir).unwrap().filter_map(|e| e.ok()).filter(|e| e.path().extension().map(|x| x == "aidl").unwrap_or(false))
        .map(|e| (e.file_name().to_string_lossy().to_string(), String::from_utf8_lossy(&std::fs::read(e.path()).unwrap()).to_string())).collect();
    v.sort();
    v
}

fn mode_project(dir: &str) {
    let files = read_dir(dir);
    let mut parser: Parser<String> = Parser::new();
    let mut out = Vec::new();
    let mut expected: HashMap<String, String> = HashMap::new();
    for (id, content) in &files {
        let _ = aidl_parser::verif_hooks::diagnostic::take_expected();
        let r = catch_unwind(AssertUnwindSafe(|| parser.add_content(id.clone(), content)));
        if let Err(e) = r { println!("{{\"panic\":{},\"phase\":\"add_content\",\"id\":{}}}", esc(&panic_msg(e)), esc(id)); return; }
        let ex = aidl_parser::verif_hooks::diagnostic::take_expected();
        expected.insert(id.clone(), format!("[{}]", ex.iter().map(|v| format!("[{}]", v.iter().map(|s| esc(s)).collect::<Vec<_>>().join(","))).collect::<Vec<_>>().join(",")));
    }
    let r = catch_unwind(AssertUnwindSafe(|| parser.validate()));
    let res = match r { Ok(r) => r, Err(e) => { println!("{{\"panic\":{},\"phase\":\"validate\"}}", esc(&panic_msg(e))); return; } };
    let pr = parser.verif_parse_results();
    for (id, _) in &files {
        let p = pr.get(id).map(result_json).unwrap_or("null".into());
        let v = res.get(id).map(result_json).unwrap_or("null".into());
        out.push(format!("{}:{{\"parse\":{},\"valid\":{},\"expected\":{}}}", esc(id), p, v, expected[id]));
    }
    let keys: Vec<String> = res.keys().map(|k| esc(k)).collect();
    println!("{{\"panic\":null,\"keys\":[{}],\"files\":{{{}}}}}", keys.join(","), out.join(","));
}

fn mode_determinism(dir: &str, n: usize) {
    let files = read_dir(dir);
    let mut seen: Vec<String> = Vec::new();
    for round in 0..n {
        let mut parser: Parser<String> = Parser::new();
        let mut order: Vec<usize> = (0..files.len()).collect();
        if round % 2 == 1 { order.reverse(); }
        for i in order { parser.add_content(files[i].0.clone(), &files[i].1); }
        for _ in 0..2 {
            let res = parser.validate();
            let mut s = String::new();
            for (id, _) in &files { let _ = write!(s, "{}", result_json(&res[id])); }
            if !seen.contains(&s) { seen.push(s); }
        }
    }
    println!("{{\"distinct\":{},\"variants\":[{}]}}", seen.len(), seen.iter().take(2).map(|s| esc(s)).collect::<Vec<_>>().join(","));
}

fn mode_roundtrip(dir: &str) {
    let files = read_dir(dir);
    let mut parser: Parser<String> = Parser::new();
    for (id, c) in &files { parser.add_content(id.clone(), c); }
    let res = parser.validate();
    let mut out = Vec::new();
    for (id, _) in &files {
        let r = &res[id];
        let s = match &r.ast {
            None => "{\"ast\":false}".to_string(),
            Some(a) => {
                let text = ron::to_string(a);
                match text {
                    Err(e) => format!("{{\"ast\":true,\"equal\":false,\"error\":{}}}", esc(&format!("serialize: {}", e))),
                    Ok(t) => match ron::from_str::<ast::Aidl>(&t) {
                        Err(e) => format!("{{\"ast\":true,\"equal\":false,\"error\":{}}}", esc(&format!("deserialize: {}", e))),
                        Ok(b) => format!("{{\"ast\":true,\"equal\":{},\"error\":null}}", *a == b),
                    },
                }
            }
        };
        out.push(format!("{}:{}", esc(id), s));
    }
    println!("{{{}}}", out.join(","));
}

fn mode_javadoc(file: &str) {
    let content = String::from_utf8(std::fs::read(file).unwrap()).unwrap();
    let r = catch_unwind(AssertUnwindSafe(|| aidl_parser::verif_hooks::javadoc::find_content_string(&content).map(|s| s.to_string())));
    match r {
        Err(e) => println!("{{\"panic\":{}}}", esc(&panic_msg(e))),
        Ok(v) => println!("{{\"panic\":null,\"content\":{}}}", opt(&v)),
    }
}

fn mode_ets(n: usize) {
    let v: Vec<String> = (0..n).map(|i| format!("T{}", i)).collect();
    let r = catch_unwind(AssertUnwindSafe(|| aidl_parser::verif_hooks::diagnostic::expected_token_str(&v)));
    match r { Err(e) => println!("{{\"panic\":{}}}", esc(&panic_msg(e))), Ok(s) => println!("{{\"panic\":null,\"text\":{}}}", esc(&s)) }
}

fn mode_lookup(dir: &str, id: &str, line: usize, col: usize) {
    let files = read_dir(dir);
    let mut parser: Parser<String> = Parser::new();
    for (i, c) in &files { parser.add_content(i.clone(), c); }
    let res = parser.validate();
    let a = match res.get(id).and_then(|r| r.ast.as_ref()) { Some(a) => a, None => { println!("{{\"ast\":false}}"); return; } };
    let f = |flt| traverse::find_symbol_at_line_col(a, flt, (line, col)).map(|s| sym_json(&s)).unwrap_or("null".into());
    println!("{{\"ast\":true,\"all\":{},\"items\":{},\"elements\":{}}}", f(SymbolFilter::All), f(SymbolFilter::ItemsOnly), f(SymbolFilter::ItemsAndItemElements));
}

fn digest(res: &HashMap<String, ParseFileResult<String>>) -> String {
    let mut keys: Vec<&String> = res.keys().collect();
    keys.sort();
    let mut s = String::new();
    for k in keys { let _ = write!(s, "{}=>{}\n", k, result_json(&res[k])); }
    s
}

/// Script of operations (one per line): `add <id> <file>`, `remove <id>`, `validate`, `addfile <path>` (id = the path), `reset`.
/// After every step the parser's validate() output is compared with that of a fresh parser holding the model map
/// (inserted in the reverse order), validate() is repeated, and add_file is compared with add_content under the path.
/// Output: counts and the first failing steps only.
fn mode_history(script: &str) {
    let text = std::fs::read_to_string(script).unwrap();
    let mut cache: HashMap<String, String> = HashMap::new();
    let mut parser: Parser<String> = Parser::new();
    let mut fparser: Parser<std::path::PathBuf> = Parser::new();
    let mut model: std::collections::BTreeMap<String, String> = std::collections::BTreeMap::new();
    let mut fmodel: std::collections::BTreeMap<std::path::PathBuf, String> = std::collections::BTreeMap::new();
    let mut bad = Vec::new();
    let (mut steps, mut histories) = (0usize, 1usize);
    let mut hist: Vec<&str> = Vec::new();
    for line in text.lines() {
        let parts: Vec<&str> = line.splitn(3, ' ').collect();
        let mut note = String::new();
        let mut file_ok = true;
        match parts[0] {
            "reset" => { parser = Parser::new(); fparser = Parser::new(); model.clear(); fmodel.clear(); hist.clear(); histories += 1; continue; }
            "add" => {
                let c = cache.entry(parts[2].to_string()).or_insert_with(|| std::fs::read_to_string(parts[2]).unwrap()).clone();
                parser.add_content(parts[1].to_string(), &c); model.insert(parts[1].to_string(), c);
            }
            "remove" => { parser.remove_content(parts[1].to_string()); model.remove(parts[1]); }
            "validate" => { let _ = parser.validate(); }
            "addfile" => {
                let r = fparser.add_file(parts[1]);
                let readable = std::fs::read(parts[1]).ok().and_then(|b| String::from_utf8(b).ok());
                if let Some(t) = &readable { fmodel.insert(std::path::PathBuf::from(parts[1]), t.clone()); }
                let mut fresh: Parser<std::path::PathBuf> = Parser::new();
                for (k, v) in fmodel.iter() { fresh.add_content(k.clone(), v); }
                file_ok = r.is_ok() == readable.is_some() && digest_pb(&fparser.validate()) == digest_pb(&fresh.validate());
                note = format!(",\"addfile_ok\":{},\"readable\":{}", r.is_ok(), readable.is_some());
            }
            "addpath" => {
                // add_content on the path-keyed parser: the same id an add_file used / will use
                let c = cache.entry(parts[2].to_string()).or_insert_with(|| std::fs::read_to_string(parts[2]).unwrap()).clone();
                fparser.add_content(std::path::PathBuf::from(parts[1]), &c);
                fmodel.insert(std::path::PathBuf::from(parts[1]), c);
                let mut fresh: Parser<std::path::PathBuf> = Parser::new();
                for (k, v) in fmodel.iter() { fresh.add_content(k.clone(), v); }
                file_ok = digest_pb(&fparser.validate()) == digest_pb(&fresh.validate());
                note = String::from(",\"addpath\":true");
            }
            _ => {}
        }
        hist.push(line);
        steps += 1;
        let got = digest(&parser.validate());
        let again = digest(&parser.validate());
        let mut fresh: Parser<String> = Parser::new();
        for (k, v) in model.iter().rev() { fresh.add_content(k.clone(), v); }
        let want = digest(&fresh.validate());
        let keys_ok = parser.validate().len() == model.len();
        if (got != want || got != again || !file_ok || !keys_ok) && bad.len() < 5 {
            bad.push(format!("{{\"history\":[{}],\"equal_to_fresh\":{},\"idempotent\":{},\"file_ok\":{},\"keys_ok\":{}{}}}",
                hist.iter().map(|l| esc(l)).collect::<Vec<_>>().join(","), got == want, got == again, file_ok, keys_ok, note));
        }
    }
    println!("{{\"histories\":{},\"steps\":{},\"bad\":[{}]}}", histories, steps, bad.join(","));
}
fn digest_pb(res: &HashMap<std::path::PathBuf, ParseFileResult<std::path::PathBuf>>) -> String {
    let mut keys: Vec<&std::path::PathBuf> = res.keys().collect();
    keys.sort();
    let mut s = String::new();
    for k in keys {
        let r = &res[k];
        let _ = write!(s, "{:?}=>{:?}|{}|{}\n", k, r.id, r.ast.as_ref().map(ast_json).unwrap_or_default(), diags(&r.diagnostics));
    }
    s
}

fn main() {
    std::panic::set_hook(Box::new(|_| {}));
    let a: Vec<String> = std::env::args().collect();
    match a.get(1).map(|s| s.as_str()) {
        Some("project") => mode_project(&a[2]),
        Some("determinism") => mode_determinism(&a[2], a[3].parse().unwrap()),
        Some("roundtrip") => mode_roundtrip(&a[2]),
        Some("javadoc") => mode_javadoc(&a[2]),
        Some("ets") => mode_ets(a[2].parse().unwrap()),
        Some("lookup") => mode_lookup(&a[2], &a[3], a[4].parse().unwrap(), a[5].parse().unwrap()),
        Some("history") => mode_history(&a[2]),
        _ => { eprintln!("usage: vreplay project|determinism|roundtrip|javadoc|ets|lookup ..."); std::process::exit(64); }
    }
}
